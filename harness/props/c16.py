"""C16  Redirect following is bounded, loop-free and stays on gemini://

Correspondence: the real `GeminiClient.get` / `_get_with_redirects` with
`_get_single` replaced by a redirect graph, against `Cl.get` in the Lean model.
"""
from __future__ import annotations

import asyncio
import itertools
import random
import time

from .. import core
from ..core import Family, cps

ID = "C16"
READY = True
LEAN_TARGETS = ["NauyacaVerif.Props.C16"]
THEOREMS = [f"NauyacaVerif.C16.{t}" for t in
            ("redirect_bound", "redirect_scheme", "redirect_no_fake_final", "redirect_follows", "no_follow_single")]
LEAN_TARGETS = LEAN_TARGETS + ["NauyacaVerif.Props.Tr.FollowRedirects"]
TRANSLATED = ["followRedirects"]
THEOREMS = THEOREMS + [f"NauyacaVerif.Translated.{t}" for t in ("followRedirects_eq", "tr_bound", "tr_scheme", "tr_no_fake_final", "getTr_fuel")]
# the predicates and accessors the translation of _get_with_redirects took as given: is_redirect (protocol/status.py),
# GeminiResponse.is_redirect / .redirect_url (protocol/response.py) - translated too and proved equal to Cl.isRedirectStatus / Resp.redirectUrl
LEAN_TARGETS = LEAN_TARGETS + ["NauyacaVerif.Props.Tr.StatusClass"]
TRANSLATED = TRANSLATED + ["isRedirect", "isSuccess", "respIsRedirect", "respRedirectUrl"]
THEOREMS = THEOREMS + [f"NauyacaVerif.Translated.{t}" for t in ("is_redirect_eq", "is_redirect_iff", "is_success_iff", "status_classes_disjoint", "respOf_wf",
                                                               "wf_is_respOf", "resp_redirect_url_eq", "resp_redirect_url_iff")]
EXTRACT = ["maxRedirects"]
ASSUMPTIONS = [
    "a 'connection' is a call of GeminiClient._get_single (the only place that opens a transport); the pin check of every hop is inside _get_single and is covered by C03/C11",
    "thorough tier additionally runs chains against scripted loopback TLS servers (family live)",
    "family live: a start URL or a redirect target may write the letters of a host name in another case (LOCALHOST, Localhost, localhosT); host names are "
    "case-insensitive (RFC 3986 3.2.2), so it is the same host - the pin made under one spelling holds for every other - while the request line may carry either spelling",
    "a redirect target may carry raw UTF-8 next to percent-escapes (an IRI); the request for it names the same resource when it is the target as written or "
    "its URI form (RFC 3987 3.1: non-ASCII characters as the escapes of their UTF-8 bytes; hex digits of escapes in either case) - any other change of an "
    "escape (%20 -> %2520, %2F -> /) requests another resource; the scripted servers answer by resource",
]

_CLIENT = None
POOL = ["gemini://a/", "gemini://b/", "gemini://c/x", "gemini://d:1966/", "gemini://a/y?q", "gemini://e/", "gemini://a/?p=1", "gemini://a/?p=2", "gemini://c/x/", "gemini://c/./x"]
ODD_TARGETS = ["", "/relative", "relative/path", "http://a/", "https://b/x", "titan://a/up;size=0", "GEMINI://a/", "gemini:/a", "gemini:a",
               "gemini://", "gemini://u@a/", "gemini://a/#frag", "gemini://a/" + "p" * 1100, "//a/", "gemini://a:99999/", "mailto:x@y", " gemini://a/"]

# Redirect targets as servers in the wild write them: raw UTF-8 (an IRI, RFC 3987) next to percent-escapes that are already
# there (a space, an escaped "/", an escaped "%", the UTF-8 escape of a letter).  The first MIXED_N have both; the rest are the
# controls (escapes only, raw characters only).  No two of them name the same resource (see same_resource).
IRI_POOL = ["gemini://a/caf\u00e9%20menu/page", "gemini://a/a%20b/search?q=\u00fcber", "gemini://b/%C3%A9t\u00e9", "gemini://c/dir%2Ffile/\u65e5\u672c",
            "gemini://a/x?q=100%25&n=\u00f1", "gemini://d:1966/\U0001f600%20/", "gemini://b/na\u00efve%20caf%C3%A9?lang=fr%2Dca&t=\u00e7a", "gemini://e/%e2%82%ac/\u20ac",
            "gemini://a/a%20b/page", "gemini://a/caf\u00e9/page", "gemini://c/%41%2f%25?x=%3F"]
MIXED_N = 8
IRI_TAILS = ["/caf\u00e9%20menu", "/a%20b?q=\u00fcber", "/%C3%A9t\u00e9", "/d%2Ff/\u65e5\u672c", "?q=100%25&n=\u00f1", "/\U0001f600%20x/", "/%e2%82%ac=\u20ac"]
_HEX = "0123456789abcdefABCDEF"


def uri_form(u: str) -> str:
    """the URI an IRI maps to (RFC 3987 3.1: every character outside ASCII becomes the percent-escapes of its UTF-8 bytes) with the
    hexadecimal digits of the escapes in upper case (RFC 3986 6.2.2.1).  Nothing else changes: an escape that is there stays ONE
    escape (%20 is not %2520 and not a space, %2F is not "/").  Two request URLs with the same uri_form name the same resource."""
    out, i = [], 0
    while i < len(u):
        ch = u[i]
        if ch == "%" and i + 2 < len(u) and u[i + 1] in _HEX and u[i + 2] in _HEX:
            out.append(u[i:i + 3].upper())
            i += 3
            continue
        out.append(ch if ord(ch) < 128 else "".join("%%%02X" % b for b in ch.encode("utf-8", "surrogatepass")))
        i += 1
    return "".join(out)


def same_resource(a, b) -> bool:
    """the client may put a redirect target on the request line as the server wrote it or in its URI form"""
    if isinstance(a, str):
        return a == b or uri_form(a) == uri_form(b)
    return len(a) == len(b) and all(same_resource(x, y) for x, y in zip(a, b))


def node_of(graph, url):
    """what the scripted servers answer to a request for `url`: the node that names the same resource"""
    e = graph.get(url)
    if e is None and ("%" in url or not url.isascii()):
        f = uri_form(url)
        for k, v in graph.items():
            if uri_form(k) == f:
                return v
    return e


def call_get(client, url, follow, call=None):
    """GeminiClient.get as a caller may write it: the documented signature is get(url, follow_redirects=True), so the flag may be
    given by keyword or as the second POSITIONAL argument - both spellings must mean the same thing (case key `call`)"""
    if call == "positional":
        return client.get(url, follow)
    return client.get(url, follow_redirects=follow)


def spread_calls(cases, key="call", every=3, phase=1):
    """mark every `every`-th case of an enumeration as one whose flag is passed positionally (no random draws: the cases
    themselves stay what they were)"""
    for i, c in enumerate(cases):
        if i % every == phase:
            c[key] = "positional"
        yield c


class Graph(Family):
    name = "graph"
    quick_n = 6000
    thorough_n = 120000

    def gen(self, rng: random.Random, n: int):
        # every third case passes the follow flag as the second positional argument, get(url, False) / get(url, True)
        return spread_calls(self._gen(rng, n))

    def _gen(self, rng: random.Random, n: int):
        # exhaustive part: all graphs over 3 URLs where each node is final or redirects to one of the 3 (or to an odd target)
        urls = POOL[:3]
        outs = [["f", 20], ["e"]] + [["r", 30, t] for t in urls] + [["r", 31, "http://a/"], ["r", 30, ""]]
        count = 0
        combos = [(combo, mx) for combo in itertools.product(outs, repeat=3) for mx in (0, 1, 2, 3)]
        for combo, mx in self.share(combos):
            yield {"max": mx, "start": urls[0], "graph": dict(zip(urls, combo)), "follow": True}
            count += 1
            if count >= n // 2:
                break
        # redirect targets that mix raw UTF-8 with percent-escapes (and the controls that have only one of the two): one hop, two
        # hops through two such targets, a loop between two of them, a chain one hop too long, following switched off
        wit = []
        for t in IRI_POOL:
            for mx, code in ((1, 30), (1, 31), (5, 30), (5, 31)):
                wit.append({"max": mx, "start": "gemini://a/", "graph": {"gemini://a/": ["r", code, t], t: ["f", 20]}, "follow": True})
            wit.append({"max": 3, "start": "gemini://a/", "graph": {"gemini://a/": ["r", 30, t], t: ["f", 20]}, "follow": False})
            wit.append({"max": 3, "start": t, "graph": {t: ["r", 31, "gemini://a/"], "gemini://a/": ["f", 20]}, "follow": True})
        for t1, t2 in itertools.permutations(IRI_POOL, 2):
            fwd = {"gemini://a/": ["r", 30, t1], t1: ["r", 31, t2], t2: ["f", 20]}
            wit.append({"max": 2, "start": "gemini://a/", "graph": fwd, "follow": True})
            if IRI_POOL.index(t1) < MIXED_N <= IRI_POOL.index(t2) or IRI_POOL.index(t1) + 1 == IRI_POOL.index(t2):
                wit.append({"max": 1, "start": "gemini://a/", "graph": fwd, "follow": True})
                wit.append({"max": 4, "start": "gemini://a/", "graph": {"gemini://a/": ["r", 30, t1], t1: ["r", 31, t2], t2: ["r", 30, t1]}, "follow": True})
        # a FINAL response (any code outside 30..39, the edges 29 and 40 included) whose meta happens to be a gemini URL - an error text
        # or a MIME line that names one - is final: it is handed back and nothing is requested from the URL in its meta
        for code in (29, 40, 20, 10, 19, 41, 44, 51, 62, 69):
            for hops in (0, 1):
                g = {"gemini://a/": ["r", 30, "gemini://b/"], "gemini://b/": ["f", code, "gemini://c/x"], "gemini://c/x": ["f", 20]}
                wit.append({"max": 3, "start": "gemini://a/" if hops else "gemini://b/", "graph": g, "follow": True})
            wit.append({"max": 2, "start": "gemini://b/", "graph": {"gemini://b/": ["f", code, "gemini://b/"]}, "follow": True})
        for c in self.share(wit):
            yield c
            count += 1
        for i in range(n - count):
            pool = POOL if i % 6 else IRI_POOL + POOL[:5]
            k = rng.randint(1, len(pool))
            urls = rng.sample(pool, k)
            g = {}
            for u in urls:
                r = rng.random()
                if r < 0.2:
                    g[u] = ["f", rng.choice([20, 10, 40, 51, 59, 60, 29])]
                    if i % 4 == 1:        # its meta is a URL of the graph (no further random draw: the other cases stay what they were)
                        g[u].append(urls[(i // 4) % len(urls)])
                elif r < 0.27:
                    g[u] = ["e"]
                elif r < 0.85:
                    g[u] = ["r", rng.choice([30, 31, 39]), rng.choice(urls if rng.random() < 0.8 else pool)]
                else:
                    g[u] = ["r", rng.choice([30, 31]), rng.choice(ODD_TARGETS)]
            yield {"max": rng.randint(0, 6), "start": rng.choice(urls), "graph": g, "follow": rng.random() < 0.9}

    def impl(self, case):
        from nauyaca.client.session import GeminiClient
        from nauyaca.protocol.response import GeminiResponse

        conns: list[str] = []
        graph = case["graph"]

        async def fake_single(url: str):
            conns.append(url)
            e = node_of(graph, url)
            if e is None or e[0] == "e":
                raise ConnectionError("stub: no such host")
            if e[0] == "f":
                return GeminiResponse(status=e[1], meta=e[2] if len(e) > 2 else "text/gemini" if 20 <= e[1] < 30 else "meta",
                                      body="x" if 20 <= e[1] < 30 else None, url=url)
            return GeminiResponse(status=e[1], meta=e[2], url=url)

        async def go():
            global _CLIENT
            if _CLIENT is None:
                _CLIENT = GeminiClient(max_redirects=5, verify_ssl=False, trust_on_first_use=False)
            client = _CLIENT
            client.max_redirects = case["max"]
            client._get_single = fake_single  # type: ignore[method-assign]
            try:
                r = await call_get(client, case["start"], case["follow"], case.get("call"))
            except ValueError as ex:
                m = str(ex)
                kind = "loop" if "loop" in m.lower() else "toomany" if "aximum redirects" in m else "missing" if "missing URL" in m else "valueerror:" + m[:40]
                return ["error", kind]
            except ConnectionError:
                return ["error", "fetcherr"]
            if 30 <= r.status < 40:
                return ["redirect", r.status, r.meta]
            return ["final", r.status]

        res = asyncio.run(go())
        return {"r": res, "conns": conns}

    def model(self, case):
        if not case["follow"]:
            return None
        ents = []
        for u, e in case["graph"].items():
            if e[0] == "f":
                ents.append(f"{cps(u)}=f:{e[1]}")
            elif e[0] == "e":
                ents.append(f"{cps(u)}=e")
            else:
                ents.append(f"{cps(u)}=r:{e[1]}:{cps(e[2])}")
        return " ".join(["follow", str(case["max"]), cps(case["start"])] + ents)

    def expect(self, case, out):
        # ok <result> [<conns>]
        assert out.startswith("ok "), out
        body = out[3:]
        res, _, conns = body.partition(" [")
        conns = [core.uncps(c) for c in conns.rstrip("]").split(" ") if c]
        if res.startswith("final:"):
            r = ["final", int(res[6:])]
        elif res.startswith("redirect:"):
            _, st, t = res.split(":")
            r = ["redirect", int(st), core.uncps(t)]
        else:
            r = ["error", res]
        return {"r": r, "conns": conns}

    def oracle(self, case, obs):
        v = self._oracle(case, obs)
        if v and case.get("call") == "positional":
            return (v[0], f"called as get({case['start']!r}, {case['follow']}) - the flag as second positional argument: " + v[1])
        return v

    def _oracle(self, case, obs):
        mx, g, start = case["max"], case["graph"], case["start"]
        conns, r = obs["conns"], obs["r"]
        if not case["follow"]:
            if not same_resource(conns, [start]):
                return ("nofollow-conns", f"follow_redirects=False made connections {conns}")
            e = g.get(start)
            if e and e[0] == "r" and r != ["redirect", e[1], e[2]]:
                return ("nofollow-changed", f"3x response not returned unchanged: {r}")
            return None
        if len(conns) > mx + 1:
            return ("bound", f"{len(conns)} connections with max_redirects={mx}")
        for c in conns:
            if not c.startswith("gemini://"):
                return ("scheme", f"connected to non-gemini URL {c!r}")
        if r[0] == "redirect" and r[2].startswith("gemini://"):
            return ("fake-final", f"gemini redirect returned as final content: {r}")
        # reference walk: a loop-free chain of <= max gemini redirects must be followed to its end
        chain, u = [], start
        while True:
            e = g.get(u)
            if u in chain or e is None or e[0] != "r" or not e[2].startswith("gemini://") or e[2] == "":
                break
            chain.append(u)
            u = e[2]
        e = g.get(u)
        if u not in chain and e is not None and e[0] == "f" and not (30 <= e[1] < 40) and len(chain) <= mx:
            if len(conns) > len(chain) + 1 and same_resource(conns[:len(chain) + 1], chain + [u]):
                return ("past-final", f"the response {e[1]} {e[2] if len(e) > 2 else ''!r} of {u!r} is final (its code is outside 30..39) but the fetch went on: "
                                      f"connections {conns}, result {r}")
            if r != ["final", e[1]] or not same_resource(conns, chain + [u]):
                return ("not-followed", f"loop-free chain of {len(chain)} redirects (max {mx}) not followed to its final response: result {r}, connections {conns}"
                                        + ("" if len(conns) != len(chain) + 1 else
                                           "".join(f"; hop {i + 1} was redirected to {w!r} and requested {c!r}, another resource" for i, (c, w) in enumerate(zip(conns, chain + [u]))
                                                   if not same_resource(c, w))))
        if u in chain and r[0] != "error":
            return ("loop-not-reported", f"redirect loop returned {r}")
        return None

    def same(self, expected, obs):
        # the model puts every redirect target on the wire as it is written; its URI form names the same resource
        return expected["r"] == obs["r"] and same_resource(obs["conns"], expected["conns"])

    def key(self, case, obs):
        return f"{obs['r'][0]}:{obs['r'][1] if obs['r'][0] == 'error' else ''}:hops={len(obs['conns'])}:follow={case['follow']}"


class Overlap(Family):
    """ONE client, several fetches in flight at the same time (a proxy, a crawler, a GUI with tabs): every fetch on its own
    is bounded, loop-free and followed exactly as if it ran alone - no state of one fetch (chain, hop count) leaks into another.
    Each fetch walks its own URL namespace, so every connection is attributed to the fetch that made it; `_get_single` is
    a scripted graph whose answers take a scripted number of loop iterations, which fixes the interleaving."""

    name = "overlap"
    quick_n = 700
    thorough_n = 15000

    def gen(self, rng: random.Random, n: int):
        # in every third case ONE of the fetches is written get(url, True)
        for i, c in enumerate(self._gen(rng, n)):
            if i % 3 == 1:
                c["fetches"][(i // 3) % len(c["fetches"])]["call"] = "positional"
            yield c

    def _gen(self, rng: random.Random, n: int):
        g0 = Graph()
        fixed = []
        # a chain longer than max_redirects, a second fetch started while the first is between hops
        for mx in (1, 2, 3):
            for delay2 in range(0, 2 * mx + 4):
                chain = {f"gemini://f0/{i}": ["r", 30, f"gemini://f0/{i + 1}"] for i in range(mx + 2)}
                chain[f"gemini://f0/{mx + 2}"] = ["f", 20]
                loop = {"gemini://f1/a": ["r", 30, "gemini://f1/b"], "gemini://f1/b": ["r", 31, "gemini://f1/a"]}
                fixed.append({"max": mx, "fetches": [{"start": "gemini://f0/0", "graph": chain, "delay": 0, "lat": 2},
                                                      {"start": "gemini://f1/a", "graph": loop, "delay": delay2, "lat": 1}]})
        for c in self.share(fixed):
            yield c
        # the graphs come from family graph's enumeration; each process of a sharded run walks ITS part of it (every k-th graph), so
        # that the few hundred graphs a process draws range over the whole enumeration and not only over its first entries (whose
        # start URL answers 20 at once)
        g0.shard = self.shard
        sub = g0._gen(random.Random(rng.randrange(1 << 30)), 10 ** 9)
        for _ in range(n):
            k = rng.choice([2, 2, 3])
            mx = rng.randint(0, 5)
            fetches = []
            for j in range(k):
                c = next(sub)
                ren = lambda u, j=j: u.replace("gemini://", f"gemini://f{j}-", 1) if u.startswith("gemini://") and len(u) > 9 else u
                graph = {ren(u): ([e[0], e[1], ren(e[2])] if e[0] == "r" else list(e)) for u, e in c["graph"].items()}
                fetches.append({"start": ren(c["start"]), "graph": graph, "delay": rng.randint(0, 6), "lat": rng.randint(0, 3)})
            yield {"max": mx, "fetches": fetches}

    def impl(self, case):
        from nauyaca.client.session import GeminiClient
        from nauyaca.protocol.response import GeminiResponse

        def run(fetches):
            conns: list[list[str]] = [[] for _ in fetches]
            owner = {}
            for j, f in enumerate(fetches):
                for u in f["graph"]:
                    owner[u] = j

            import contextvars

            who = contextvars.ContextVar("fetch", default=None)      # which fetch (task) is asking: every gather()ed coroutine runs in its own context

            async def fake_single(url: str):
                j = who.get()
                if j is None:
                    raise ConnectionError("stub: no such host")
                conns[j].append(url)
                for _ in range(fetches[j]["lat"]):
                    await asyncio.sleep(0)
                e = node_of(fetches[j]["graph"], url)
                if e is None or e[0] == "e":
                    raise ConnectionError("stub: no such host")
                if e[0] == "f":
                    return GeminiResponse(status=e[1], meta="text/gemini" if 20 <= e[1] < 30 else "meta", body="x" if 20 <= e[1] < 30 else None, url=url)
                return GeminiResponse(status=e[1], meta=e[2], url=url)

            async def one(client, f, j):
                who.set(j)
                for _ in range(f["delay"]):
                    await asyncio.sleep(0)
                try:
                    r = await call_get(client, f["start"], True, f.get("call"))
                except ValueError as ex:
                    m = str(ex)
                    return ["error", "loop" if "loop" in m.lower() else "toomany" if "aximum redirects" in m else "missing" if "missing URL" in m else "valueerror:" + m[:40]]
                except ConnectionError:
                    return ["error", "fetcherr"]
                if 30 <= r.status < 40:
                    return ["redirect", r.status, r.meta]
                return ["final", r.status]

            async def go():
                client = GeminiClient(max_redirects=case["max"], verify_ssl=False, trust_on_first_use=False)
                client._get_single = fake_single  # type: ignore[method-assign]
                return await asyncio.gather(*(one(client, f, j) for j, f in enumerate(fetches)))

            res = asyncio.run(go())
            return [{"r": r, "conns": c} for r, c in zip(res, conns)]

        together = run(case["fetches"])
        alone = [run([f])[0] for f in case["fetches"]]
        return {"together": together, "alone": alone}

    def model(self, case):
        return None      # each fetch alone is compared with the Lean model in family graph

    def oracle(self, case, obs):
        g0 = Graph()
        for j, f in enumerate(case["fetches"]):
            sub = {"max": case["max"], "graph": f["graph"], "start": f["start"], "follow": True, "call": f.get("call")}
            v = g0.oracle(sub, obs["together"][j])
            if v:
                return (v[0], f"fetch {j + 1} of {len(case['fetches'])} overlapping fetches on one client: " + v[1])
            if obs["together"][j] != obs["alone"][j]:
                return ("fetches-interfere", f"fetch {j + 1} of {len(case['fetches'])} on one client: {obs['together'][j]} while other fetches were in flight, {obs['alone'][j]} alone")
        return None

    def key(self, case, obs):
        return "+".join(sorted(f"{o['r'][0]}:{o['r'][1] if o['r'][0] == 'error' else ''}:{len(o['conns'])}" for o in obs["together"]))


SPELLS = [None, "upper", "title", "mixed", "last"]


def recase(name: str, how) -> str:
    """another spelling of the same (case-insensitive) host name"""
    if how == "upper":
        return name.upper()
    if how == "title":
        return name.title()
    if how == "mixed":
        return "".join(ch.upper() if i % 2 else ch for i, ch in enumerate(name))
    if how == "last":
        i = max((j for j, ch in enumerate(name) if ch.isalpha()), default=None)
        return name if i is None else name[:i] + name[i].upper() + name[i + 1:]
    return name


def hop_url(h, ports) -> str:
    return f"gemini://{recase(h['host'], h.get('spell'))}:{ports[h['peer']]}{h['path']}"


def fold_host(u: str) -> str:
    """a gemini URL / request line with the authority in lower case (the request may name the host in either spelling)"""
    if not u.startswith("gemini://"):
        return u
    rest = u[len("gemini://"):]
    cut = min((rest.index(ch) for ch in "/?#" if ch in rest), default=len(rest))
    return "gemini://" + rest[:cut].lower() + rest[cut:]


class Live(Family):
    """the full GeminiClient (TOFU on, temporary pin store) against up to three scripted loopback TLS servers that
    count TCP connections and log request lines: bound, scheme, pin check on every hop, faults (a server that drops
    a connection without answering), follow_redirects on/off"""
    realtime = True     # runs on the wall clock (sockets, threads): a failure is re-run once before it counts (core.run_family)

    name = "live"
    quick_n = 96
    thorough_n = 2400

    def gen(self, rng: random.Random, n: int):
        # every third case calls get(url, <flag>) with the flag as the second positional argument (no meaning through the command line)
        return spread_calls(self._gen(rng, n))

    def _gen(self, rng: random.Random, n: int):
        hosts = ["localhost", "127.0.0.1", "127.0.0.2"]
        # a host that comes back later in the chain with another certificate AND written in another case: the same host, the same pin
        fixed = []
        for k, (s0, s1) in enumerate([(None, "upper"), ("upper", None), ("title", "last"), (None, "mixed"), (None, "last"), ("mixed", "upper")]):
            hops = [{"peer": k % 3, "host": "localhost", "path": "/h0", "cert": "ec", "spell": s0},
                    {"peer": (k + 1) % 3, "host": hosts[k % 3], "path": "/h1?q=1", "cert": "rsa"},
                    {"peer": k % 3, "host": "localhost", "path": "/h2", "cert": "ec2", "spell": s1}]
            fixed.append({"max": 4, "follow": True, "hops": hops, "kind": "revisit-swap", "final": 20, "code": 30 + k % 2})
        # redirect targets that mix raw UTF-8 with percent-escapes: the request line of every hop names the resource the redirect named
        for k, tail in enumerate(IRI_TAILS):
            hops = [{"peer": k % 3, "host": hosts[k % 3], "path": "/h0", "cert": "ec"},
                    {"peer": (k + 1) % 3, "host": hosts[(k + 1) % 3], "path": "/h1" + tail, "cert": "rsa"},
                    {"peer": (k + 2) % 3, "host": "localhost", "path": "/h2" + IRI_TAILS[(k + 3) % len(IRI_TAILS)], "cert": "ed"}]
            fixed.append({"max": 3, "follow": True, "hops": hops[:2 + k % 2], "kind": "chain", "final": 20, "code": 30 + k % 2})
        for c in self.share(fixed):
            yield c
        for i in range(n):
            nh = rng.randint(1, 4)
            hops = []
            for j in range(nh):
                hops.append({"peer": rng.randrange(3), "host": rng.choice(hosts), "path": f"/h{j}" + rng.choice(["", "?q=1", "/x"]), "cert": rng.choice(["ec", "rsa", "ed"])})
            kind = rng.choice(["chain", "chain", "revisit-swap", "drop", "loop", "nongemini"])
            if i % 24 == 7:
                kind = "locked"
                # the LAST hop's host:port is pinned with another certificate and the pin store cannot be read when that hop is
                # reached (another process holds the database lock): the pin cannot be verified, so nothing may be sent to that hop
                hops = hops[: rng.choice([1, 2, 2, 3])]
                for j in range(len(hops) - 1):         # make sure the last hop's host:port is not visited earlier
                    if (hops[j]["peer"], hops[j]["host"]) == (hops[-1]["peer"], hops[-1]["host"]):
                        hops[j]["peer"] = (hops[-1]["peer"] + 1) % 3
            case = {"max": rng.randint(0, 4), "follow": rng.random() < 0.85, "hops": hops, "kind": kind, "final": rng.choice([20, 51, 20])}
            if kind == "locked":
                case["max"], case["follow"] = 4, True
            if kind == "revisit-swap" and nh >= 3:
                # hop 0 and the last hop are the same host:port, which presents another certificate the second time
                hops[-1]["peer"], hops[-1]["host"] = hops[0]["peer"], hops[0]["host"]
                hops[-1]["cert"] = "ec2" if hops[0]["cert"] != "ec2" else "rsa"
            elif kind == "revisit-swap":
                case["kind"] = "chain"
            if case["kind"] == "revisit-swap" and rng.random() < 0.5:
                # ... and the host that comes back is a NAME, written in another case the second time (or the first)
                hops[0]["host"] = hops[-1]["host"] = "localhost"
                a, b = rng.sample(SPELLS, 2)
                hops[0]["spell"], hops[-1]["spell"] = a, b
                for h in hops[1:-1]:                      # the hops between go elsewhere
                    if (h["peer"], h["host"]) == (hops[0]["peer"], "localhost"):
                        h["host"] = "127.0.0.1"
            for h in hops:
                if h["host"] == "localhost" and "spell" not in h and rng.random() < 0.3:
                    h["spell"] = rng.choice(SPELLS[1:])
            if kind == "drop":
                case["drop_at"] = rng.randrange(nh)
            case["code"] = rng.choice([30, 31, 31])
            if i % 5 == 2:
                for h in hops[1:]:
                    h["path"] += IRI_TAILS[(i // 5 + len(h["path"])) % len(IRI_TAILS)]
            if kind == "chain" and rng.random() < 0.25:
                # the last hop redirects to a RELATIVE reference: never a gemini:// URL, so it is returned to the caller as it is
                case["kind"] = "relative"
                case["target"] = rng.choice(["/x", "../x", "x", "?q=1", "//other.example/x", "./a;b", "/x?", ""])
            if case["kind"] != "locked" and rng.random() < 0.3:
                # servers that speak first: the response is sent right after the handshake, without waiting for the request
                for h in hops:
                    h["eager"] = rng.random() < 0.5
                    h["tls12"] = h["eager"] and rng.random() < 0.6      # TLS 1.2: the response can ride on the server's last handshake flight
            if case["kind"] == "revisit-swap" and rng.random() < 0.6:
                # the host that comes back with another certificate speaks first, on TLS 1.2: its answer is in the client's hands before
                # the client has looked at the certificate
                hops[-1]["eager"], hops[-1]["tls12"] = True, True
            if case["kind"] in ("chain", "loop", "nongemini", "relative") and rng.random() < 0.25:
                # through the command line (`nauyaca get`), plain and --verbose
                case["via"] = rng.choice(["cli", "cli-v"])
            if kind in ("chain", "loop", "nongemini") and rng.random() < 0.35:
                # the same client object is used for a second fetch of the same URL (other follow / max settings): it is a
                # fresh fetch - nothing remembered from the first one may replace a connection or a response
                case["again"] = {"follow": rng.random() < 0.5, "max": rng.randint(0, 4)}
            yield case

    def _expected(self, case, ports, pins=None):
        """reference walk straight from the property text (independent of the Lean model)"""
        hops, mx = case["hops"], case["max"]
        code = case.get("code", 30)
        urls = [hop_url(h, ports) for h in hops]
        conns, pins = [], ({} if pins is None else pins)
        for j, h in enumerate(hops):
            if case["follow"] and (urls[j] in urls[:j]):
                return {"r": ["error", "loop"], "conns": conns}
            if case["follow"] and j > mx:
                return {"r": ["error", "toomany"], "conns": conns}
            conns.append(urls[j])
            key = (h["host"], ports[h["peer"]])
            # the pin is checked right after the handshake, before anything is sent or read
            if key in pins and pins[key] != h["cert"]:
                return {"r": ["error", "certchanged"], "conns": conns, "silent": True}
            if case["kind"] == "locked" and j == len(hops) - 1:
                return {"r": ["error", "*"], "conns": conns, "silent": True}
            pins[key] = h["cert"]
            if case.get("drop_at") == j and case["kind"] == "drop":
                return {"r": ["error", "connection"], "conns": conns}
            last = j == len(hops) - 1
            if last:
                if case["kind"] == "loop":
                    # last hop redirects back to the first URL
                    if not case["follow"]:
                        return {"r": ["redirect", code, urls[0]], "conns": conns}
                    return {"r": ["error", "loop"], "conns": conns}
                if case["kind"] == "nongemini":
                    return {"r": ["redirect", 31, "https://example.org/"], "conns": conns}
                if case["kind"] == "relative":
                    if case["target"] == "" and case["follow"]:
                        return {"r": ["error", "valueerror:Redirect response missing URL: "], "conns": conns}
                    return {"r": ["redirect", code, case["target"]], "conns": conns}
                return {"r": ["final", case["final"]], "conns": conns}
            if not case["follow"]:
                return {"r": ["redirect", code, urls[j + 1]], "conns": conns}
        return {"r": ["error", "?"], "conns": conns}

    def impl(self, case):
        import shutil
        import tempfile

        from nauyaca.client.session import GeminiClient
        from nauyaca.security.tofu import CertificateChangedError

        from ..sim import client_tlspeer as T

        w = T.world(3, ("rsa", "ec", "ed", "ec2"))
        peers = w["peers"]
        ports = [p.port for p in peers]
        for p in peers:
            p.clear()
            p.take_log(2.0)
        hops = case["hops"]
        code = case.get("code", 30)
        urls = [hop_url(h, ports) for h in hops]

        def push_all():
            for j, h in enumerate(hops):
                last = j == len(hops) - 1
                if case["kind"] == "drop" and case.get("drop_at") == j:
                    peers[h["peer"]].push(h["cert"], [["read_request", 1.0], ["close"]])
                    # what a retrying client would get
                    peers[h["peer"]].push(h["cert"], [["read_request", 1.0], ["send", b"20 text/gemini\r\nretried\n"], ["close_notify"]])
                    continue
                if last:
                    if case["kind"] == "loop":
                        line = f"{code} {urls[0]}\r\n".encode()
                    elif case["kind"] == "relative":
                        line = f"{code} {case['target']}\r\n".encode()
                    elif case["kind"] == "nongemini":
                        line = b"31 https://example.org/\r\n"
                    else:
                        line = f"{case['final']} text/gemini\r\n".encode() + (b"final\n" if case["final"] == 20 else b"")
                else:
                    line = f"{code} {urls[j + 1]}\r\n".encode()
                steps = [["read_request", 1.0], ["send", line], ["close_notify"]]
                if h.get("eager"):
                    steps = [["send", line], ["read_request", 0.3], ["close_notify"]]
                if case["kind"] == "locked" and j == len(hops) - 2 and hook:
                    steps.insert(1, ["call", hook[0]])
                if h.get("eager") and h.get("tls12"):
                    peers[h["peer"]].push(h["cert"] + "@12", [], with_finished=line)      # the response rides on the server's Finished
                else:
                    peers[h["peer"]].push(h["cert"], steps)

        def collect():
            logs = []
            for pi, p in enumerate(peers):
                for e in p.take_log(5.0):
                    line = e["rx"].split(b"\r\n")[0]
                    try:
                        line = line.decode("utf-8")
                    except UnicodeDecodeError:
                        line = line.decode("latin1")
                    logs.append([e["t"], pi, e["hs"], line])
                p.clear()
            logs.sort()
            return {"conns": [l[3] for l in logs if l[2]], "tcp": len(logs), "rx_nonempty": [bool(l[3]) for l in logs if l[2]]}

        d = tempfile.mkdtemp(prefix="nv-c16-")
        out = {"ports": ports}
        locker = []
        hook: list = []
        try:
            from pathlib import Path

            client_box = []
            if case["kind"] == "locked":
                import sqlite3

                from nauyaca.security import tofu as tofu_mod

                h = hops[-1]
                other = "ec2" if h["cert"] != "ec2" else "rsa"
                tofu_mod.TOFUDatabase(Path(d) / "tofu.db").trust(h["host"], ports[h["peer"]], w["certs"].x509(other))

                def lock_now():
                    c = sqlite3.connect(str(Path(d) / "tofu.db"), isolation_level=None, check_same_thread=False)
                    c.execute("BEGIN EXCLUSIVE")
                    locker.append(c)

                class QuickSqlite:
                    """sqlite3 with a short busy timeout, so that a locked store fails at once instead of after 5 s"""
                    def __getattr__(self, name):
                        return getattr(sqlite3, name)

                    @staticmethod
                    def connect(path, *a, **kw):
                        kw.setdefault("timeout", 0.05)
                        return sqlite3.connect(path, *a, **kw)

                real_sqlite = tofu_mod.sqlite3
                tofu_mod.sqlite3 = QuickSqlite()
                if len(hops) == 1:
                    # the client object exists (its constructor opens the store) before the lock is taken
                    client_box.append(GeminiClient(timeout=5, max_redirects=case["max"], verify_ssl=False, trust_on_first_use=True, tofu_db_path=Path(d) / "tofu.db"))
                    lock_now()
                else:
                    # the lock is taken while the hop before the last one is being answered
                    hook.append(lock_now)

            async def go(follow, mx):
                if not client_box:
                    client_box.append(GeminiClient(timeout=5, max_redirects=case["max"], verify_ssl=False, trust_on_first_use=True, tofu_db_path=Path(d) / "tofu.db"))
                client = client_box[0]
                client.max_redirects = mx
                try:
                    r = await call_get(client, urls[0], follow, case.get("call"))
                except CertificateChangedError:
                    return ["error", "certchanged"]
                except ValueError as ex:
                    m = str(ex)
                    return ["error", "loop" if "loop" in m.lower() else "toomany" if "aximum redirects" in m else "valueerror:" + m[:40]]
                except (ConnectionError, OSError, asyncio.TimeoutError) as ex:
                    return ["error", "connection"]
                except Exception as ex:  # noqa: BLE001
                    if case["kind"] != "locked":
                        raise
                    return ["error", type(ex).__name__]
                if 30 <= r.status < 40:
                    return ["redirect", r.status, r.meta]
                return ["final", r.status]

            async def both():
                push_all()
                r1 = await go(case["follow"], case["max"])
                await asyncio.sleep(0.05)
                o1 = collect()
                o1["r"] = r1
                o2 = None
                if case.get("again"):
                    push_all()
                    r2 = await go(case["again"]["follow"], case["again"]["max"])
                    await asyncio.sleep(0.05)
                    o2 = collect()
                    o2["r"] = r2
                return o1, o2

            if case.get("via"):
                # the command line: `nauyaca get URL --max-redirects N [--no-redirects] [--verbose]` with a private HOME (its pin store)
                import os

                from typer.testing import CliRunner

                from nauyaca.__main__ import app

                push_all()
                args = ["get", urls[0], "--max-redirects", str(case["max"]), "--timeout", "5"] + ([] if case["follow"] else ["--no-redirects"]) \
                    + (["--verbose"] if case["via"] == "cli-v" else [])
                old_home = os.environ.get("HOME")
                os.environ["HOME"] = d
                try:
                    res = CliRunner().invoke(app, args)
                finally:
                    if old_home is None:
                        os.environ.pop("HOME", None)
                    else:
                        os.environ["HOME"] = old_home
                time.sleep(0.05)
                o1 = collect()
                o1["r"] = ["cli", res.exit_code, (res.output or "")[-160:]]
                o2 = None
            else:
                o1, o2 = asyncio.run(both())
        finally:
            if case["kind"] == "locked":
                tofu_mod.sqlite3 = real_sqlite
            for c in locker:
                c.close()
            shutil.rmtree(d, ignore_errors=True)
        out.update(o1)
        out["again"] = o2
        return out

    def model(self, case):
        return None   # the Lean model is compared in family graph; here the oracle speaks

    def oracle(self, case, obs):
        v = self._oracle(case, obs)
        if v and case.get("call") == "positional" and not case.get("via"):
            return (v[0], "called as get(url, <follow>) - the flag as second positional argument: " + v[1])
        return v

    def _oracle(self, case, obs):
        pins: dict = {}
        v = self._judge(case, obs, obs["ports"], pins)
        if v or not case.get("again") or not obs.get("again"):
            return v
        second = dict(case)
        second["follow"], second["max"] = case["again"]["follow"], case["again"]["max"]
        v = self._judge(second, obs["again"], obs["ports"], pins)
        return (v[0] + "-on-reuse", "second fetch of the same URL on the same client object: " + v[1]) if v else None

    def _judge(self, case, obs, ports, pins):
        exp = self._expected(case, ports, pins)
        if obs["tcp"] > (case["max"] + 1 if case["follow"] else 1):
            return ("bound", f"{obs['tcp']} TCP connections with max_redirects={case['max']} follow={case['follow']}")
        for c in obs["conns"]:
            if c and not c.startswith("gemini://"):
                return ("scheme", f"requested {c!r}")
        want_conns = exp["conns"]
        got = obs["conns"]
        eager = [bool(h.get("eager")) for h in case["hops"]]

        def seq_ok(g, w):
            # a server that speaks first may have answered (and been hung up on) before the request line left the client
            # (the request line may name the host as the URL spelled it or in lower case)
            # (... and may carry a redirect target as it was written or in its URI form: the same resource)
            return len(g) == len(w) and all(a == b or same_resource(fold_host(a), fold_host(b)) or (a == "" and eager[i]) for i, (a, b) in enumerate(zip(g, w)))

        if exp.get("silent"):
            # the hop whose certificate changed must have received no request bytes at all
            if len(got) != len(want_conns) or got[-1] != "" or not seq_ok(got[:-1], want_conns[:-1]):
                return ("pin-not-checked", f"a pinned host presented another certificate on hop {len(want_conns)} (URLs of the chain: {want_conns}): requests seen {got}, result {obs['r']}")
        elif not seq_ok(got, want_conns):
            return ("connections", f"connections {got}, expected {want_conns} (result {obs['r']}, expected {exp['r']})")
        if exp["r"] == ["error", "*"]:
            if obs["r"][0] != "error":
                return ("pin-not-checked", f"the pin store could not be read when hop {len(want_conns)} (pinned with another certificate) was reached, yet the fetch returned {obs['r']}")
            return None
        if obs["r"][0] == "cli":
            # through the command line only the exit status is compared: 0 for a response below 40 (final or a 3x handed back), 1 otherwise
            want_exit = 0 if (exp["r"][0] in ("final", "redirect") and exp["r"][1] < 40) else 1
            if obs["r"][1] != want_exit:
                return ("result", f"`nauyaca get{' --verbose' if case.get('via') == 'cli-v' else ''}` exited {obs['r'][1]}, expected {want_exit}: the fetch should give {exp['r']} "
                                  f"({case['kind']} chain of {len(case['hops'])} hops, --max-redirects {case['max']}{'' if case['follow'] else ' --no-redirects'}); output {obs['r'][2]!r}")
            return None
        if obs["r"] != exp["r"]:
            return ("result", f"result {obs['r']}, expected {exp['r']} for {case['kind']} chain of {len(case['hops'])} hops, max {case['max']}")
        return None

    def key(self, case, obs):
        return f"{case['kind']}{'/' + case['via'] if case.get('via') else ''}|{obs['r'][0]}:{obs['r'][1]}|tcp{obs['tcp']}|follow{int(case['follow'])}"


FAMILIES = [Graph(), Overlap(), Live()]
