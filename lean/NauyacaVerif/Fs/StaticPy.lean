import NauyacaVerif.Fs.Static
/-!
The pathlib calls of `StaticFileHandler.handle` as seen by its TRANSLATION (`Gen/Fn/StaticHandle.lean`), over the abstract OS of
M-Fs.  The `stat`-based queries raise for the errors pathlib does not swallow (kind `error`: ENAMETOOLONG) — that exception is
not caught by `handle`, the protocol layer answers 40 (`SResp.raised`).
-/
namespace Fs

/-- `p.resolve(strict=True)` inside `try … except (OSError, RuntimeError, ValueError)` -/
def resolveE (os : OS) (p : Path) : Except Unit Path := match os.resolve p with | some r => .ok r | none => .error ()
/-- `p.is_dir()` -/
def isDirE (os : OS) (p : Path) : Except Unit Bool := if os.kind p = .error then .error () else .ok (os.kind p == .dir)
/-- `p.exists()` -/
def existsE (os : OS) (p : Path) : Except Unit Bool := if os.kind p = .error then .error () else .ok (os.kind p != .missing)
/-- `p.is_file()` -/
def isFileE (os : OS) (p : Path) : Except Unit Bool := if os.kind p = .error then .error () else .ok (os.kind p == .file)
/-- `generate_directory_listing(p, …)` inside `try … except Exception` -/
def listingE (os : OS) (p : Path) : Except Unit (List Name) := match os.listing p with | some l => .ok l | none => .error ()

/-- `p.relative_to(root)`: the rest of the path below `root`, or ValueError when `root` is not a prefix of it (component by component) -/
def relativeToE (p root : Path) : Except Unit Path :=
  if root.isPrefixOf p then .ok (p.drop root.length) else .error ()

end Fs
