"""C13  Client calls always terminate with a faithful response or a clear error

Families
  proto    GeminiClientProtocol / TitanClientProtocol on a fake transport: server byte streams from a
           response grammar and its corruptions x segmentations x close / reset / stall at any offset,
           compared with `Cl.crunFrom` (driver `client` line).  The codecs are parameters of the
           model: the harness tells the driver what `bytes.decode` & co. do on this very case.
  session  the real GeminiClient.get / upload on a virtual-clock loop whose create_connection attaches a
           fake transport and a scripted server: prompt termination, timeout cut-off.
           Bodies around the size cap go through GeminiClient.get / upload here as well (cut off at the cap, at the moment the cap
           is crossed), and every response is compared with the complete stream of the server.
  linger   the same calls against peers whose TLS connection does not go away when the client closes it (sim/client_linger): the
           peer has stopped reading and never answers the close_notify, or answers late.  A server that never finishes is cut off
           at the timeout (T after the connection is up), not when the closed connection is finally gone.
  overlap  ONE GeminiClient with several get / upload calls in flight at once (asyncio.gather), each against its own
           scripted server on the virtual-clock loop: every call ends with the faithful response to ITS server's
           stream (or an error / the timeout), whatever the other calls do.
  live     the real GeminiClient against scripted loopback TLS servers (real time): faithful body,
           cap cut-off, prompt termination on close, timeout cut-off.
  liveoverlap  the same with two or three calls in flight on one client, each against its own scripted TLS connection.

Every family that sees a response also applies `malformed_header_verdict`: a response (instead of an error) is acceptable only when the
header line starts with exactly two ASCII digits followed by SPACE or the CRLF; the generators put white-space look-alikes (LF, CR,
TAB, VT, FF, FS..US, NEL, NBSP, U+2028 ...: what int(), str.strip() and a regex "$" / "\\s" let pass) around and inside the digits.
"""
from __future__ import annotations

import asyncio
import encodings.aliases
import itertools
import random
import shutil
import tempfile
import time
import zlib
from pathlib import Path

from ..core import Family

ID = "C13"
READY = True
LEAN_TARGETS = ["NauyacaVerif.Props.C13"]
THEOREMS = [f"NauyacaVerif.C13.{t}" for t in (
    "maxBody_tie", "maxHeader_tie", "client_resolves", "client_faithful", "client_faithful_stream", "client_seg_indep",
    "client_seg_indep_stall", "client_nonsuccess_at_header", "client_cap", "client_header_bound", "client_result_final")]
LEAN_TARGETS = LEAN_TARGETS + ["NauyacaVerif.Props.Tr.ClientDataReceived", "NauyacaVerif.Props.Tr.DeliverHeader", "NauyacaVerif.Props.Tr.ClientParseHeader"]
TRANSLATED = ["clientDataReceived", "titanClientDataReceived", "deliverHeaderOnly", "titanDeliverHeaderOnly", "clientParseHeader", "titanClientParseHeader"]
THEOREMS = THEOREMS + ["NauyacaVerif.Translated.client_data_received_eq", "NauyacaVerif.Translated.titan_client_data_received_eq",
                       "NauyacaVerif.Translated.deliver_header_only_eq", "NauyacaVerif.Translated.titan_deliver_header_only_eq", "NauyacaVerif.Translated.deliver_header_only_spec",
                       "NauyacaVerif.Translated.client_parse_header_eq", "NauyacaVerif.Translated.titan_client_parse_header_eq"]
EXTRACT = ["maxBody", "maxHeader"]
ASSUMPTIONS = [
    "parameters of the model (every theorem quantifies over all their behaviours): UTF-8 decoding of the header line, the text/* test on the meta, bytes.decode(charset) on the body (ok / UnicodeDecodeError / LookupError / any other exception); the harness evaluates them in Python per case and hands the results to the model",
    "asyncio contract used by the model: data_received is not called after transport.close(); an exception escaping data_received makes the transport call connection_lost(exc); connection_lost is called exactly once",
    "translation of _parse_header: assumed about Python and nothing else - str.split(' ', 1) is the cut at the first space; len(t)==2 and t.isascii() and t.isdigit() holds exactly for two ASCII digits and int(t) is then their value; the translated code runs on the bytes the header text was decoded from",
    "asyncio.wait_for (the timeout cut-off) is not modelled in Lean: it is checked by the virtual-clock family `session` and the real-time family `live` only",
    "families overlap / liveoverlap: connections are attributed to the calls of a case by a context variable (virtual loop) or by the server port and the order of the TCP connects (loopback TLS; two calls to the same server start at least 0.4 s apart)",
    "reads of more than 256 KiB do not occur with real asyncio transports; the protocol-object family nevertheless delivers streams of > 10 MiB in one read (that is how the fixed segmentation defects were found)",
]
LEVEL_TEXT = ("Lean 4 theorems over a hand-written model of data_received / _parse_header / connection_lost of both client protocol classes: "
              "for EVERY event history containing a connection loss the call is resolved; the result is a function of the concatenated stream alone "
              "(segmentation independence), a response carries status 10-69, a body exactly for 2x equal to the bytes after the first CRLF, and the "
              "size cap and header bound (tied to the extracted MAX_RESPONSE_BODY_SIZE / MAX_RESPONSE_HEADER_SIZE) cut the connection; the model is "
              "tied to /repo by differential runs of the real protocol objects on generated streams, segmentations and faults on every check run")
LEVEL_NOTE = ("proved for the model, not for the Python source; codecs, UTF-8 decoding and the text/* test are parameters; asyncio's transport contract "
              "is assumed; timeouts (asyncio.wait_for) are covered by simulation (virtual clock) and live runs only, not by a theorem")
TECHNIQUE = "interactive theorem proving (Lean 4: invariant + refinement to a function of the whole stream) + model-based differential testing (fake transport, virtual clock, live loopback TLS)"

CRLF = b"\r\n"


# ----------------------------------------------------------------------------
# streams: compact JSON representation  [["h", hex] | ["r", byte, count], …]
# ----------------------------------------------------------------------------
def build(stream) -> bytes:
    out = bytearray()
    for p in stream:
        if p[0] == "h":
            out += bytes.fromhex(p[1])
        else:
            out += bytes([p[1]]) * p[2]
    return bytes(out)


def lit(b: bytes):
    return ["h", b.hex()]


def pieces_of(stream, lo: int, hi: int) -> str:
    """driver pieces for stream[lo:hi] without materialising runs"""
    out, pos = [], 0
    for p in stream:
        ln = len(p[1]) // 2 if p[0] == "h" else p[2]
        a, b = max(lo, pos), min(hi, pos + ln)
        if a < b:
            if p[0] == "h":
                out.append(p[1][(a - pos) * 2:(b - pos) * 2])
            else:
                out.append(f"*{p[1]}*{b - a}")
        pos += ln
    return "+".join(out) if out else "-"


def stream_len(stream) -> int:
    return sum(len(p[1]) // 2 if p[0] == "h" else p[2] for p in stream)


def adler(b: bytes) -> int:
    return zlib.adler32(b) & 0xFFFFFFFF


# ----------------------------------------------------------------------------
# the property's reading of a header (independent of the implementation)
# ----------------------------------------------------------------------------
def is_text(meta: str) -> bool:
    mime = meta.split(";")[0].strip().lower()
    return mime == "" or mime.startswith("text/")


def declared_charset(meta: str) -> str:
    for part in meta.split(";"):
        part = part.strip()
        if part.lower().startswith("charset="):
            return part.split("=", 1)[1].strip().strip("\"'")
    return "utf-8"


def decode_kind(body: bytes, label: str):
    """(kind, text): 0 ok, 1 UnicodeDecodeError, 2 LookupError, 3 anything else"""
    try:
        return 0, body.decode(label)
    except UnicodeDecodeError:
        return 1, None
    except LookupError:
        return 2, None
    except Exception:  # noqa: BLE001
        return 3, None


def env_of(delivered: bytes):
    """what the library functions do on this delivered stream: (utf8ok, text, dec, meta_str, charset)"""
    i = delivered.find(CRLF)
    if i < 0:
        return 1, 0, 0, None, None
    line = delivered[:i]
    try:
        s = line.decode("utf-8")
    except UnicodeDecodeError:
        return 0, 0, 0, None, None
    meta = s.split(" ", 1)[1] if " " in s else ""
    txt = is_text(meta)
    cs = declared_charset(meta)
    dec = decode_kind(delivered[i + 2:], cs)[0] if txt else 0
    return 1, int(txt), dec, meta, cs


def header_defect(data: bytes):
    """why the header line of the stream `data` (the bytes before the first CRLF) cannot be answered with a response - read off the
    response grammar <two ASCII digits>[<SPACE><META>]<CRLF>, independently of the implementation - or None when it has that shape.
    Only the SHAPE of the status token is judged here (range, META and charset have their own clauses)."""
    i = data.find(CRLF)
    if i < 0:
        return "has no CRLF"
    line = data[:i]
    tok = line.split(b" ", 1)[0]
    if not (len(tok) == 2 and tok[0] in b"0123456789" and tok[1] in b"0123456789"):
        return f"has the status token {tok[:24]!r}, which is not exactly two ASCII digits"
    return None


def malformed_header_verdict(who: str, res, data: bytes):
    """a response (rather than an error) to a stream whose header line has no status"""
    if res[0] != "resp":
        return None
    why = header_defect(data)
    if why is None:
        i = data.find(CRLF)
        if int(data[:2]) != res[1]:
            return ("status-mismatch", f"{who}status {res[1]} but the header line is {data[:min(i, 60)]!r}")
        return None
    return ("response-to-malformed-header", f"{who}response with status {res[1]} although the header line {why}; stream head {data[:60]!r}")


# ----------------------------------------------------------------------------
# running a protocol object on a fake transport
# ----------------------------------------------------------------------------
class _Reset(ConnectionResetError):
    pass


_LOOP = None


def _loop():
    global _LOOP
    if _LOOP is None:
        _LOOP = asyncio.new_event_loop()
    return _LOOP


def canon_body(body):
    if body is None:
        return None
    if isinstance(body, str):
        return ["str", len(body), adler(body.encode("utf-8", "surrogatepass"))]
    return ["bytes", len(body), adler(bytes(body))]


def run_proto(proto: str, dt: bool, chunks: list[bytes], end: str):
    """feed one protocol object; returns the canonical outcome"""
    from nauyaca.client.protocol import GeminiClientProtocol, TitanClientProtocol
    from ..sim.client_fake import FakeTransport

    f = _loop().create_future()
    if proto == "g":
        try:
            p = GeminiClientProtocol("gemini://example.org/p", f, decode_text=dt)
        except TypeError:      # revisions before the proxy fix have no decode_text switch (they always decode)
            p = GeminiClientProtocol("gemini://example.org/p", f)
    else:
        p = TitanClientProtocol("titan://example.org/p;size=3;mime=text/plain", b"abc", f)
    t = FakeTransport()
    p.connection_made(t)
    crash = None
    when = None            # during which callback the future was resolved
    for c in chunks:
        if t.closed:
            break          # asyncio delivers nothing after close()
        try:
            p.data_received(c)
        except Exception as e:  # noqa: BLE001
            crash = e
            break
        if when is None and f.done():
            when = "data"
    escaped = None
    lost = False

    def call_lost(exc):
        nonlocal escaped, when, lost
        lost = True
        was = f.done()
        try:
            p.connection_lost(exc)
        except Exception as e:  # noqa: BLE001
            escaped = e
        if not was and f.done():
            when = "lost"

    if crash is not None:
        call_lost(crash)   # asyncio: fatal error -> transport aborted -> connection_lost(exc)
    elif end == "close":
        call_lost(None)
    elif end == "reset":
        call_lost(_Reset(104, "reset"))
    out = {"closed": t.close_calls > 0, "lost": lost}
    if escaped is not None:
        out["escaped"] = type(escaped).__name__
    if not f.done():
        out["fut"] = ["pending"]
        return out
    exc = f.exception()
    if exc is None:
        r = f.result()
        out["fut"] = ["resp", r.status, (r.meta or "").encode("utf-8", "surrogatepass").hex(), canon_body(r.body)]
        return out
    if exc is crash:
        kind = "headerUtf8" if isinstance(exc, UnicodeDecodeError) else f"crash:{type(exc).__name__}"
    elif isinstance(exc, _Reset):
        kind = "connection"
    elif when == "lost":
        if isinstance(exc, UnicodeDecodeError):
            kind = "decode"
        elif isinstance(exc, LookupError):
            kind = "charset"
        elif type(exc) is ConnectionError:
            kind = "closedEarly"
        elif isinstance(exc, ValueError):
            kind = "codec"
        else:
            kind = f"lost:{type(exc).__name__}"
    else:
        kind = "header" if isinstance(exc, ValueError) else "tooBig" if type(exc) is Exception else f"data:{type(exc).__name__}"
    out["fut"] = ["err", kind]
    return out


def split_at(data: bytes, cuts: list[int]) -> list[bytes]:
    pts = [0] + sorted(c for c in set(cuts) if 0 < c < len(data)) + [len(data)]
    return [data[a:b] for a, b in zip(pts, pts[1:]) if b > a] or ([data] if data else [])


COARSE = {"headerTooLong": "header", "badStatus": "header", "badHeader": "header", "statusRange": "header"}


def parse_model(out: str, delivered: bytes):
    """driver output -> canonical outcome (the body is re-rendered the way Python would show it)"""
    assert out.startswith("ok "), out
    fut, closed = out[3:].rsplit(" closed=", 1)
    res = {"closed": closed == "1"}
    if fut == "pending":
        res["fut"] = ["pending"]
    elif fut.startswith("err:"):
        k = fut[4:]
        res["fut"] = ["err", COARSE.get(k, k)]
    else:
        parts = fut.split(":")
        st, meta = int(parts[1]), ("" if parts[2] == "-" else parts[2])
        if parts[3] == "none":
            res["fut"] = ["resp", st, meta, None]
        else:
            d, ln, ad = int(parts[3]), int(parts[4]), int(parts[5])
            i = delivered.find(CRLF)
            raw = delivered[i + 2:]
            if len(raw) != ln or adler(raw) != ad:
                res["fut"] = ["resp", st, meta, ["model-body-is-not-the-stream-tail", ln, ad]]
            elif d:
                kind, text = decode_kind(raw, declared_charset(bytes.fromhex(meta).decode("utf-8")))
                res["fut"] = ["resp", st, meta, canon_body(text) if kind == 0 else ["model-decoded-undecodable", ln, ad]]
            else:
                res["fut"] = ["resp", st, meta, canon_body(raw)]
    return res


# ----------------------------------------------------------------------------
# generators
# ----------------------------------------------------------------------------
PY_LABELS = sorted(set(encodings.aliases.aliases.keys()) | set(encodings.aliases.aliases.values()))
ODD_LABELS = ["", "bogus", "x-unknown-8", "undefined", "idna", "punycode", "base64", "hex", "rot13", "zip", "bz2", "uu", "quopri",
              "unicode_escape", "raw_unicode_escape", "utf-16", "utf-32", "utf-7", "utf_8_sig", "UTF-8", "Latin-1", "utf\x008", "mbcs", "oem",
              "a" * 300, "utf-8 ", "é", "charmap", "ascii", "cp1252", "shift_jis", "gb18030", "euc-kr", "big5", "koi8-r", "iso-8859-15"]
RAISING_LABELS = ["undefined", "idna", "punycode", "utf\x008", "IDNA", "Undefined"]     # codecs that raise something unusual
BODIES = [b"", b"hi", "héllo wörld ✓\n".encode(), b"\xff\xfe\x00", b"xn--", b"a..b", b"\\x", b"\x80abc", b"+AGE-", bytes(range(256)),
          b"=> gemini://x/ link\r\n# t\r\n", b"\r\n\r\n", b"a" * 70, b"\x1b$B", "日本語".encode("shift_jis"), "€".encode("cp1252"), b"\xef\xbb\xbfbom"]
TEXT_MIMES = ["text/gemini", "text/plain", "TEXT/Gemini", "text/html", "text/x-foo", "", " text/plain "]
BIN_MIMES = ["application/octet-stream", "image/png", "audio/ogg", "application/json", "texture/x", "x"]
MAX_BODY = 10 * 1024 * 1024      # only used to size the generated streams; the oracle reads the constant from the code
MAX_HDR = 1027
# characters that Python treats as removable white space somewhere (int(), str.strip / split / isspace, regex \s and the "$" that also
# matches before a final LF) - none of them is the SPACE of the response grammar
WS_LIKE = ["\n", "\n", "\n", "\n", "\r", "\t", "\x0b", "\x0c", "\x1c", "\x1d", "\x1e", "\x1f", "\x85", "\xa0", "\u2028", "\u2029", "\u3000", "\u200b", "\x00"]


def gen_header(rng: random.Random):
    """(header line bytes without CRLF, class)"""
    r = rng.random()
    if r < 0.62:
        st = rng.choice([20] * 40 + list(range(10, 70)))
        if 20 <= st < 30:
            if rng.random() < 0.72:
                mime = rng.choice(TEXT_MIMES)
                params = []
                if rng.random() < 0.75:
                    x = rng.random()
                    lab = rng.choice(PY_LABELS) if x < 0.5 else rng.choice(ODD_LABELS) if x < 0.82 else rng.choice(RAISING_LABELS)
                    q = rng.choice(["", "", '"', "'"])
                    params.append(rng.choice(["charset=", "CHARSET=", "Charset="]) + q + lab + q)
                if rng.random() < 0.3:
                    params.insert(rng.randrange(len(params) + 1), rng.choice(["lang=en", "lang=es-MX", "format=flowed", "x=y=z"]))
                sep = rng.choice(["; ", ";", " ;  "])
                meta = mime + "".join(sep + p for p in params)
            else:
                meta = rng.choice(BIN_MIMES) + rng.choice(["", "; charset=utf-8", ";charset=bogus"])
        elif st < 20:
            meta = rng.choice(["Enter a query", "Passwort: ", "¿Qué?"])
        elif st < 40:
            meta = rng.choice(["gemini://example.org/next", "/relative", "gemini://h/" + "p" * 200, "https://x/"])
        else:
            meta = rng.choice(["", "Not found", "Slow down", "certificate required", "x" * 100, "Fehler: ü"])
        if st >= 40 and meta == "" and rng.random() < 0.5:
            return f"{st}".encode(), "valid"
        return f"{st} ".encode() + meta.encode("utf-8", "surrogatepass"), "valid"
    if r < 0.72:
        if rng.random() < 0.55:
            tok = rng.choice(["2x", "+20", " 20", "2_0", "020", "2", "200", "٢٠", "２０", "-5", "2\t0", "", "ab", "20\t", "1e1", "0x14"])
        else:
            # two digits wrapped in / split by something a lenient reading (int(), str.strip(), str.isspace(), regex $ and \s) lets pass
            ws = rng.choice(WS_LIKE)
            d = rng.choice(["20", "20", "51", "10", "31", "44", "62"])
            tok = rng.choice([d + ws, d + ws, d + ws, ws + d, d[0] + ws + d[1], d + ws + ws, ws + d + ws])
        return tok.encode("utf-8", "surrogatepass") + rng.choice([b" text/gemini", b"", b" x", b" text/plain; charset=utf-8"]), "bad-status"
    if r < 0.80:
        return rng.choice([b"00", b"09", b"70", b"99", b"05"]) + rng.choice([b" meta", b""]), "range"
    if r < 0.86:
        return rng.choice([b"20 \xff\xfe", b"\xc3 20 x", b"20 text/plain; charset=\xe9", b"51 \xed\xa0\x80", b"\x80"]), "bad-utf8"
    if r < 0.92:
        return rng.choice([b"20", b"10", b"30", b"20text/gemini", b"20 te\rxt", b"20 te\nxt", b"51 a\rb", b"31 \n", b"20\ttext/plain"]), "bad-shape"
    # oversize header line around the bound
    n = rng.choice([MAX_HDR - 1, MAX_HDR, MAX_HDR + 1, MAX_HDR + 2, 2000, 5000])
    return b"20 " + b"m" * (n - 3), "long-header"


def gen_stream(rng: random.Random):
    """a server byte stream in the compact representation, with its class"""
    hdr, cls = gen_header(rng)
    r = rng.random()
    if r < 0.06:
        # no CRLF at all (possibly LF only / CR only), length around the header bound or short
        body = rng.choice([b"", b"\n", b"\r", b"\nbody", b"\rbody"])
        pad = rng.choice([0, 0, 0, MAX_HDR - len(hdr), MAX_HDR + 1 - len(hdr), MAX_HDR + 2 - len(hdr), 3000])
        return [lit(hdr + body)] + ([["r", 120, pad]] if pad > 0 else []), "no-crlf"
    body = rng.choice(BODIES) if rng.random() < 0.7 else bytes(rng.randrange(256) for _ in range(rng.randrange(0, 40)))
    return [lit(hdr + CRLF + body)], cls


def big_streams(rng: random.Random):
    """streams around the body cap / huge headers (a few per shard: they cost seconds in the model)"""
    k = rng.randrange(6)
    if k == 0:
        return [lit(b"20 text/plain\r\n"), ["r", 97, MAX_BODY + 1]], "cap+1"
    if k == 1:
        return [lit(b"20 application/octet-stream\r\n"), ["r", 0, MAX_BODY]], "cap-exact"
    if k == 2:
        return [lit(b"51 gone\r\n"), ["r", 120, MAX_BODY + 1]], "non2x-big-trailer"
    if k == 3:
        return [lit(b"20 "), ["r", 109, 11_000_000], lit(b"\r\nbody")], "huge-header"
    if k == 4:
        return [lit(b"20 image/png\r\n"), ["r", 255, MAX_BODY + 5000]], "cap+5000-binary"
    return [lit(b"99 x\r\n"), ["r", 120, MAX_BODY + 1]], "range-big-trailer"


class Proto(Family):
    name = "proto"
    quick_n = 9000
    thorough_n = 200000
    parallel = True

    # ---- generation --------------------------------------------------------------
    def gen(self, rng: random.Random, n: int):
        count = 0

        def case(stream, cls, cuts, end, end_at=None, proto=None, dt=True):
            return {"proto": proto or rng.choice(["g", "g", "t"]), "dt": dt, "stream": stream, "cls": cls, "cuts": cuts, "end": end, "end_at": end_at}

        # (1) small exhaustive: every segmentation x every end x every cut-off of a few short streams
        shorts = [b"20 a\r\nhi", b"51\r\nx", b"20 \r\n\xff", b"2\r0 \r\n", b"31 u\r\n", b"9\r\n", b"51\n\r\nx", b"20\n a\r\nhi"]
        s0 = rng.choice(shorts)
        nb = len(s0)
        allsegs = list(range(1 << (nb - 1)))
        rng.shuffle(allsegs)
        for mask in allsegs[: max(8, n // 12)]:
            cuts = [i + 1 for i in range(nb - 1) if mask >> i & 1]
            count += 1
            yield case([lit(s0)], "short", cuts, rng.choice(["close", "close", "reset", "stall"]), rng.choice([None, None, rng.randrange(nb + 1)]))
        # (2) a few expensive ones around the cap
        for _ in range(2 if n < 5000 else 3):
            st, cls = big_streams(rng)
            ln = stream_len(st)
            cuts = rng.choice([[], [rng.randrange(1, 40)], [9], [ln - 1], sorted(rng.sample(range(1, ln), 3))])
            count += 1
            yield case(st, cls, cuts, rng.choice(["close", "stall", "reset"]), None, dt=rng.random() < 0.8)
        # (3) grammar + corruptions x random segmentations x end at any offset
        while count < n:
            st, cls = gen_stream(rng)
            ln = stream_len(st)
            r = rng.random()
            if ln <= 1:
                cuts = []
            elif r < 0.2:
                cuts = []
            elif r < 0.35 and ln < 400:
                cuts = list(range(1, ln))                       # byte by byte
            elif r < 0.5:
                data = build(st)
                i = data.find(CRLF)
                cuts = [max(1, min(ln - 1, (i if i >= 0 else ln // 2) + rng.choice([0, 1, 2, -1, 3])))]   # around the CRLF
            else:
                cuts = sorted(rng.sample(range(1, ln), min(ln - 1, rng.randint(1, 6))))
            end = rng.choice(["close", "close", "close", "reset", "stall"])
            end_at = None if rng.random() < 0.72 else rng.randrange(ln + 1)
            count += 1
            yield case(st, cls, cuts, end, end_at, dt=rng.random() < 0.85)

    # ---- the real code -------------------------------------------------------------
    @staticmethod
    def delivered(case) -> bytes:
        data = build(case["stream"])
        return data if case["end_at"] is None else data[: case["end_at"]]

    def impl(self, case):
        data = self.delivered(case)
        dt = case["dt"] if case["proto"] == "g" else True
        seg = run_proto(case["proto"], dt, split_at(data, case["cuts"]), case["end"])
        whole = run_proto(case["proto"], dt, [data] if data else [], case["end"])
        return {"seg": seg, "whole": whole, "n": len(data)}

    # ---- the model --------------------------------------------------------------------
    def model(self, case):
        data = self.delivered(case)
        u, t, d, _, _ = env_of(data)
        dt = case["dt"] if case["proto"] == "g" else True
        n = len(data)
        pts = [0] + sorted(c for c in set(case["cuts"]) if 0 < c < n) + [n]
        evs = [f"d:{pieces_of(case['stream'], a, b)}" for a, b in zip(pts, pts[1:]) if b > a]
        if case["end"] == "close":
            evs.append("l:0")
        elif case["end"] == "reset":
            evs.append("l:1")
        return " ".join(["client", "1" if dt else "0", str(u), str(t), str(d)] + evs)

    def expect(self, case, out):
        return parse_model(out, self.delivered(case))

    def same(self, expected, obs):
        o = obs["seg"]
        return expected["fut"] == o["fut"] and expected["closed"] == o["closed"]

    # ---- the property statement, directly ------------------------------------------------
    def oracle(self, case, obs):
        from nauyaca.protocol.constants import MAX_RESPONSE_BODY_SIZE

        data = self.delivered(case)
        for name in ("seg", "whole"):
            o = obs[name]
            fut = o["fut"]
            if o["lost"] and fut[0] == "pending":
                return (f"lost-pending:{o.get('escaped', 'none')}",
                        f"connection_lost was called ({case['end']}) but the caller's future is still pending (exception escaping connection_lost: {o.get('escaped')}); stream head {data[:80]!r}")
            if fut[0] == "resp":
                st, meta_hex, body = fut[1], fut[2], fut[3]
                if not (10 <= st <= 69):
                    return ("status-out-of-range", f"response with status {st}; stream head {data[:60]!r}")
                if (body is not None) != (20 <= st <= 29):
                    return ("body-iff-2x", f"status {st} with body {body}; stream head {data[:60]!r}")
                i = data.find(CRLF)
                if i < 0:
                    return ("response-without-header-line", f"response {fut} although the stream has no CRLF: {data[:60]!r}")
                if data[:2].isdigit() and data[:2].isascii() and int(data[:2]) != st and data[2:3] in (b" ", b"\r"):
                    return ("status-mismatch", f"status {st} but the header line starts with {data[:3]!r}")
                v = malformed_header_verdict("", fut, data)
                if v:
                    return v
                if body is not None:
                    raw = data[i + 2:]
                    meta = bytes.fromhex(meta_hex).decode("utf-8", "surrogatepass")
                    dt = case["dt"] if case["proto"] == "g" else True
                    if is_text(meta) and dt:
                        kind, text = decode_kind(raw, declared_charset(meta))
                        want = canon_body(text) if kind == 0 else None
                        if body != want:
                            return ("body-mismatch", f"text body {body} is not the bytes after the first CRLF decoded with {declared_charset(meta)!r} ({want}); meta {meta!r}")
                    elif body != canon_body(raw):
                        return ("body-mismatch", f"binary body {body} is not the {len(raw)} bytes after the first CRLF ({canon_body(raw)})")
            # size cap: a well-formed 2x header followed by more than the cap must end in an error and a closed transport
            i = data.find(CRLF)
            if 0 <= i <= 1027 and len(data) - (i + 2) > MAX_RESPONSE_BODY_SIZE and data[:2].isdigit() and 20 <= int(data[:2]) <= 29 and data[2:3] == b" ":
                if fut[0] != "err" or not o["closed"]:
                    return ("cap-not-enforced", f"{len(data) - i - 2} body bytes (> {MAX_RESPONSE_BODY_SIZE}) gave {fut}, transport closed by client: {o['closed']}")
        a, b = obs["seg"], obs["whole"]
        if a["fut"] != b["fut"] or a["closed"] != b["closed"]:
            return ("seg-dependent", f"the same {obs['n']}-byte stream gives {a['fut']} (closed={a['closed']}) when split at {case['cuts'][:8]} "
                                     f"and {b['fut']} (closed={b['closed']}) in one read; stream head {data[:60]!r}")
        return None

    def key(self, case, obs):
        f = obs["seg"]["fut"]
        what = f[0] if f[0] != "err" else f"err:{f[1]}"
        if f[0] == "resp":
            what += f":{f[1] // 10}x:{'nobody' if f[3] is None else f[3][0]}"
        nseg = len(case["cuts"])
        return f"{case['proto']} {case['cls']} {case['end']}{'@' if case['end_at'] is not None else ''} segs={'1' if nseg == 0 else '2-7' if nseg < 7 else 'many'} -> {what}"


# ----------------------------------------------------------------------------
# session: the real GeminiClient on the virtual-clock loop
# ----------------------------------------------------------------------------
_CTX = None


def _dummy_ctx():
    """the fake create_connection ignores it; building the default context for every case would dominate the run time"""
    global _CTX
    if _CTX is None:
        import ssl

        _CTX = ssl.SSLContext(ssl.PROTOCOL_TLS_CLIENT)
    return _CTX


# Switched OFF: "nothing can be learned from a connection the client has closed itself, so the call ends at that moment".  The property
# promises promptness "once the peer has closed" and the cut-off at the timeout otherwise; this reading asks for more than that and is
# kept only as a diagnostic.  (Before fix: 8049c3f the client did not meet it either: a non-2x response was only delivered by
# connection_lost, after the TLS shutdown its own close() had started - what the property DOES forbid there is the dependence of the
# result on the segmentation, rule `segmentation-dependent` below and in the family `live`.)
KNOWN_OUTCOME_RULE = False


class Session(Family):
    name = "session"
    quick_n = 1200
    thorough_n = 12000
    parallel = True

    def gen(self, rng: random.Random, n: int):
        for _ in range(n):
            st, cls = gen_stream(rng)
            ln = stream_len(st)
            cuts = sorted(rng.sample(range(1, ln), min(ln - 1, rng.randint(0, 4)))) if ln > 1 else []
            timeout = rng.choice([2.0, 5.0, 30.0])
            delays = [rng.choice([0.0, 0.125, 0.5, 1.0]) for _ in range(len(cuts) + 1)]
            if rng.random() < 0.08:
                delays[rng.randrange(len(delays))] = timeout + 1.0          # a gap longer than the timeout
            yield {"op": rng.choice(["get", "get", "upload"]), "stream": st, "cls": cls, "cuts": cuts, "delays": delays,
                   "end": rng.choice(["close", "close", "reset", "stall"]), "end_delay": rng.choice([0.0, 0.25, 1.0]),
                   "connect_delay": rng.choice([0.0, 0.0, 0.0, 0.5, timeout + 1.0]) if rng.random() < 0.3 else 0.0,
                   "timeout": timeout, "dt": rng.random() < 0.9}
        # uploads larger than a transport's high-water mark to a peer that stops reading (the transport signals
        # pause_writing and never resumes) and then stalls, closes or resets: cut off at the timeout all the same
        sizes = [70000, 300000, 3, 1 << 20]
        for i in range(max(4, n // 40)):
            timeout = rng.choice([2.0, 5.0])
            yield {"op": "upload", "stream": [], "cls": "wpause", "cuts": [], "delays": [0.0],
                   "end": ["stall", "stall", "close", "reset"][i % 4], "end_delay": rng.choice([0.5, timeout + 3.0]), "connect_delay": 0.0, "timeout": timeout, "dt": True,
                   "content_len": sizes[i % len(sizes)] + rng.randint(0, 9), "pause_after": rng.choice([0, 65536, 100000])}
        # bodies around the size cap through the full client (get and upload): cut off at the cap, delivered whole up to it
        yield from self.share(self.cap_cases(rng))

    @staticmethod
    def cap_cases(rng: random.Random, answers=("absent",)):
        """2x responses whose body is just under / exactly / over the size cap x get / upload x how the server ends; a few reads only
        (every read of a 10 MiB stream costs a copy of the buffer)"""
        out = []
        for op, (extra, cls), end in itertools.product(["get", "upload"], [(1, "cap+1"), (5000, "cap+5000"), (0, "cap-exact"), (3 << 20, "cap+3MiB")], ["close", "stall", "reset"]):
            head = rng.choice([b"20 application/octet-stream\r\n", b"20 text/plain\r\n", b"20 image/png\r\n", b"20 text/gemini; charset=latin-1\r\n"])
            n = len(head) + MAX_BODY + extra
            cuts = rng.choice([[], [len(head)], [len(head) + MAX_BODY], [len(head), len(head) + MAX_BODY - 1, len(head) + MAX_BODY], sorted(rng.sample(range(1, n), 3)),
                               [len(head) + (MAX_BODY // 4) * k for k in range(1, 4)]])
            cuts = sorted(set(c for c in cuts if 0 < c < n))
            timeout = rng.choice([2.0, 5.0, 30.0])
            case = {"op": op, "stream": [lit(head), ["r", rng.choice([0, 97, 165, 255]), MAX_BODY + extra]], "cls": cls, "cuts": cuts,
                    "delays": [rng.choice([0.0, 0.125, 0.25]) for _ in range(len(cuts) + 1)], "end": end, "end_delay": rng.choice([0.0, 0.25]),
                    "connect_delay": rng.choice([0.0, 0.0, 0.5]), "timeout": timeout, "dt": rng.random() < 0.7}
            a = rng.choice(list(answers))
            if a != "absent":
                case["answer"] = a
            out.append(case)
        return out

    def impl(self, case):
        from nauyaca.client.session import GeminiClient
        from ..sim.client_fake import ServerScript, VLoop

        data = build(case["stream"])
        chunks = split_at(data, case["cuts"])
        delays = (case["delays"] + [0.0] * len(chunks))[: len(chunks)]
        if "answer" in case:
            # a TLS connection that is not gone the moment the client closes it: the peer completes the shutdown after
            # case["answer"] seconds, or never (None)
            from ..sim.client_linger import LingerLoop, LingerScript

            loop = LingerLoop()
            script = LingerScript(chunks, delays, case["end"], case["end_delay"], case["connect_delay"], answer=case["answer"])
        else:
            loop = VLoop()
            script = ServerScript(chunks, delays, case["end"], case["end_delay"], case["connect_delay"])
        script.pause_after = case.get("pause_after")
        loop.scripts.append(script)
        loop.set_exception_handler(lambda lp, ctx: script.escaped.append(ctx.get("exception")) if ctx.get("exception") else None)
        try:
            client = GeminiClient(timeout=case["timeout"], trust_on_first_use=False, decode_text=case["dt"], ssl_context=_dummy_ctx())
        except TypeError:      # older revisions: no decode_text
            client = GeminiClient(timeout=case["timeout"], trust_on_first_use=False, ssl_context=_dummy_ctx())

        async def go():
            try:
                if case["op"] == "get":
                    r = await client.get("gemini://example.org/p", follow_redirects=False)
                else:
                    r = await client.upload("gemini://example.org/up", b"abc" if "content_len" not in case else b"u" * case["content_len"], mime_type="text/plain", token="t")
                return ["resp", r.status, (r.meta or "").encode("utf-8", "surrogatepass").hex(), canon_body(r.body)]
            except TimeoutError as e:
                return ["timeout", str(e).split(":")[0]]
            except Exception as e:  # noqa: BLE001
                return ["err", type(e).__name__]

        try:
            try:
                res = loop.run_until_complete(go())
            except RuntimeError as e:
                if "would hang forever" not in str(e):
                    raise
                res = ["hang", "never-ends"]
            elapsed = loop.time()
            for t in loop.tasks:
                t.cancel()
            loop.run_until_complete(asyncio.sleep(0))
        finally:
            loop.close()
        tr = script.transport
        return {"res": res, "elapsed": elapsed, "t_end": script.t_end, "closed_by_client": bool(tr and tr.close_calls),
                "t_close": tr.t_close if tr else None, "t_lost": getattr(tr, "t_lost", None), "delivered": script.delivered,
                "writes": len(tr.writes) if tr else 0, "escaped": [type(e).__name__ for e in script.escaped if e is not None]}

    @staticmethod
    def timeline(case, data: bytes):
        """the server's time table, read off the case alone: (connection up, [(time, bytes delivered so far) per read], its close / reset or None)"""
        chunks = split_at(data, case["cuts"])
        delays = (case["delays"] + [0.0] * len(chunks))[: len(chunks)]
        t, n, reads = case["connect_delay"], 0, []
        for d, c in zip(delays, chunks):
            t += d
            n += len(c)
            reads.append((t, n))
        return case["connect_delay"], reads, (None if case["end"] == "stall" else t + case["end_delay"])

    def oracle(self, case, obs):
        T = case["timeout"]
        res, el = obs["res"], obs["elapsed"]
        eps = 1e-6
        if res[0] == "hang":
            return ("no-timeout-cutoff", f"{case['op']}: nothing is scheduled any more and the call has not ended (virtual time {el}, timeout {T}): it would hang forever")
        data = build(case["stream"])
        t_up, reads, t_fin = self.timeline(case, data)
        peer = ""
        if "answer" in case:
            peer = (" [TLS peer that " + ("never answers the client's close_notify (it has stopped reading)" if case["answer"] is None else f"answers the client's close_notify after {case['answer']} s")
                    + ("; the client did not close the connection" if obs["t_close"] is None else f"; the client closed the connection at t={obs['t_close']}")
                    + ("" if obs["t_lost"] is None else f", connection_lost followed at t={obs['t_lost']}") + "]")
        what = f"{case['op']} through GeminiClient (timeout {T}; connection up at t={t_up}, server reads at {[t for t, _ in reads][:6]}, server {case['end']}{'' if t_fin is None else f' at t={t_fin}'})"
        # never later than the timeout of each phase: connecting (cut off at T), then the response (cut off T after the connection is up)
        limit = T if t_up >= T else t_up + T
        if el > limit + eps:
            return ("no-timeout-cutoff", f"{what}: the call ended with {res[:2]} at t={el}, later than the cut-off at t={limit}{peer}; stream head {data[:60]!r}")
        if KNOWN_OUTCOME_RULE and obs["t_close"] is not None and el > obs["t_close"] + eps:
            return ("waits-after-own-close", f"{what}: the client closed the connection at t={obs['t_close']} - its outcome was known - but the call "
                                             f"only ended with {res[:2]} at t={el}{peer}; stream head {data[:60]!r}")
        # the size cap: a well-formed 2x header followed by more than the cap is cut off with an error at the read that crosses the cap
        v = self.cap_verdict(case, obs, data, what, peer)
        if v:
            return v
        # "the result never depends on how the stream was segmented": a stream that starts with a well-formed non-2x header line and
        # is then closed by the server has, delivered in ONE read, the outcome "that response" (nothing after the header belongs to
        # it).  The same stream delivered in several reads must have the same outcome - provided its header line reached the client
        # before the call's cut-off
        if case["end"] == "close" and t_up < T - eps:
            i = data.find(CRLF)
            w = want_of(data, True)
            line = data[:i] if i >= 0 else b""
            if w is not None and not (20 <= w[0] <= 29) and line[2:3] == b" " and b"\r" not in line and b"\n" not in line:
                t_h = next((t for t, n in reads if n >= i + 2), None)
                if t_h is not None and t_h < limit - eps and res[:2] != ["resp", w[0]]:
                    return ("segmentation-dependent", f"{what}: the stream {data[:60]!r}{'...' if len(data) > 60 else ''} (header line complete at t={t_h}, cuts at {case['cuts'][:6]}) "
                                                      f"ended with {res[:2]}; delivered in one read the same stream is the response {w[0]} {w[1]!r}{peer}")
        if res[0] == "timeout":
            # a timeout is legitimate only if a phase really lasted T: connecting, or waiting while the peer neither closed nor reset
            waited_connect = case["connect_delay"] >= T
            if not waited_connect and obs["t_end"] is not None and obs["t_end"] - case["connect_delay"] < T - eps:
                return ("hang-after-close", f"the peer closed ({case['end']}) at virtual time {obs['t_end']} but the call only ended with {res} at {el} "
                                            f"(timeout {T}); exceptions escaping callbacks: {obs['escaped']}; stream head {build(case['stream'])[:70]!r}")
            return None
        if obs["t_end"] is not None and el > obs["t_end"] + eps:
            return ("late-after-close", f"peer closed at {obs['t_end']}, the call returned at {el}")
        if res[0] == "resp":
            st, body = res[1], res[3]
            if not (10 <= st <= 69) or ((body is not None) != (20 <= st <= 29)):
                return ("bad-response", f"{res}")
            # whatever part of the stream arrived before the call ended: a response needs a header line with a status
            who = f"{case['op']} through GeminiClient (segments cut at {case['cuts'][:8]}, server ends with {case['end']})"
            v = malformed_header_verdict(who + ": ", res, data)
            if v:
                return v
            # ... and it is the response to the server's stream: a 2x response is only known when the server has closed, after its last byte
            i = data.find(CRLF)
            v = judge_one(who, res, want_of(data, case["dt"] if case["op"] == "get" else True), len(data) - i - 2 if i >= 0 else 0, data)
            if v:
                return v
        return None

    def cap_verdict(self, case, obs, data, what, peer):
        from nauyaca.protocol.constants import MAX_RESPONSE_BODY_SIZE as CAP

        T, res, el, eps = case["timeout"], obs["res"], obs["elapsed"], 1e-6
        i = data.find(CRLF)
        if not (0 <= i <= 1027 and len(data) - (i + 2) > CAP and data[:2].isdigit() and data[:2].isascii() and 20 <= int(data[:2]) <= 29 and data[2:3] == b" "):
            return None
        t_up, reads, _ = self.timeline(case, data)
        t_cross = next(t for t, n in reads if n - (i + 2) > CAP)
        if t_up >= T or t_cross - t_up >= T - eps:
            return None            # the timeout comes first
        if res[0] != "err" or el > t_cross + eps or not obs["closed_by_client"]:
            return ("cap-not-enforced", f"{what}: the server sent {len(data) - i - 2} body bytes after a 2x header, more than the cap of {CAP}; the read that crossed the cap came at "
                                        f"t={t_cross}, but the call ended with {res[:2] if res[0] != 'resp' else res} at t={el} (connection closed by the client: {obs['closed_by_client']}){peer}")
        return None

    def key(self, case, obs):
        return f"{case['op']} {case['cls']} {case['end']} -> {obs['res'][0]}{':' + str(obs['res'][1]) if obs['res'][0] != 'resp' else ''} closed_by_client={obs['closed_by_client']}"


# ----------------------------------------------------------------------------
# linger: the same calls on TLS connections that are not gone the moment the client closes them
# ----------------------------------------------------------------------------
class Linger(Session):
    """GeminiClient.get / upload on the virtual clock against peers that STALL at the TLS level: they send their bytes (a complete
    response, a malformed header, half a body, more than the cap, nothing) and then neither read nor close, so the client's
    close_notify is never answered (or late) and `connection_lost` only follows when asyncio gives up on the shutdown (30 s).
    A never-finishing server is cut off at the timeout - T after the connection is up, whatever becomes of the connection after the
    client has closed it - and a result is never later than that.  Oracle: the one of `session`."""
    name = "linger"
    quick_n = 800
    thorough_n = 12000

    def gen(self, rng: random.Random, n: int):
        def fx(op, data, end="stall", answer=None, timeout=2.0, cuts=(), delays=None, end_delay=0.0, cls="fixed"):
            return {"op": op, "stream": [lit(data)] if isinstance(data, bytes) else data, "cls": cls, "cuts": list(cuts), "delays": delays or [0.25] + [0.0] * len(cuts),
                    "end": end, "end_delay": end_delay, "connect_delay": 0.0, "timeout": timeout, "dt": True, "answer": answer}

        fixed = []
        for op in ("get", "upload"):
            fixed += [fx(op, b"20 text/gemini\r\n# partial"),                                # never finishes: cut off at the timeout
                      fx(op, b"20 text/gemini\r\n# partial", cuts=[5, 16], delays=[0.25, 0.5, 0.125]),
                      fx(op, b""),                                                            # says nothing at all
                      fx(op, b"XX oops\r\n"), fx(op, b"75 oops\r\n"), fx(op, b"20\n text/plain\r\nx"),    # the error is known at once
                      fx(op, b"2x text/plain\r\nbody", cuts=[3], delays=[0.5, 0.25], timeout=5.0),
                      fx(op, b"51 gone\r\n"), fx(op, b"30 gemini://example.org/next\r\n", timeout=30.0),    # so is a response without body
                      fx(op, b"20 text/plain\r\nwhole page\n", end="close", end_delay=0.25),    # the peer closes: nothing to wait for
                      fx(op, b"20 text/plain; charset=klingon-8\r\nx", end="close", answer=None),
                      fx(op, b"51 gone\r\n", answer=1.0), fx(op, b"XX oops\r\n", answer=3.0),             # a slow answer to the close_notify
                      fx(op, [lit(b"20 image/png\r\n"), ["r", 7, MAX_BODY + 1]], cuts=[14], delays=[0.0, 0.25], cls="cap+1"),   # over the cap, then silence
                      fx(op, [lit(b"20 " + b"m" * 1100)], cls="long-header")]
        cnt = 0
        for c in self.share(fixed):
            cnt += 1
            yield c
        for c in self.share(self.cap_cases(rng, answers=(None, None, 0.25))):
            cnt += 1
            yield c
        for _ in range(max(0, n - cnt)):
            timeout = rng.choice([2.0, 5.0, 30.0])
            if rng.random() < 0.3:
                # a well-formed page in pieces
                head = f"{rng.choice([20, 20, 21, 29])} {rng.choice(['text/gemini', 'text/plain; charset=utf-8', 'application/octet-stream', ''])}".encode() + CRLF
                pieces = [bytes(rng.choice(b"abcdefghij \n#=>") for _ in range(rng.choice([1, 3, 17, 120]))) for _ in range(rng.choice([1, 2, 3]))]
                data, cuts, pos = head + b"".join(pieces), [], len(head)
                for pc in pieces[:-1]:
                    pos += len(pc)
                    cuts.append(pos)
                if rng.random() < 0.6:
                    cuts.append(len(head))
                st, cls, cuts = [lit(data)], "page", sorted(set(c for c in cuts if 0 < c < len(data)))
            else:
                st, cls = gen_stream(rng)
                ln = stream_len(st)
                cuts = sorted(rng.sample(range(1, ln), min(ln - 1, rng.randint(0, 4)))) if ln > 1 else []
            delays = [rng.choice([0.0, 0.0, 0.125, 0.5, 1.0]) for _ in range(len(cuts) + 1)]
            if rng.random() < 0.1:
                delays[rng.randrange(len(delays))] = timeout + 1.0          # a gap longer than the timeout
            yield {"op": rng.choice(["get", "get", "upload"]), "stream": st, "cls": cls, "cuts": cuts, "delays": delays,
                   "end": rng.choice(["stall", "stall", "stall", "close", "reset"]), "end_delay": rng.choice([0.0, 0.25, 1.0, timeout + 1.0]),
                   "connect_delay": rng.choice([0.0, 0.0, 0.0, 0.5, timeout + 1.0]) if rng.random() < 0.2 else 0.0,
                   "timeout": timeout, "dt": rng.random() < 0.9,
                   "answer": rng.choice([None, None, None, None, 0.0, 0.25, 1.0, timeout + 1.0, 31.0])}

    def key(self, case, obs):
        a = case["answer"]
        return (f"{case['op']} {case['cls']} {case['end']} peer-answers-close={'never' if a is None else 'at-once' if a == 0 else 'late'} -> "
                f"{obs['res'][0]}{':' + str(obs['res'][1]) if obs['res'][0] != 'resp' else ''}")


# ----------------------------------------------------------------------------
# what the property promises for ONE call, given only what its server does (used by the families with several calls in flight)
# ----------------------------------------------------------------------------
def want_of(data: bytes, dt: bool):
    """(status, meta, canonical body) of the response to the complete server stream `data`, or None when the stream has no
    well-formed header / an undecodable text body (then only an error is acceptable)"""
    i = data.find(CRLF)
    if i < 0 or i > 1027:
        return None
    line = data[:i]
    if len(line) < 2 or not line[:2].isdigit() or not line[:2].isascii() or not (len(line) == 2 or line[2:3] == b" "):
        return None
    st = int(line[:2])
    if not 10 <= st <= 69:
        return None
    try:
        meta = line[3:].decode("utf-8")
    except UnicodeDecodeError:
        return None
    if not 20 <= st <= 29:
        return st, meta, None
    raw = data[i + 2:]
    if is_text(meta) and dt:
        kind, text = decode_kind(raw, declared_charset(meta))
        if kind != 0:
            return None
        return st, meta, canon_body(text)
    return st, meta, canon_body(raw)


def judge_one(who: str, res, want, nbody: int, data=None):
    """clauses of the property on the response of one call; `want` from want_of (the complete stream of ITS server)"""
    if res[0] != "resp":
        return None
    st, meta_hex, body = res[1], res[2], res[3]
    if not (10 <= st <= 69) or ((body is not None) != (20 <= st <= 29)):
        return ("bad-response", f"{who}: {res}")
    if want is None:
        # grey (range, META, charset corruptions: the protocol-object family judges them) - except that a response needs a status
        return malformed_header_verdict(who + ": ", res, data) if data is not None else None
    if st != want[0]:
        return ("status-mismatch", f"{who}: status {st}, its server sent status {want[0]}")
    if body is not None and body != want[2]:
        return ("body-mismatch", f"{who}: returned status {st} with body {body}, but its server sent {nbody} bytes after the first CRLF "
                                 f"({want[2]}): the body is not the bytes the server sent")
    return None


# ----------------------------------------------------------------------------
# overlap: several calls in flight at the same time on ONE GeminiClient (virtual clock, fake transports)
# ----------------------------------------------------------------------------
class Overlap(Family):
    """ONE GeminiClient, several get / upload calls in flight at once (asyncio.gather - a crawler, a GUI with tabs, the reverse
    proxy's shared client): each call has its own scripted server (stream, segmentation, pauses, close / reset / stall, connect
    delay).  Whatever the other calls do, every call ends promptly with the faithful response to ITS server's stream or an error,
    and is cut off at the timeout.  Connections are attributed to calls by a context variable; time is virtual."""
    name = "overlap"
    quick_n = 1600
    thorough_n = 24000
    parallel = True

    TICKS = [0.0, 0.125, 0.25, 0.5]

    def gen_req(self, rng: random.Random, timeout: float, start=None):
        r = rng.random()
        if r < 0.7:
            # a page whose body arrives in pieces with pauses (so that another call can end in the middle of it)
            st = rng.choice([20, 20, 20, 21, 29])
            meta = rng.choice(["text/gemini", "text/plain; charset=utf-8", "application/octet-stream", "text/plain; charset=latin-1", "image/png", ""])
            head = f"{st} {meta}".encode() + CRLF
            npieces = rng.choice([1, 2, 3, 4, 6])
            pieces = [bytes(rng.choice(b"abcdefghij \n#=>") for _ in range(rng.choice([1, 3, 17, 120, 700]))) for _ in range(npieces)]
            data = head + b"".join(pieces)
            cuts, pos = [], len(head) if rng.random() < 0.7 else 0
            for pc in pieces[:-1]:
                pos += len(pc)
                cuts.append(pos)
            if rng.random() < 0.3:
                cuts.append(rng.randrange(1, len(head)))
            cuts = sorted(set(c for c in cuts if 0 < c < len(data)))
            stream, cls = [lit(data)], "page"
        else:
            stream, cls = gen_stream(rng)
            ln = stream_len(stream)
            cuts = sorted(rng.sample(range(1, ln), min(ln - 1, rng.randint(0, 3)))) if ln > 1 else []
        delays = [rng.choice(self.TICKS) for _ in range(len(cuts) + 1)]
        if rng.random() < 0.05:
            delays[rng.randrange(len(delays))] = timeout + 1.0
        return {"op": rng.choice(["get", "get", "get", "upload"]), "start": rng.choice([0.0, 0.0, 0.125, 0.25, 0.5, 1.0]) if start is None else start,
                "stream": stream, "cls": cls, "cuts": cuts, "delays": delays, "end": rng.choice(["close", "close", "close", "close", "reset", "stall"]),
                "end_delay": rng.choice([0.0, 0.0, 0.25, 1.0]), "connect_delay": rng.choice([0.0, 0.0, 0.0, 0.125, 0.5, timeout + 1.0]) if rng.random() < 0.25 else 0.0}

    def gen(self, rng: random.Random, n: int):
        def page(body_pieces, gaps, start, end="close", end_delay=0.0, op="get", meta="text/gemini", connect=0.0):
            head = b"20 " + meta.encode() + CRLF
            data = head + b"".join(body_pieces)
            cuts, pos = [], len(head)
            for pc in body_pieces[:-1]:
                pos += len(pc)
                cuts.append(pos)
            return {"op": op, "start": start, "stream": [lit(data)], "cls": "page", "cuts": cuts, "delays": gaps, "end": end, "end_delay": end_delay, "connect_delay": connect}

        half1, half2 = b"# slow page\n" + b"first half\n" * 20, b"second half\n" * 20 + b"the end\n"
        fixed = [
            # a small page that takes a while, and a long page started later that is in the middle of its body when the first call ends
            {"timeout": 5.0, "dt": True, "reqs": [page([b"# fast page\n"], [0.25], 0.0), page([half1, half2], [0.0, 1.0], 0.125)]},
            {"timeout": 5.0, "dt": False, "reqs": [page([half1, half2], [0.0, 1.0], 0.125, meta="application/octet-stream"), page([b"# fast page\n"], [0.25], 0.0)]},
            {"timeout": 5.0, "dt": True, "reqs": [page([half1, half2], [0.0, 1.0], 0.0), page([b"# fast page\n"], [0.25], 0.125)]},          # the later one ends first
            {"timeout": 2.0, "dt": True, "reqs": [page([b"a\n"], [0.5], 0.0, op="upload"), page([b"x" * 100, b"y" * 100, b"z" * 100], [0.25, 0.5, 0.5], 0.25),
                                                  page([b"k" * 50, b"l" * 50], [0.125, 1.0], 0.5, end="reset")]},
            {"timeout": 2.0, "dt": True, "reqs": [page([b"one\n"], [0.125], 0.0), page([b"two\n"], [0.125], 0.0), page([b"three\n"], [0.125], 0.0)]},   # all together
            {"timeout": 2.0, "dt": True, "reqs": [page([b"part", b"rest"], [0.0, 0.5], 0.0, end="stall"), page([b"short\n"], [0.25], 0.125), page([b"p1", b"p2"], [0.125, 0.5], 0.25)]},
            {"timeout": 2.0, "dt": True, "reqs": [page([b"late\n"], [0.125], 0.0, connect=0.5), page([b"q1", b"q2", b"q3"], [0.125, 0.25, 0.25], 0.125)]},   # connects later although started first
            {"timeout": 5.0, "dt": True, "reqs": [page([b"alone\n"], [0.125], 0.0), page([b"after\n"], [0.125], 1.0)]},                     # one after the other
        ]
        cnt = 0
        for c in self.share(fixed):
            cnt += 1
            yield c
        for _ in range(max(0, n - cnt)):
            timeout = rng.choice([2.0, 5.0, 30.0])
            k = rng.choice([2, 2, 2, 3, 3, 4])
            yield {"timeout": timeout, "dt": rng.random() < 0.85, "reqs": [self.gen_req(rng, timeout) for _ in range(k)]}

    def impl(self, case):
        from nauyaca.client.session import GeminiClient
        from ..sim.client_fake import WHO, ServerScript, VLoop

        loop = VLoop()
        scripts = []
        for j, r in enumerate(case["reqs"]):
            chunks = split_at(build(r["stream"]), r["cuts"])
            delays = (r["delays"] + [0.0] * len(chunks))[: len(chunks)]
            sc = ServerScript(chunks, delays, r["end"], r["end_delay"], r["connect_delay"])
            scripts.append(sc)
            loop.scripts_of[j] = [sc]
        escaped = []
        loop.set_exception_handler(lambda lp, ctx: escaped.append(type(ctx.get("exception")).__name__) if ctx.get("exception") else None)
        try:
            client = GeminiClient(timeout=case["timeout"], trust_on_first_use=False, decode_text=case["dt"], ssl_context=_dummy_ctx())
        except TypeError:      # older revisions: no decode_text
            client = GeminiClient(timeout=case["timeout"], trust_on_first_use=False, ssl_context=_dummy_ctx())
        results = [{"res": ["hang", "never-ends"], "t0": None, "t1": None} for _ in case["reqs"]]

        async def one(j, r):
            WHO.set(j)
            if r["start"]:
                await asyncio.sleep(r["start"])
            results[j]["t0"] = loop.time()
            try:
                if r["op"] == "get":
                    x = await client.get(f"gemini://example.org/r{j}", follow_redirects=False)
                else:
                    x = await client.upload(f"gemini://example.org/up{j}", b"abc", mime_type="text/plain", token="t")
                res = ["resp", x.status, (x.meta or "").encode("utf-8", "surrogatepass").hex(), canon_body(x.body)]
            except TimeoutError as e:
                res = ["timeout", str(e).split(":")[0]]
            except Exception as e:  # noqa: BLE001
                res = ["err", type(e).__name__]
            results[j]["res"] = res
            results[j]["t1"] = loop.time()

        async def go():
            await asyncio.gather(*(one(j, r) for j, r in enumerate(case["reqs"])))

        try:
            try:
                loop.run_until_complete(go())
            except RuntimeError as e:
                if "would hang forever" not in str(e):
                    raise
            now = loop.time()
            for t in asyncio.all_tasks(loop):
                t.cancel()
            try:
                loop.run_until_complete(asyncio.sleep(0))
            except RuntimeError:
                pass
        finally:
            loop.close()
        for j, sc in enumerate(scripts):
            tr = sc.transport
            results[j].update({"t_up": sc.t_up, "t_end": sc.t_end, "delivered": sc.delivered, "closed_by_client": bool(tr and tr.close_calls),
                               "t_close": tr.t_close if tr else None, "request_written": bool(tr and tr.writes)})
        return {"calls": results, "now": now, "escaped": sorted(set(escaped))}

    def oracle(self, case, obs):
        T, eps = case["timeout"], 1e-6
        n = len(case["reqs"])
        flight = "; ".join(f"call {j + 1} {r['op']} from t={r['start']}" for j, r in enumerate(case["reqs"]))
        for j, (r, o) in enumerate(zip(case["reqs"], obs["calls"])):
            who = f"call {j + 1} of {n} in flight on one GeminiClient ({flight}; timeout {T})"
            res = o["res"]
            data = build(r["stream"])
            nchunks = len(split_at(data, r["cuts"]))
            span = sum((r["delays"] + [0.0] * nchunks)[:nchunks]) + r["end_delay"]          # connection up -> the server's close / reset
            if res[0] == "hang":
                return ("no-timeout-cutoff", f"{who}: nothing is scheduled any more at virtual time {obs['now']} and the call has not ended: it would hang forever")
            el = o["t1"] - o["t0"]
            if el > 2 * T + eps:
                return ("no-timeout-cutoff", f"{who}: took {el} virtual seconds")
            if res[0] == "timeout":
                if r["connect_delay"] >= T - eps or r["end"] == "stall" or span >= T - eps:
                    continue
                return ("hang-after-close", f"{who}: its server finished ({r['end']}) {span} s after the connection was up (connect {r['connect_delay']} s) "
                                            f"but the call ended with {res} after {el} s; exceptions escaping callbacks: {obs['escaped']}")
            if r["end"] != "stall" and o["t1"] > r["start"] + r["connect_delay"] + span + eps:
                return ("late-after-close", f"{who}: its server closed at t={r['start'] + r['connect_delay'] + span}, the call returned at t={o['t1']}")
            i = data.find(CRLF)
            want = want_of(data, case["dt"] if r["op"] == "get" else True)
            v = judge_one(who, res, want, len(data) - i - 2 if i >= 0 else 0, data)
            if v is None and res[0] == "err" and r["cls"] == "page" and r["end"] == "close" and want is not None:
                # a complete well-formed page, closed cleanly, within cap and timeout: there is no problem an exception could name
                v = ("error-without-cause", f"{who}: its server sent a complete well-formed response ({len(data)} bytes, status {want[0]}) and closed cleanly, the call raised {res[1]}")
            if v:
                others = "; ".join(f"call {k + 1} ended {p['res'][0]} at t={p['t1']}" for k, p in enumerate(obs["calls"]) if k != j)
                return (v[0], v[1] + f" - only {o['delivered']} of the {len(data)} bytes of its stream had arrived when its connection was closed at t={o['t_close']} "
                                     f"(the server would have closed at t={r['start'] + r['connect_delay'] + span}); {others}")
        return None

    def key(self, case, obs):
        calls = obs["calls"]
        ends = sorted((o["t1"] if o["t1"] is not None else 1e9, j) for j, o in enumerate(calls))
        # is some call still in the middle of its stream when another call ends?
        mid = False
        for j, o in enumerate(calls):
            for k, p in enumerate(calls):
                if j != k and p["t1"] is not None and o["t_up"] is not None and o["t1"] is not None and o["t_up"] < p["t1"] < o["t1"]:
                    mid = True
        kinds = "+".join(sorted(o["res"][0] for o in calls))
        ups = sorted((o["t_up"] if o["t_up"] is not None else 1e9, j) for j, o in enumerate(calls))
        return (f"n={len(calls)} {'one-ends-while-another-receives' if mid else 'disjoint'} "
                f"first-to-end={'earliest-connected' if ends[0][1] == ups[0][1] else 'later-connected'} -> {kinds}")


# ----------------------------------------------------------------------------
# live: real TLS on loopback, real time
# ----------------------------------------------------------------------------
class Live(Family):
    realtime = True     # runs on the wall clock (sockets, threads): a failure is re-run once before it counts (core.run_family)
    name = "live"
    quick_n = 48
    thorough_n = 600
    parallel = True       # ports are bound per process in setup()
    TIMEOUT = 2.0

    def setup(self):
        from ..sim import client_tlspeer as T

        self.T = T
        self.w = T.world()

    def gen(self, rng: random.Random, n: int):
        kinds = ["ok-close", "ok-notify", "non2x", "non2x-late", "non2x-once", "cut-header", "cut-body", "reset-body", "stall-header", "stall-body", "cap", "cap-close", "unknown-charset", "bad-status", "odd-codec"]
        for i in range(n):
            k = kinds[(i + rng.randrange(len(kinds))) % len(kinds)] if i < len(kinds) * 2 else rng.choice(kinds)
            yield {"kind": k, "op": rng.choice(["get", "get", "upload"]), "tofu": rng.random() < 0.5, "nchunks": rng.choice([1, 2, 5]),
                   "body_len": rng.choice([0, 1, 100, 5000, 200000]), "seed": rng.randrange(10 ** 6)}

    def plan(self, case):
        """(bytes the server sends in order, final step, expectation class)"""
        rnd = random.Random(case["seed"])
        body = bytes(rnd.randrange(32, 127) for _ in range(min(case["body_len"], 2000))) * (case["body_len"] // 2000 + 1)
        body = body[: case["body_len"]]
        k = case["kind"]
        if k in ("ok-close", "ok-notify"):
            return b"20 text/plain; charset=us-ascii\r\n" + body, "close" if k == "ok-close" else "close_notify", "resp"
        if k == "non2x":
            return b"51 Not found\r\n", "wait", "resp"
        if k in ("non2x-late", "non2x-once"):
            # a non-2x header followed by bytes that are no part of the response, then the server's close: in ONE write (-once), or the
            # header first and the rest a little later, in TLS records of their own (-late) - the same stream, segmented differently
            return rnd.choice([b"51 Not found\r\n", b"30 gemini://example.org/next\r\n", b"44 5\r\n"]) + b"trailing bytes that follow the header", "close", "resp"
        if k == "cut-header":
            return b"20 text/pla", "close", "err"
        if k == "cut-body":
            return b"20 application/octet-stream\r\n" + body, "close", "resp"
        if k == "reset-body":
            return b"20 application/octet-stream\r\n" + body, "reset", "any"
        if k == "stall-header":
            return b"20 text/pl", "stall", "timeout"
        if k == "stall-body":
            return b"20 text/plain\r\n" + body, "stall", "timeout"
        if k == "cap":
            return b"20 application/octet-stream\r\n" + b"\0" * (MAX_BODY + 70000), "wait", "err"
        if k == "cap-close":
            # more than the cap, then the server closes at once (the call has CAP_TIMEOUT to take it all in): an error, not the oversize body
            return rnd.choice([b"20 application/octet-stream\r\n", b"20 text/plain\r\n"]) + b"\xa5" * (MAX_BODY + rnd.choice([1, 5000, 1 << 20])), "close", "err"
        if k == "unknown-charset":
            return b"20 text/plain; charset=klingon-8\r\n" + body, "close", "err"
        if k == "odd-codec":
            return b"20 text/plain; charset=" + rnd.choice([b"undefined", b"idna", b"punycode"]) + b"\r\nxn--a..b", "close", "err"
        return rnd.choice([b"2x text/plain\r\n", b"99 nope\r\n", b"+20 text/plain\r\n", b"20\r\n", b"20\n text/plain\r\n", b"51\n\r\n", b"\t20 text/plain\r\n",
                           b"20\x0c text/plain\r\n"]) + body[:50], "wait", "err"

    CAP_TIMEOUT = 12.0        # for the kind that has to move > 10 MiB over loopback TLS on a busy machine before the server's close counts
    STALL_HOLD = 2.0          # a stalling server sits on the connection for TIMEOUT + this, without reading
    STALL_SLACK = 1.2         # ... and the call is back at most this much after its timeout

    def timeout_of(self, case) -> float:
        return self.CAP_TIMEOUT if case["kind"] == "cap-close" else self.TIMEOUT

    def impl(self, case):
        from nauyaca.client.session import GeminiClient

        data, fin, _ = self.plan(case)
        peer = self.w["peers"][0]
        T = self.timeout_of(case)
        n = case["nchunks"]
        step = max(1, len(data) // n)
        steps = [["read_request", 2.0]]
        for a in range(0, len(data), step):
            steps.append(["send", data[a:a + step], "force"])
            if n > 1 and a + step < len(data) and len(data) < 100000:
                steps.append(["sleep", 0.01])
        if case["kind"] in ("non2x-late", "non2x-once"):
            h = data.find(CRLF) + 2
            steps = [["read_request", 2.0]] + ([["send", data, "force"]] if case["kind"] == "non2x-once" else
                                               [["send", data[:h], "force"], ["sleep", 0.4], ["send", data[h:h + 9], "force"], ["sleep", 0.1], ["send", data[h + 9:], "force"]])
        steps += {"close": [["close"]], "close_notify": [["close_notify"]], "reset": [["reset"]], "wait": [["read_eof", 3.0], ["close"]],
                  "stall": [["sleep", T + self.STALL_HOLD], ["close"]]}[fin]
        peer.push("ec", steps)
        tmp = tempfile.mkdtemp(prefix="nv-")

        async def go():
            asyncio.get_running_loop().set_exception_handler(lambda loop, ctx: None)
            c = GeminiClient(timeout=T, trust_on_first_use=case["tofu"], tofu_db_path=Path(tmp) / "t.db" if case["tofu"] else None)
            url = f"gemini://127.0.0.1:{peer.port}/x"
            t0 = time.monotonic()
            try:
                if case["op"] == "get":
                    r = await c.get(url, follow_redirects=False)
                else:
                    r = await c.upload(url, b"payload", token="t")
                res = ["resp", r.status, (r.meta or ""), canon_body(r.body)]
            except TimeoutError:
                res = ["timeout"]
            except Exception as e:  # noqa: BLE001
                res = ["err", type(e).__name__, str(e)[:80]]
            return res, time.monotonic() - t0

        try:
            res, el = asyncio.run(go())
            log = peer.take_log(timeout=15.0)
        finally:
            shutil.rmtree(tmp, ignore_errors=True)
        i = data.find(CRLF)
        want = None
        if i >= 0 and res[0] == "resp" and res[3] is not None:
            raw = data[i + 2:]
            meta = data[:i].decode("utf-8", "replace").split(" ", 1)[1] if b" " in data[:i] else ""
            if is_text(meta):
                kind, text = decode_kind(raw, declared_charset(meta))
                want = canon_body(text) if kind == 0 else ["undecodable"]
            else:
                want = canon_body(raw)
        return {"res": res, "elapsed": round(el, 3), "want_body": want, "sent": len(data), "rx_ok": bool(log and log[0]["rx"]), "fin": fin}

    def oracle(self, case, obs):
        _, fin, cls = self.plan(case)
        res, el = obs["res"], obs["elapsed"]
        T = self.timeout_of(case)
        if el > T * 2 + 1.0:
            return ("no-timeout-cutoff", f"{case['kind']}: the call took {el}s with timeout {T}s")
        if fin != "stall" and (res[0] == "timeout" or el > T - 0.4) and case["kind"] != "cap":
            return ("hang-after-close", f"{case['kind']}: the server finished at once ({fin}) but the call ended with {res} after {el}s (timeout {T}s)")
        if fin == "stall" and res[0] != "timeout":
            return ("stall-not-timeout", f"{case['kind']}: a stalling server gave {res}")
        if fin == "stall" and el > T + self.STALL_SLACK:
            # the server sits on the connection (no read, no close) for T + STALL_HOLD: the cut-off is the timeout, not the end of the connection
            return ("no-timeout-cutoff", f"{case['kind']} ({case['op']} through GeminiClient over loopback TLS, timeout {T}s): the server sent {obs['sent']} bytes and then neither read nor "
                                         f"closed for {T + self.STALL_HOLD}s; the call ended with {res} only after {el}s, not at its timeout")
        if case["kind"] in ("non2x-late", "non2x-once"):
            # "the result never depends on how the stream was segmented": sent in one write this stream is the response its header line
            # makes up; sent as header, pause, rest it is the same stream
            data = self.plan(case)[0]
            want_st = int(data[:2])
            if res[:2] != ["resp", want_st]:
                return ("segmentation-dependent", f"{case['op']} through GeminiClient over loopback TLS: the server sent {data!r} as "
                                                  f"{'ONE write' if case['kind'] == 'non2x-once' else 'the header line, 0.4 s later the rest (TLS records of their own)'} and closed; "
                                                  f"the call ended with {res} after {el}s instead of the response {want_st} (in one write the same stream gives that response)")
        if res[0] == "resp":
            if not (10 <= res[1] <= 69) or ((res[3] is not None) != (20 <= res[1] <= 29)):
                return ("bad-response", f"{res}")
            v = malformed_header_verdict(f"{case['kind']} ({case['op']} through GeminiClient over loopback TLS, sent in {case['nchunks']} pieces): ", res, self.plan(case)[0])
            if v:
                return v
            if res[3] is not None and res[3] != obs["want_body"]:
                return ("body-mismatch", f"{case['kind']}: body {res[3]} is not what the server sent after the first CRLF ({obs['want_body']})")
            if case["kind"] in ("cap", "cap-close"):
                return ("cap-not-enforced", f"{case['kind']} ({case['op']} through GeminiClient over loopback TLS): got a response {res[:3]} with body {res[3]} for a stream of {obs['sent']} bytes "
                                            f"(2x header + more than the cap of {MAX_BODY} body bytes)")
        return None

    def key(self, case, obs):
        return f"{case['kind']} {case['op']} tofu={case['tofu']} -> {obs['res'][0]}"


class LiveOverlap(Family):
    """real TLS on loopback, real time: ONE GeminiClient, two or three calls in flight at once, each against its own scripted
    server connection (a page that takes a while; a long page sent in pieces with pauses; a reset in the body; a stall).
    Every call gets exactly what ITS server sent, promptly; a stalling server is cut off at the timeout."""
    realtime = True     # runs on the wall clock (sockets, threads): a failure is re-run once before it counts (core.run_family)
    name = "liveoverlap"
    quick_n = 8
    thorough_n = 240
    parallel = True       # ports are bound per process in setup()
    TIMEOUT = 2.0

    def setup(self):
        from ..sim import client_tlspeer as T

        self.w = T.world()

    def gen(self, rng: random.Random, n: int):
        fast = {"at": 0.0, "op": "get", "kind": "page", "wait": 0.3, "sizes": [12], "gaps": [], "meta": "text/gemini", "seed": 1}
        slow = {"at": 0.1, "op": "get", "kind": "page", "wait": 0.0, "sizes": [600, 700], "gaps": [0.8], "meta": "text/gemini", "seed": 2}
        fixed = [
            {"tofu": False, "calls": [fast, slow]},                                    # the earlier call ends while the later one is in the middle of its body
            {"tofu": True, "calls": [dict(slow, at=0.0, meta="application/octet-stream"), dict(fast, at=0.1, wait=0.2)]},   # the later call ends first
            {"tofu": False, "calls": [dict(fast, op="upload"), dict(slow, sizes=[200000, 200000], gaps=[0.5]), dict(fast, at=0.45, wait=0.1, seed=3)]},
        ]
        cnt = 0
        for c in self.share(fixed):
            cnt += 1
            yield c
        for _ in range(max(0, n - cnt)):
            k = rng.choice([2, 2, 3])
            calls = []
            for j in range(k):
                pieces = rng.choice([1, 2, 2, 3])
                calls.append({"at": [0.0, rng.choice([0.0, 0.05, 0.1, 0.2]), rng.choice([0.4, 0.5])][j], "op": rng.choice(["get", "get", "upload"]),
                              "kind": rng.choice(["page", "page", "page", "page", "reset", "stall", "non2x"]), "wait": rng.choice([0.0, 0.1, 0.2, 0.3]),
                              "sizes": [rng.choice([1, 100, 5000, 70000]) for _ in range(pieces)], "gaps": [rng.choice([0.05, 0.2, 0.4]) for _ in range(pieces - 1)],
                              "meta": rng.choice(["text/gemini", "text/plain; charset=us-ascii", "application/octet-stream"]), "seed": rng.randrange(10 ** 6)})
            yield {"tofu": rng.random() < 0.4, "calls": calls}

    @staticmethod
    def plan(call):
        """(complete byte stream of this call's server, steps of the scripted peer, how the server ends)"""
        rnd = random.Random(call["seed"])
        unit = bytes(rnd.randrange(32, 127) for _ in range(997))
        steps = [["read_request", 2.0]]
        if call["wait"]:
            steps.append(["sleep", call["wait"]])
        if call["kind"] == "non2x":
            data = b"51 Not found\r\n"
            return data, steps + [["send", data, "force"], ["read_eof", 3.0], ["close"]], "close"
        head = b"20 " + call["meta"].encode() + CRLF
        data = bytearray(head)
        for i, sz in enumerate(call["sizes"]):
            piece = (unit * (sz // len(unit) + 1))[:sz]
            steps.append(["send", (head if i == 0 else b"") + piece, "force"])
            data += piece
            if i < len(call["gaps"]):
                steps.append(["sleep", call["gaps"][i]])
        fin = {"page": "close", "reset": "reset", "stall": "stall"}[call["kind"]]
        steps += {"close": [["close"]], "reset": [["reset"]], "stall": [["sleep", LiveOverlap.TIMEOUT + 0.8], ["close"]]}[fin]
        return bytes(data), steps, fin

    def impl(self, case):
        from nauyaca.client.session import GeminiClient

        peers = self.w["peers"]
        plans = [self.plan(c) for c in case["calls"]]
        # calls 1 and 2 talk to different servers; a third call goes to the first server again, well after call 1 has connected
        for j, (_, steps, _) in enumerate(plans):
            peers[j % 2].push("ec", steps)
        tmp = tempfile.mkdtemp(prefix="nv-")

        async def one(c, call, j):
            if call["at"]:
                await asyncio.sleep(call["at"])
            url = f"gemini://127.0.0.1:{peers[j % 2].port}/c{j}"
            t0 = time.monotonic()
            try:
                if call["op"] == "get":
                    r = await c.get(url, follow_redirects=False)
                else:
                    r = await c.upload(url, b"payload", token="t")
                res = ["resp", r.status, (r.meta or "").encode("utf-8", "surrogatepass").hex(), canon_body(r.body)]
            except TimeoutError:
                res = ["timeout"]
            except Exception as e:  # noqa: BLE001
                res = ["err", type(e).__name__, str(e)[:80]]
            return {"res": res, "elapsed": round(time.monotonic() - t0, 3)}

        async def go():
            asyncio.get_running_loop().set_exception_handler(lambda loop, ctx: None)
            c = GeminiClient(timeout=self.TIMEOUT, trust_on_first_use=case["tofu"], tofu_db_path=Path(tmp) / "t.db" if case["tofu"] else None)
            return await asyncio.gather(*(one(c, call, j) for j, call in enumerate(case["calls"])))

        try:
            calls = asyncio.run(go())
            for p in peers:
                p.take_log(timeout=15.0)
        finally:
            for p in peers:
                p.clear()
            shutil.rmtree(tmp, ignore_errors=True)
        return {"calls": calls}

    def oracle(self, case, obs):
        n = len(case["calls"])
        flight = "; ".join(f"call {j + 1} {c['op']} from {c['at']} s ({c['kind']})" for j, c in enumerate(case["calls"]))
        for j, (call, o) in enumerate(zip(case["calls"], obs["calls"])):
            who = f"call {j + 1} of {n} in flight on one GeminiClient over loopback TLS ({flight})"
            data, _, fin = self.plan(call)
            res, el = o["res"], o["elapsed"]
            span = call["wait"] + sum(call["gaps"]) if call["kind"] != "non2x" else call["wait"]
            if el > self.TIMEOUT * 2 + 1.0:
                return ("no-timeout-cutoff", f"{who}: took {el} s with timeout {self.TIMEOUT} s")
            if fin != "stall" and (res[0] == "timeout" or el > max(self.TIMEOUT - 0.4, span + 1.0)):
                return ("hang-after-close", f"{who}: its server finished ({fin}) after about {span} s but the call ended with {res} after {el} s (timeout {self.TIMEOUT} s)")
            if fin == "stall" and res[0] == "resp":
                return ("stall-not-timeout", f"{who}: its server sent {len(data)} bytes and then kept the connection open without finishing, the call returned {res[:2]} after {el} s")
            if fin == "reset":
                continue            # a reset may or may not overtake the data already sent: a response or an error, C13 proto/live judge it
            i = data.find(CRLF)
            want = want_of(data, True)
            v = judge_one(who, res, want, len(data) - i - 2, data)
            if v is None and res[0] == "err" and fin == "close" and want is not None:
                # a complete well-formed response, closed cleanly, within cap and timeout: there is no problem an exception could name
                v = ("error-without-cause", f"{who}: its server sent a complete well-formed response ({len(data)} bytes, status {want[0]}) and closed cleanly, the call raised {res[1]}: {res[2]}")
            if v:
                others = "; ".join(f"call {k + 1} ended {p['res'][0]} after {p['elapsed']} s" for k, p in enumerate(obs["calls"]) if k != j)
                return (v[0], v[1] + f" (returned after {el} s; {others})")
        return None

    def key(self, case, obs):
        return f"n={len(case['calls'])} tofu={case['tofu']} " + "+".join(sorted(f"{c['kind']}->{o['res'][0]}" for c, o in zip(case["calls"], obs["calls"])))


FAMILIES = [Proto(), Session(), Linger(), Overlap(), Live(), LiveOverlap()]
