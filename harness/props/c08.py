"""C08  Only protocol-valid requests reach handlers; valid requests are not refused."""
from __future__ import annotations

import random
import string

from ..sim import srv as sim
from .pumpfam import PumpFamily
from .srvfam import ConnFamily

ID = "C08"
READY = True
LEAN_TARGETS = ["NauyacaVerif.Props.C08"]
THEOREMS = ['NauyacaVerif.C08.reach_sound', 'NauyacaVerif.C08.mustReject_refused', 'NauyacaVerif.C08.reach_sound_spec', 'NauyacaVerif.C08.reject_status', 'NauyacaVerif.C08.reject_fragment', 'NauyacaVerif.C08.reject_userinfo', 'NauyacaVerif.C08.titan_disabled', 'NauyacaVerif.C08.limit_exact', 'NauyacaVerif.C08.maxRequest_tie', 'NauyacaVerif.C08.maxRequest_is_1024', 'Url.parse_canonical']
LEAN_TARGETS = ["NauyacaVerif.Props.C08", "NauyacaVerif.Url.Canon", "NauyacaVerif.Props.Tr.ParseUrl", "NauyacaVerif.Props.Tr.TitanFromLine", "NauyacaVerif.Props.Tr.DataReceived"]
TRANSLATED = ["parseUrl", "titanParams", "titanFromLine", "dataReceived"]
THEOREMS = THEOREMS + ["NauyacaVerif.Translated.parseUrl_eq", "NauyacaVerif.Translated.titanParams_size", "NauyacaVerif.Translated.titanFromLine_size", "NauyacaVerif.Translated.data_received_refines", "NauyacaVerif.Translated.reads_refine_init"]
EXTRACT = ["maxRequest"]
LEVEL_TEXT = "Proved for every event list: whatever handler, upload handler or middleware is invoked with was a request line of <= 1024 bytes incl. CRLF, valid UTF-8, accepted by the parse_url model (Titan: only with uploads enabled and a well-formed non-negative size); parse_url provably refuses the must-reject classes no-colon / wrong scheme / no '//' / empty authority / non-empty fragment / non-empty user-info for EVERY behaviour of the opaque ipaddress/NFKC checks; refused lines get 59 (50) and no invocation; the size limit is exact. Completeness core: parse_canonical (canonical spellings are accepted with intact components). Partial: the full RFC 3986 grammar (completeness direction) and Titan parameter syntax are covered by the correspondence (grammar generator up to exactly 1022 bytes, systematic corruptions, raw bytes) and by an independent Python oracle, not by a theorem."
LEVEL_NOTE = "Trusted: Lean kernel (axioms propext, Classical.choice, Quot.sound only); the hand-written model Srv.step/Srv.pumpStep is tied to /repo by extraction (constants, 'every transport.write sits in _send_response') and by the correspondence run of every check (fake transport with asyncio's write-after-close semantics, virtual-clock loop, scripted handlers; real PyOpenSSL pump over memory BIOs); asyncio's transport/timer contract, OpenSSL's record layer and Python exception texts are assumed, see assumptions."
TECHNIQUE = 'Lean 4 proof (invariant induction over all event lists of an executable connection state machine) + differential correspondence with the real asyncio protocol objects under a virtual clock'
ASSUMPTIONS = [
    "urllib.parse of CPython 3.12.1 is what the URL model mirrors; ipaddress.ip_address on a bracketed host and the NFKC check on a non-ASCII netloc are opaque parameters (they can only add rejections)",
    "grey zone (no verdict demanded either way): lines with leading C0/space characters or embedded TAB/CR/LF (urlsplit strips them), empty user-info 'gemini://@h/', ports that are not decimal 0-65535, '#' inside a Titan parameter value",
    "all clauses of the raw-line must-reject specification for gemini lines are proved (CleanLine hypothesis: no C0/space characters); Titan size syntax: int() also accepts non-ASCII decimal digits, which the model does not (grey, never generated)",
]

UNRESERVED = string.ascii_letters + string.digits + "-._~"
SUBDELIMS = "!$&'()*+,;="
PCHAR = UNRESERVED + SUBDELIMS + ":@"


def pct(rng):
    return "%" + rng.choice("0123456789ABCDEFabcdef") + rng.choice("0123456789ABCDEFabcdef")


def gen_host(rng):
    r = rng.random()
    if r < 0.55:
        labels = ["".join(rng.choice(string.ascii_letters + string.digits + "-") for _ in range(rng.randint(1, 10))) for _ in range(rng.randint(1, 4))]
        h = ".".join(labels)
        if rng.random() < 0.15:
            h += rng.choice(["_x", "~y", pct(rng)])
        # urllib lower-cases the host up to the first '%' (what follows may be an IPv6 zone)
        a, pc, z = h.partition("%")
        return h, a.lower() + pc + z
    if r < 0.7:
        h = ".".join(str(rng.randint(0, 255)) for _ in range(4))
        return h, h
    v6 = rng.choice(["::1", "fe80::1", "2001:db8::8a2e:370:7334", "::", "::ffff:192.0.2.1", "2001:DB8:0:0:0:0:0:1", "1:2:3:4:5:6:7:8"])
    return "[" + v6 + "]", v6.lower()


def gen_path(rng, maxlen):
    segs = []
    for _ in range(rng.randint(0, 5)):
        seg = "".join(rng.choice(PCHAR) if rng.random() < 0.9 else pct(rng) for _ in range(rng.randint(0, 12)))
        segs.append(seg)
    p = "".join("/" + s for s in segs)
    if rng.random() < 0.3:
        p += "/"
    return p[:maxlen]


def gen_query(rng):
    return "".join(rng.choice(PCHAR + "/?") if rng.random() < 0.9 else pct(rng) for _ in range(rng.randint(0, 20)))


def grammar_line(rng, exact_len=None):
    """a gemini request line from the RFC 3986 grammar and the components a handler must see"""
    host, hnorm = gen_host(rng)
    port = None
    ptxt = ""
    r = rng.random()
    if r < 0.25:
        port = rng.choice([0, 1, 80, 1965, 1966, 65535, rng.randint(0, 65535)])
        ptxt = ":" + str(port)
    path = gen_path(rng, 200)
    q = None
    if rng.random() < 0.4:
        q = gen_query(rng)
    line = "gemini://" + host + ptxt + path + ("?" + q if q is not None else "")
    if exact_len is not None and rng.random() < 0.35:
        # the boundary with an EMPTY path: the handler sees "/" (one byte more than was sent), the line is as long as a line may be
        path = ""
        q = (q or "") + "q"
        pad = exact_len - len(("gemini://" + host + ptxt + "?" + q).encode())
        if pad > 0:
            q = q + "q" * pad
        line = "gemini://" + host + ptxt + "?" + q
    elif exact_len is not None:
        pad = exact_len - len(line.encode())
        if pad > 0:
            path = path + "/" + "a" * (pad - 1) if pad >= 1 else path
            line = "gemini://" + host + ptxt + path + ("?" + q if q is not None else "")
    comps = [hnorm, port if port is not None else 1965, path or "/", q or ""]
    return line, comps


def corrupt(rng, line: str) -> bytes:
    k = rng.choice(["scheme", "scheme2", "nohost", "userinfo", "userinfo2", "fragment", "utf8", "long", "longmb", "longmb", "titancase", "noslash", "nocolon", "space", "tab", "titan", "port"])
    b = line.encode()
    if k == "scheme":
        return rng.choice([b"http", b"https", b"gopher", b"titan", b"gemini+x", b"gemin", b"geminii", b"file"]) + b[6:]
    if k == "scheme2":
        return rng.choice([b"GEMINI", b"Gemini", b"gEmInI"]) + b[6:]
    if k == "nohost":
        return rng.choice([b"gemini:///x", b"gemini://", b"gemini://:1965/", b"gemini://?q", b"gemini://#f", b"gemini:/h/x", b"gemini:h/x"])
    if k == "userinfo":
        return b[:9] + rng.choice([b"user@", b"user:pw@", b":pw@", b"a@b@"]) + b[9:]
    if k == "userinfo2":
        return b[:9] + b"@" + b[9:]
    if k == "fragment":
        return b + rng.choice([b"#f", b"#", b"#a#b", b"##"])
    if k == "utf8":
        i = rng.randint(9, len(b))
        return b[:i] + rng.choice([b"\xff", b"\xc3", b"\xed\xa0\x80", b"\xc0\xaf", b"\xf5\x80\x80\x80"]) + b[i:]
    if k == "long":
        n = rng.choice([1021, 1022, 1023, 1024, 1025, 1030, 2000])
        return (b + b"/" + b"a" * 3000)[:n]
    if k == "longmb":
        # few characters, many bytes: multi-byte UTF-8 padding around the 1022-byte limit (gemini and titan)
        ch = rng.choice(["\u00e9", "\u20ac", "\U0001f600"])
        nbytes = rng.choice([1018, 1020, 1021, 1022, 1023, 1024, 1026, 1030, 1500])
        base = rng.choice([b"gemini://h/", b"titan://h/"])
        tail = b";size=3" if base.startswith(b"titan") else b""
        pad = ""
        while len(base) + len((pad + ch).encode()) + len(tail) <= nbytes:
            pad += ch
        filler = b"a" * (nbytes - len(base) - len(pad.encode()) - len(tail))
        return base + pad.encode() + filler + tail
    if k == "titancase":
        return rng.choice([b"Titan", b"TITAN", b"tItAn", b"titaN"]) + b[6:] + rng.choice([b"", b";size=0", b";size=3", b";size=3;mime=text/plain"])
    if k == "noslash":
        return b"gemini:" + b[9:]
    if k == "nocolon":
        return b.replace(b":", b"", 1) if rng.random() < 0.5 else b"gemini//h/"
    if k == "space":
        return rng.choice([b" ", b"\x00", b"\x1f"]) + b
    if k == "tab":
        i = rng.randint(1, len(b))
        return b[:i] + rng.choice([b"\t", b"\n", b"\r"]) + b[i:]
    if k == "titan":
        return b"titan" + b[6:] + rng.choice([b";size=3", b";size=0", b"", b";size=-1", b";size=x", b";mime=text/plain", b";size=3;token=t", b";size=1_0", b";size= 2"])
    return b[:9] + b"h" + rng.choice([b":65536", b":99999", b":-1", b":1a", b":", b":01965", b":"]) + b"/"


C0SPACE = bytes(range(0, 33))


def must_reject(line: bytes, up: bool):
    """the independent specification of DESIGN.md C08 on the raw line; returns the clause or None.
    Grey inputs (leading C0/space, embedded TAB/CR/LF) are normalised the way WHATWG/urlsplit does first."""
    if len(line) > 1022:
        return "too-long"
    try:
        s = line.decode("utf-8")
    except UnicodeDecodeError:
        return "utf8"
    t = s.lstrip("".join(chr(c) for c in range(0, 33)))
    t = t.replace("\t", "").replace("\r", "").replace("\n", "")
    if ":" not in t:
        return "no-scheme"
    scheme, rest = t.split(":", 1)
    scheme = scheme.lower()
    titan = scheme == "titan"
    if scheme != "gemini" and not (titan and up):
        return "scheme"
    if titan:
        # the URL proper ends at the first ';' (Titan parameters follow)
        rest_url, _, params = rest.partition(";")
        if not params:
            return "titan-no-size"
        size = None
        for part in params.split(";"):
            if "=" in part:
                k, v = part.split("=", 1)
                if k.strip() == "size":
                    size = v.strip()
        if size is None:
            return "titan-no-size"
        if not (size.isascii() and size.isdigit()):
            # int() also takes '+2', '1_0', ' 4 ': grey; '-1', 'x', '' are must-reject
            if size.startswith("-") or not any(ch.isdigit() for ch in size) or any(ch.isalpha() for ch in size):
                return "titan-bad-size"
        rest = rest_url
    if not rest.startswith("//"):
        return "no-authority"
    auth = rest[2:]
    for i, ch in enumerate(auth):
        if ch in "/?#":
            auth = auth[:i]
            break
    if "@" in auth:
        userinfo, _, hostport = auth.rpartition("@")
        if userinfo not in ("", ":"):   # '@h' and ':@h' carry empty credentials: grey, urllib reports no user-info
            return "userinfo"
    else:
        hostport = auth
    host = hostport
    if hostport.startswith("["):
        host = hostport
    elif ":" in hostport:
        host = hostport.rsplit(":", 1)[0]
    if host == "":
        return "no-host"
    if "#" in rest:
        frag = rest.split("#", 1)[1]
        if frag != "":
            return "fragment"
    return None


class Lines(ConnFamily):
    name = "lines"
    quick_n = 6000
    thorough_n = 150000

    def gen(self, rng: random.Random, n: int):
        for i in range(n):
            up = rng.random() < 0.5
            r = rng.random()
            comps = None
            titan_ok = None
            if r < 0.4:
                exact = rng.choice([None, None, None, 1020, 1021, 1022]) if rng.random() < 0.3 else None
                line, comps = grammar_line(rng, exact)
                b = line.encode()
                if len(b) > 1022:
                    comps = None
            elif r < 0.5:
                # a well-formed Titan upload line (uploads enabled): must reach the upload handler with exactly `size` bytes
                up = True
                line, comps0 = grammar_line(rng)
                line = line.split("?")[0]
                # small bodies, and bodies larger than a request line may be (the 1024-byte limit is about the LINE)
                size = rng.choice([0, 1, 3, 3, 10, 1023, 1025, 1500, 3000]) if rng.random() < 0.8 else rng.choice([5000, 70000])
                params = [f"size={size}"] + rng.sample(["mime=text/plain", "token=s3cret", "mime=text/gemini", "token=c2VjcmV0MQ==", "token=k=v", "token==", "mime=text/plain;charset=utf-8"], rng.randint(0, 2))
                rng.shuffle(params)
                b = ("titan" + line[6:] + ";" + ";".join(params)).encode()
                titan_ok = {"size": size, "path": comps0[2], "host": comps0[0], "port": comps0[1]} if len(b) <= 1022 and ";" not in comps0[2] else None
            elif r < 0.85:
                b = corrupt(rng, grammar_line(rng)[0])
            else:
                b = bytes(rng.choice(b"gemini:/[]@#?;=%.ab0 \t\r\n\x00\xff\xc3\xa9") for _ in range(rng.randint(0, 40)))
                if rng.random() < 0.5:
                    b = b"gemini://" + b
            crlf = rng.random() < (0.88 if r < 0.4 else 0.93)
            content = b""
            if b.startswith(b"titan") and rng.random() < 0.7:
                content = b"abc"
            if 0.4 <= r < 0.5:
                # binary content (large bodies: without CR/LF more often than not, so that nothing in them looks like a line end)
                alphabet = bytes(range(256)) if size < 100 or rng.random() < 0.3 else bytes(x for x in range(256) if x not in (10, 13))
                content = bytes(rng.choice(alphabet) for _ in range(size)) + rng.choice([b"", b"", b"TRAILING"])
                crlf = True
            else:
                titan_ok = None
            stream = b + (b"\r\n" if crlf else b"") + content
            if b"\r\n" in b:
                comps = None
            cuts = sorted(rng.sample(range(1, len(stream)), min(len(stream) - 1, rng.randint(0, 2)))) if len(stream) > 1 else []
            parts, p = [], 0
            for c in cuts + [len(stream)]:
                parts.append(stream[p:c])
                p = c
            yield {"mw": rng.random() < 0.4, "up": up, "handler": ["s", [20, "text/gemini", ["s", "ok"]]],
                   "evs": ([["wall", rng.choice([-3600, 31, 45, 3600, 86400])]] if rng.random() < 0.1 else []) + [["d", x.hex()] for x in parts if x]
                          + ([["l"]] if not crlf and rng.random() < 0.8 else []) + [["ma"], ["ua", [20, "text/gemini", None]]],
                   "line": b.hex(), "crlf": crlf, "comps": comps, "titan": titan_ok, "content": content.hex(),
                   # an unterminated line followed by the peer's clean end of stream (eof_received, then connection_lost) or an abrupt loss
                   "eof": rng.random() < 0.7}

    def oracle(self, case, obs):
        data = b"".join(bytes.fromhex(e[1]) for e in case["evs"] if e[0] == "d")
        i = data.find(b"\r\n")
        calls = obs["h"] + obs["u"] + obs["m"]
        raw = b"".join(bytes.fromhex(a[1]) for a in obs["acts"] if a[0] == "w")
        pr = sim.parse_response(raw) if raw else None
        if i < 0:
            if calls:
                return ("incomplete-reached", "handler/middleware invoked without a complete request line")
            if len(data) > 1024 and (pr is None or pr[0] != 59):
                return ("oversize-status", f"more than 1024 bytes without CRLF answered with {raw[:40]!r}")
            return None
        line = data[:i]
        up = case["up"]
        why = must_reject(line, up)
        if why is not None:
            if calls:
                return ("mustreject-reached", f"a must-reject line ({why}) reached handler/middleware: {line[:80]!r}")
            want = 59
            if why not in ("too-long", "utf8") and not up:
                try:
                    if line.decode().startswith("titan://"):
                        want = 50
                except UnicodeDecodeError:
                    pass
            if pr is None or pr[0] != want:
                return ("mustreject-status", f"must-reject line ({why}) answered with {raw[:40]!r}, expected status {want}: {line[:80]!r}")
            return None
        tk = case.get("titan")
        if tk is not None:
            if obs["u"] != 1 and not (case["mw"] and obs["m"] == 1):
                return ("valid-refused", f"a well-formed Titan line did not reach the upload handler: {line[:100]!r} -> {raw[:60]!r}")
            if obs["u"] == 1:
                want = bytes.fromhex(case["content"])[: tk["size"]]
                got = bytes.fromhex(obs["content"]) if obs["content"] != "-" else b""
                if got != want:
                    return ("upload-content", f"upload handler got {got!r}, the client sent {want!r} as the declared {tk['size']} bytes")
                if obs["hargs"] and obs["hargs"][0][2] != tk["path"]:
                    return ("components-changed", f"upload handler saw path {obs['hargs'][0][2]!r}, the line denotes {tk['path']!r}")
                if obs["hargs"] and "host" in tk and obs["hargs"][0][:2] != [tk["host"], tk["port"]]:
                    return ("components-changed", f"upload handler saw host/port {obs['hargs'][0][:2]}, the line denotes {[tk['host'], tk['port']]}")
            return None
        comps = case.get("comps")
        if comps is not None:
            if obs["h"] != 1 and not (case["mw"] and obs["m"] == 1):
                return ("valid-refused", f"a line of the protocol grammar did not reach the handler: {line[:100]!r} -> {raw[:60]!r}")
            if obs["hargs"]:
                got = obs["hargs"][0][:4]
                if got != comps:
                    return ("components-changed", f"handler saw {got}, the request line denotes {comps}")
        return None

    def key(self, case, obs):
        data = b"".join(bytes.fromhex(e[1]) for e in case["evs"] if e[0] == "d")
        i = data.find(b"\r\n")
        cls = must_reject(data[:i], case["up"]) if i >= 0 else "no-crlf"
        raw = b"".join(bytes.fromhex(a[1]) for a in obs["acts"] if a[0] == "w")
        return f"{'grammar' if case.get('comps') else 'other'}|{cls}|{raw[:2].decode('latin1')}|h{obs['h']}u{obs['u']}m{obs['m']}"


class PumpLines(PumpFamily):
    """the same request lines through the PyOpenSSL front end (TLSServerProtocol): the line is written by the peer as one
    or several TLS records which arrive in one or several network reads; a grammar-valid line reaches the handler exactly
    once whatever the record / read structure, a must-reject line never does"""

    name = "pumplines"
    quick_n = 160
    thorough_n = 4000

    def gen(self, rng: random.Random, n: int):
        for i in range(n):
            comps = None
            if rng.random() < 0.6:
                line, comps = grammar_line(rng, rng.choice([None, None, 1021, 1022]) if rng.random() < 0.2 else None)
                b = line.encode()
                if len(b) > 1022:
                    comps = None
            else:
                b = corrupt(rng, grammar_line(rng)[0])
            if b"\r\n" in b:
                comps = None
            stream = b + b"\r\n"
            k = rng.choice([0, 1, 1, 2, 3])
            cuts = sorted(set(rng.sample(range(1, len(stream)), min(len(stream) - 1, k)))) if len(stream) > 1 else []
            if rng.random() < 0.4 and len(stream) > 2:
                cuts = sorted(set(cuts + [len(stream) - 2]))          # the CRLF in a record of its own
            app, p0 = [], 0
            for c in cuts + [len(stream)]:
                app.append(stream[p0:c])
                p0 = c
            yield {"up": rng.random() < 0.4, "mw": False, "handler": ["s", [20, "text/gemini", ["s", "ok"]]], "app": [a.hex() for a in app if a],
                   "close_notify": rng.random() < 0.2, "plaintext": None, "cutseed": rng.randrange(1 << 30), "maxcuts": rng.choice([0, 0, 0, 1, 3]),
                   "stall": None, "cert": rng.choice([None, None, 0]), "post": [["ua", [20, "text/gemini", None]]], "line": b.hex(), "comps": comps}

    def oracle(self, case, obs):
        line = bytes.fromhex(case["line"])
        i = line.find(b"\r\n")
        if i >= 0:
            line = line[:i]
        calls = obs["h"] + obs["u"] + obs["m"]
        plain = bytes.fromhex(obs["plain"]) if obs["plain"] != "-" else b""
        why = must_reject(line, case["up"])
        if why is not None:
            if calls:
                return ("mustreject-reached", f"PyOpenSSL backend: a must-reject line ({why}) reached handler/middleware: {line[:80]!r}")
            return None
        if case.get("comps") is not None and obs["h"] != 1:
            return ("valid-refused", f"PyOpenSSL backend: a line of the protocol grammar, sent as {len(case['app'])} TLS record(s) arriving in at most "
                                     f"{case['maxcuts'] + 1} read(s), did not reach the handler (h={obs['h']}): {line[:100]!r} -> {plain[:60]!r}")
        return self.oracle_once(case, obs)


FAMILIES = [Lines(), PumpLines()]
