"""Shared machinery of the nauyaca verification framework (DESIGN.md §2).

Everything here is plain Python run with /venv/bin/python.  The real code is
imported in-process from NAUYACA_REPO (default /repo) so that every check sees
the current working tree.
"""
from __future__ import annotations

import asyncio
import fcntl
import hashlib
import json
import os
import random
import re
import subprocess
import sys
import threading
import time
from dataclasses import dataclass, field
from pathlib import Path
from typing import Any, Callable, Iterable

VERIF = Path(__file__).resolve().parent.parent
REPO = Path(os.environ.get("NAUYACA_REPO", "/repo")).resolve()
# Scratch runs against a modified copy of the repository (seeded changes, reverted fixes) must not
# disturb the shared Lean build or the committed evidence: give them a private copy of lean/ and an
# output directory.
LEAN = Path(os.environ.get("NAUYACA_LEAN_DIR", str(VERIF / "lean"))).resolve()
OUT = Path(os.environ.get("NAUYACA_OUT", str(VERIF))).resolve()
DRIVER = LEAN / ".lake" / "build" / "bin" / "nvdriver"
GUARD = "NAUYACA_VERIF"
ALLOWED_AXIOMS = {"propext", "Classical.choice", "Quot.sound"}
FORBIDDEN = re.compile(r"\bsorry\b|\badmit\b|^\s*axiom\s|native_decide|bv_decide|implemented_by|\bunsafe\s|maxHeartbeats\s+0")

TRUSTED_BASE = [
    "Lean 4.33.0 kernel (thorough tier: re-checked with leanchecker)",
    "axioms allowed: propext, Classical.choice, Quot.sound (audited with #print axioms on every run); no sorry/native_decide/bv_decide/own axioms",
    "hand-written Lean models tied to /repo by harness/extract.py (constants, literals, source-shape facts), by the differential correspondence run of this check and - for the functions listed as translate:<fn> obligations - by harness/translate.py (the Python function re-translated to Lean on every run and proved equal to the model)",
    "harness simulators (fake transport, virtual-clock loop, memory-BIO TLS peer, temp trees, sqlite shim) and canonicalisers, ordinary Python",
    "CPython 3.12.1 stdlib (urllib.parse, asyncio, ssl, sqlite3, pathlib), OpenSSL/pyOpenSSL, cryptography: exercised, not modelled beyond the contracts in DESIGN.md §3",
]


def setup_import_path() -> None:
    """Make `import nauyaca` resolve to the working tree under REPO."""
    os.environ[GUARD] = "1"
    src = str(REPO / "src")
    if src not in sys.path:
        sys.path.insert(0, src)
    for name in list(sys.modules):
        if name == "nauyaca" or name.startswith("nauyaca."):
            mod = sys.modules[name]
            f = getattr(mod, "__file__", "") or ""
            if not f.startswith(src):
                del sys.modules[name]
    import nauyaca.protocol  # noqa: F401  (breaks the utils<->protocol import cycle)
    configure_harness_logging()


def configure_harness_logging() -> None:
    """(re-)apply the logging configuration the checks run under"""
    try:
        import structlog

        if os.environ.get("NAUYACA_VERIF_QUIETLOG") == "1":
            structlog.configure(wrapper_class=structlog.make_filtering_bound_logger(50))
        else:
            # logging as a deployment has it (`--log-file`: every event rendered by nauyaca's own processor chain and printed to a
            # stream that encodes strictly as UTF-8) - what is logged, and whether logging it can raise, is part of the code under
            # test; the text goes nowhere
            import io

            from nauyaca.utils.logging import hash_ip_processor

            class _Null(io.RawIOBase):
                def writable(self):
                    return True

                def write(self, b):
                    return len(b)

            sink = io.TextIOWrapper(io.BufferedWriter(_Null()), encoding="utf-8", errors="strict", write_through=True)
            structlog.configure(
                processors=[structlog.contextvars.merge_contextvars, structlog.processors.add_log_level,
                            structlog.processors.TimeStamper(fmt="%Y-%m-%d %H:%M:%S"), hash_ip_processor, structlog.dev.ConsoleRenderer(colors=False)],
                wrapper_class=structlog.make_filtering_bound_logger(10), context_class=dict,
                logger_factory=structlog.PrintLoggerFactory(file=sink), cache_logger_on_first_use=False)
    except Exception:
        pass


# ----------------------------------------------------------------------------
# Lean side
# ----------------------------------------------------------------------------
class LakeLock:
    def __enter__(self):
        self.f = open(LEAN / ".lake.lock", "w")
        fcntl.flock(self.f, fcntl.LOCK_EX)
        return self

    def __exit__(self, *a):
        fcntl.flock(self.f, fcntl.LOCK_UN)
        self.f.close()


def run_cmd(cmd: list[str], cwd: Path, timeout: int = 1800) -> tuple[int, str]:
    try:
        p = subprocess.run(cmd, cwd=cwd, stdout=subprocess.PIPE, stderr=subprocess.STDOUT, timeout=timeout, text=True)
        return p.returncode, p.stdout
    except subprocess.TimeoutExpired as e:
        return 124, (e.stdout or "") + "\nTIMEOUT"


def lake_build(targets: list[str]) -> tuple[bool, str]:
    rc, out = run_cmd(["lake", "build", *targets], LEAN)
    return rc == 0, out


def lean_sources_clean() -> list[str]:
    """grep the Lean sources for forbidden constructs outside comments."""
    hits = []
    for p in sorted((LEAN / "NauyacaVerif").rglob("*.lean")) + [LEAN / "Driver.lean"]:
        if not p.exists():
            continue
        in_block = 0
        for i, line in enumerate(p.read_text().splitlines(), 1):
            s = line
            # crude comment stripping: block comments and line comments
            out = ""
            j = 0
            while j < len(s):
                if s.startswith("/-", j):
                    in_block += 1
                    j += 2
                elif s.startswith("-/", j) and in_block:
                    in_block -= 1
                    j += 2
                elif in_block:
                    j += 1
                elif s.startswith("--", j):
                    break
                else:
                    out += s[j]
                    j += 1
            if FORBIDDEN.search(out):
                hits.append(f"{p.relative_to(LEAN)}:{i}: {line.strip()}")
    return hits


def audit_axioms(pid: str, imports: list[str], theorems: list[str]) -> dict[str, Any]:
    """Run `#print axioms` for every theorem; returns {name: [axioms] | 'MISSING'}."""
    d = LEAN / ".audit"
    d.mkdir(exist_ok=True)
    f = d / f"Audit_{pid}.lean"
    f.write_text("".join(f"import {m}\n" for m in imports) + "".join(f"#print axioms {t}\n" for t in theorems))
    rc, out = run_cmd(["lake", "env", "lean", str(f)], LEAN)
    res: dict[str, Any] = {}
    flat = re.sub(r"\s+", " ", out)
    for t in theorems:
        m = re.search(r"'" + re.escape(t) + r"' depends on axioms: \[([^\]]*)\]", flat)
        if m:
            res[t] = [a.strip() for a in m.group(1).split(",") if a.strip()]
        elif re.search(r"'" + re.escape(t) + r"' does not depend on any axioms", flat):
            res[t] = []
        else:
            res[t] = "MISSING"
    res["_raw_rc"] = rc
    if rc != 0:
        res["_raw"] = out[-2000:]
    return res


class Driver:
    """Line protocol to the compiled Lean model driver: one case per line in, one line out."""

    def __init__(self):
        if not DRIVER.exists():
            raise RuntimeError("driver not built")

    def ask(self, lines: list[str]) -> list[str]:
        if not lines:
            return []
        for l in lines:
            if "\n" in l:
                raise ValueError("newline in driver line")
        p = subprocess.run([str(DRIVER)], input="\n".join(lines) + "\n", stdout=subprocess.PIPE, stderr=subprocess.PIPE, text=True, timeout=3600)
        out = p.stdout.split("\n")
        if out and out[-1] == "":
            out.pop()
        if len(out) != len(lines):
            raise RuntimeError(f"driver returned {len(out)} lines for {len(lines)} cases; rc={p.returncode}; stderr={p.stderr[-500:]}")
        return out


# ----------------------------------------------------------------------------
# Encoding helpers shared by the line protocol
# ----------------------------------------------------------------------------
def hexb(b: bytes) -> str:
    return b.hex() if b else "-"


def cps(s: str) -> str:
    """Python str -> comma-separated hex code points ('-' for empty)."""
    return ",".join(format(ord(c), "x") for c in s) if s else "-"


def uncps(s: str) -> str:
    return "" if s == "-" else "".join(chr(int(t, 16)) for t in s.split(","))


# ----------------------------------------------------------------------------
# Families of correspondence cases
# ----------------------------------------------------------------------------
class Family:
    """One stream of correspondence cases for a property.

    gen       yields JSON-serialisable cases
    impl      runs the REAL code on a case and returns a canonical (JSON-serialisable) observation
    model     returns the driver input line for a case (None: no model output for this case)
    expect    maps (case, driver output line) to the observation the implementation should show
    oracle    evaluates the property statement directly on the implementation's observation
              (independent of the Lean model); returns None or (signature, description)
    key       classifies a case/observation for the distribution printed into the evidence;
              None means "trivial"
    """

    name = "family"
    quick_n = 1000
    thorough_n = 20000
    parallel = True
    shard = (0, 1)   # (index, count) of the process this instance generates cases for

    def share(self, items):
        """this shard's part of a deterministic enumeration (every count-th element)"""
        i, k = self.shard
        for idx, x in enumerate(items):
            if idx % k == i:
                yield x

    def setup(self) -> None:
        pass

    def gen(self, rng: random.Random, n: int) -> Iterable[Any]:
        raise NotImplementedError

    def impl(self, case: Any) -> Any:
        raise NotImplementedError

    def model(self, case: Any) -> str | None:
        return None

    def expect(self, case: Any, out: str) -> Any:
        return out

    def oracle(self, case: Any, obs: Any) -> tuple[str, str] | None:
        return None

    def key(self, case: Any, obs: Any) -> str | None:
        return json.dumps(obs, sort_keys=True, default=str)[:60]

    def same(self, expected: Any, obs: Any) -> bool:
        return expected == obs

    def shrink(self, case: Any, bad: Callable[[Any], bool]) -> Any:
        return case


@dataclass
class FamResult:
    name: str
    cases: int = 0
    distinct: set = field(default_factory=set)
    distribution: dict = field(default_factory=dict)
    disagreements: list = field(default_factory=list)
    oracle_failures: list = field(default_factory=list)
    samples: list = field(default_factory=list)
    model_cases: int = 0
    errors: list = field(default_factory=list)

    def merge(self, o: "FamResult") -> None:
        self.cases += o.cases
        self.model_cases += o.model_cases
        self.distinct |= o.distinct
        for k, v in o.distribution.items():
            self.distribution[k] = self.distribution.get(k, 0) + v
        self.disagreements += o.disagreements
        self.oracle_failures += o.oracle_failures
        self.errors += o.errors
        if getattr(o, "retried", 0):
            self.retried = getattr(self, "retried", 0) + o.retried
        if len(self.samples) < 4:
            self.samples += o.samples[: 4 - len(self.samples)]


def case_digest(case: Any) -> str:
    return hashlib.sha1(json.dumps(case, sort_keys=True, default=str).encode()).hexdigest()[:16]


class CaseTimeout(Exception):
    pass


def _with_watchdog(fam: "Family", c):
    """impl(c) under a wall-clock limit: code under test that never finishes (a future nobody resolves, a loop that spins) must
    cost one case, not the check.  SIGALRM in the worker's main thread; 120 s for virtual-clock families, 300 s for wall-clock ones."""
    import signal

    limit = float(os.environ.get("NAUYACA_CASE_TIMEOUT", "0") or 0) or (300.0 if getattr(fam, "realtime", False) else 120.0)
    if not hasattr(signal, "setitimer") or threading.current_thread() is not threading.main_thread():
        return fam.impl(c)

    def _alarm(_sig, _frm):
        raise CaseTimeout(f"the case did not finish within {limit:.0f} s")

    old = signal.signal(signal.SIGALRM, _alarm)
    signal.setitimer(signal.ITIMER_REAL, limit)
    try:
        return fam.impl(c)
    finally:
        signal.setitimer(signal.ITIMER_REAL, 0)
        signal.signal(signal.SIGALRM, old)


def run_family(fam: Family, cases: list[Any], use_model: bool = True) -> FamResult:
    """Run impl (+ oracle) on every case, then the model in one driver batch, and diff."""
    res = FamResult(fam.name)
    fam.setup()
    obs = []
    for c in cases:
        if getattr(fam, "realtime", False) and len(res.oracle_failures) >= 3:
            # three reproduced failures on the wall clock are a verdict; a tree that makes connections hang would otherwise cost a
            # timeout per remaining case
            obs.append(None)
            continue
        try:
            o = _with_watchdog(fam, c)
        except (Exception, asyncio.CancelledError) as e:  # harness failure, not a verdict
            import traceback

            res.errors.append({"case": c, "error": f"{type(e).__name__}: {e}", "tb": traceback.format_exc()[-1500:]})
            obs.append(None)
            continue
        v = fam.oracle(c, o)
        if v is not None and getattr(fam, "realtime", False):
            # families that run on the wall clock (loopback sockets, threads): a verdict that does not reproduce when the very
            # same case is run again, alone, was produced by the machine being busy, not by the code; a defect reproduces
            import time as _time

            for attempt in range(1):          # one re-run: two failures in a row are reported
                _time.sleep(0.5)
                try:
                    o2 = fam.impl(c)
                except Exception:  # noqa: BLE001
                    break
                v2 = fam.oracle(c, o2)
                res.retried = getattr(res, "retried", 0) + 1
                if v2 is None:
                    o, v = o2, None
                    break
        obs.append(o)
        res.cases += 1
        k = fam.key(c, o)
        if k is not None:
            res.distribution[k] = res.distribution.get(k, 0) + 1
            res.distinct.add(case_digest(c))
        if v is not None:
            res.oracle_failures.append({"family": fam.name, "case": c, "impl": o, "signature": v[0], "why": v[1]})
        if len(res.samples) < 3 and k is not None:
            res.samples.append({"family": fam.name, "case": c, "impl": o})
    if use_model:
        idx, lines = [], []
        for i, c in enumerate(cases):
            if obs[i] is None:
                continue
            l = fam.model_obs(c, obs[i]) if getattr(fam, "model_from_obs", False) else fam.model(c)
            if l is not None:
                idx.append(i)
                lines.append(l)
        if lines:
            outs = Driver().ask(lines)
            res.model_cases = len(lines)
            for i, out in zip(idx, outs):
                exp = fam.expect(cases[i], out)
                if not fam.same(exp, obs[i]):
                    res.disagreements.append({"family": fam.name, "case": cases[i], "model": exp, "impl": obs[i], "driver_line": lines[idx.index(i)][:400]})
    return res


def _shard(args):
    modname, famname, seed, n, use_model, corpus = args[:6]
    setup_import_path()
    import importlib

    mod = importlib.import_module(modname)
    fam = next(f for f in mod.FAMILIES if f.name == famname)
    # deterministic enumerations inside gen() take every k-th element: see Family.share
    fam.shard = args[6] if len(args) > 6 else (0, 1)
    rng = random.Random(f"{famname}:{seed}")
    cases = list(corpus) + list(fam.gen(rng, n))
    return run_family(fam, cases, use_model)


def run_family_sharded(modname: str, fam: Family, seed: int, n: int, shards: int, use_model: bool, corpus: list[Any]) -> FamResult:
    import multiprocessing as mp

    if shards <= 1 or not fam.parallel:
        return _shard((modname, fam.name, seed, n, use_model, corpus))
    per = max(1, n // shards)
    jobs = [(modname, fam.name, seed * 1000 + i, per, use_model, corpus if i == 0 else [], (i, shards)) for i in range(shards)]
    ctx = mp.get_context("fork")
    pool = ctx.Pool(min(shards, 16))
    try:
        parts = pool.map(_shard, jobs)
    finally:
        # close + join (not the context manager's terminate): the workers leave through multiprocessing's exit function and run their
        # clean-up (core.at_exit / core.mkdtemp: scratch directories, scripted peers)
        pool.close()
        pool.join()
    total = FamResult(fam.name)
    for p in parts:
        total.merge(p)
    return total


# ----------------------------------------------------------------------------
# Known findings
# ----------------------------------------------------------------------------
def load_known(pid: str) -> list[dict]:
    f = VERIF / "known_findings.json"
    if not f.exists():
        return []
    data = json.loads(f.read_text())
    return [k for k in data.get("findings", []) if k.get("property") == pid]


def is_known(failure: dict, known: list[dict]) -> dict | None:
    for k in known:
        if k.get("signature") == failure.get("signature"):
            return k
    return None


def lean_item(name: str, typ: str, value: str | None) -> str:
    """A generated constant `Gen.<name>` plus the flag `Gen.<name>_found`.  When the extractor did not find the item the
    constant gets a sentinel (0 / false / []) so that every model and the driver still BUILD - only the tie theorems that
    mention the item (and assert `<name>_found = true` where the sentinel could be mistaken for the expected value) fail,
    i.e. only the properties that rest on it are disturbed."""
    sentinel = {"Nat": "0", "Bool": "false"}.get(typ, "[]")
    if value is None:
        return f"def {name} : {typ} := {sentinel}   -- NOT FOUND in the current source\ndef {name}_found : Bool := false"
    return f"def {name} : {typ} := {value}\ndef {name}_found : Bool := true"


def at_exit(fn, *args) -> None:
    """run fn(*args) when this process ends - also in multiprocessing pool workers, which never run `atexit` handlers
    (they leave through multiprocessing's own exit function, which runs `util.Finalize` callbacks)"""
    import atexit
    import multiprocessing.util as mpu

    done = []

    def once():
        if not done:
            done.append(1)
            try:
                fn(*args)
            except Exception:  # noqa: BLE001
                pass

    atexit.register(once)
    mpu.Finalize(None, once, exitpriority=5)


def mkdtemp(prefix: str) -> str:
    """a scratch directory under the system temp dir that is removed when the process (worker or main) ends"""
    import shutil
    import tempfile

    d = tempfile.mkdtemp(prefix=prefix)
    at_exit(shutil.rmtree, d, True)
    return d
