import NauyacaVerif.Gen.Fn.Consume
import NauyacaVerif.Mw.Bucket

/-! Translated function = hand-written model.  `Gen/Fn/Consume.lean` is produced on every run by `harness/translate.py` from the Python
AST of the CURRENT source tree; the theorems here prove the generated definition equal to the hand-written model the property theorems
are about.  An edit that changes what the function computes changes the generated definition and breaks the theorem; an edit that
leaves the translator's subset removes the definition and the theorem no longer elaborates.  One file per function, so that a change to
one function touches only the properties that rest on it. -/
namespace NauyacaVerif.Translated
open NauyacaVerif.Gen

/-- `TokenBucket.consume` (translated) is the model's `Mw.consume` for one token -/
theorem consume_eq (c : Mw.LCfg) (b : Mw.Bucket) (now : Rat) :
    let r := Fn.consume ⟨c.cap, c.rate, b.tokens, b.last⟩ now 1
    (r.1.tokens, r.1.last_update, r.2) = ((Mw.consume c b now).1.tokens, (Mw.consume c b now).1.last, (Mw.consume c b now).2) := by
  simp only [Fn.consume, Mw.consume, Mw.Bucket.level]
  split <;> simp_all

/-- … and it never touches capacity or refill rate -/
theorem consume_frame (s : Fn.BucketSt) (now k : Rat) :
    (Fn.consume s now k).1.capacity = s.capacity ∧ (Fn.consume s now k).1.refill_rate = s.refill_rate := by
  simp only [Fn.consume]; split <;> simp

end NauyacaVerif.Translated
