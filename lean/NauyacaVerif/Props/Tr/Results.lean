import NauyacaVerif.Gen.Fn.HandleHandlerResult
import NauyacaVerif.Gen.Fn.HandleUploadResult
import NauyacaVerif.Props.Tr.Dispatch
set_option linter.unusedSimpArgs false
set_option linter.unusedVariables false
/-!
The two done-callbacks of a deferred handler — `_handle_async_handler_result` and `_handle_titan_upload_result`, TRANSLATED
(regenerated from the current source on every run) — are the model's `hDone` / `hRaise` and `uDone` / `uRaise` steps: whatever
the task's outcome (a response, an exception, a cancellation — after fix 66c03c5 the handlers catch `CancelledError` too), the
connection is answered exactly once and closed.  Not translated: the `if not response.url` statement (it only fills in a URL for
the access log); a result that is not a response object raises inside the same `try` (at `response.url`, or in
`_send_response` before `_response_sent` is set — fix db3047c) and is the `.error` case here — that step is covered by the
correspondence family `outcomes` of C01, not by this translation.
-/
namespace NauyacaVerif.Translated
open NauyacaVerif.Gen.Fn Srv

/-- the task's outcome as the connection sees it; the error text is an exception message, the model keeps only the status -/
def resEnv (outcome : Except (List Char) Resp) : ResEnv where
  taskResult := outcome
  sendError s code _ := { s with _response_sent := true, timeout_handle := false, m := respondDyn s.m code }
  sendResponse s r := { s with _response_sent := (respond s.m r).sent, m := respond s.m r }

def hEvent : Except (List Char) Resp → Ev
  | .error _ => .hRaise
  | .ok r => .hDone r

def uEvent : Except (List Char) Resp → Ev
  | .error _ => .uRaise
  | .ok r => .uDone r

/-- C01 on the translated code: the callback of a deferred Gemini handler is the model's `hDone` / `hRaise` step -/
theorem handleHandlerResult_eq (cfg : Cfg) (outcome : Except (List Char) Resp) (s : PState) (hph : s.m.phase = .hPend) :
    (handleHandlerResult (resEnv outcome) s).1.m = step cfg s.m (hEvent outcome) := by
  unfold handleHandlerResult
  rcases outcome with e | r <;> simp [resEnv, hEvent, step, hph]

/-- … and the callback of an upload handler the `uDone` / `uRaise` step -/
theorem handleUploadResult_eq (cfg : Cfg) (outcome : Except (List Char) Resp) (s : PState) (hph : s.m.phase = .uPend) :
    (handleUploadResult (resEnv outcome) s).1.m = step cfg s.m (uEvent outcome) := by
  unfold handleUploadResult
  rcases outcome with e | r <;> simp [resEnv, uEvent, step, hph]

/-- whatever the outcome, a pending connection that is still there is answered and closed by the callback -/
theorem handler_result_answers (cfg : Cfg) (outcome : Except (List Char) Resp) (s : PState) (hph : s.m.phase = .hPend)
    (hl : s.m.lost = false) :
    (handleHandlerResult (resEnv outcome) s).1.m.sent = true ∧ (handleHandlerResult (resEnv outcome) s).1.m.phase = .done := by
  rw [handleHandlerResult_eq cfg outcome s hph]
  rcases outcome with e | r <;> simp [hEvent, step, hph, respond, respondDyn, respondWith, hl] <;> split <;> simp_all
end NauyacaVerif.Translated
