"""Virtual clock for the rate-limiter check (C10).

* `VLoop` — a selector event loop whose `time()` is a variable; timers (the clean-up task's
  `asyncio.sleep(300)`) become due when the harness moves the clock.
* `patched_time(loop)` — replaces the name `time` inside `nauyaca.server.middleware` by a shim whose
  `monotonic()` reads the loop's virtual clock (`time()` is a wall clock running backwards: the limiter
  must not depend on it); everything else is the real module.
* `run_history(...)` — feeds an arrival history to a REAL `RateLimiter` whose REAL clean-up task is
  running, firing every due clean-up wake-up at its own time, and returns decisions, refusal lines
  and the times at which clean-up passes ran.

Times are integers in units of 1/8 s (floats on that grid are exact).
"""
from __future__ import annotations

import asyncio
import contextlib
import time as _real_time
import types


class VLoop(asyncio.SelectorEventLoop):
    def __init__(self):
        super().__init__()
        self.vt = 0.0

    def time(self):
        return self.vt


@contextlib.contextmanager
def patched_time(clock):
    """clock: zero-argument callable returning the virtual time (float seconds)"""
    import nauyaca.server.middleware as mwm

    shim = types.ModuleType("time")
    shim.__dict__.update({k: v for k, v in _real_time.__dict__.items() if not k.startswith("__")})
    shim.monotonic = clock
    # wall-clock time is NOT a valid source for the limiter (it can jump): give it a clock that runs backwards,
    # so that an implementation reading time.time() disagrees with the model and trips the oracles
    shim.time = lambda: 1.7e9 - clock()
    shim.perf_counter = clock
    shim.monotonic_ns = lambda: int(clock() * 1e9)
    old = mwm.time
    mwm.time = shim
    try:
        yield
    finally:
        mwm.time = old


def next_timer(loop):
    whens = [h.when() for h in loop._scheduled if not h.cancelled()]
    return min(whens) if whens else None


async def settle(n=3):
    for _ in range(n):
        await asyncio.sleep(0)


async def run_history(loop: VLoop, cap: int, rate: float, retry: int, t0_8: int, batches, tie_req_first: bool, start_cleanup: bool = True):
    """batches: list of (t8, [(ip, url, fingerprint), ...]) with non-decreasing t8 (relative to t0);
    a batch with more than one request is launched with asyncio.gather.
    Returns (decisions per request in order, refusal lines, clean-up times (t8, relative), trace) where
    trace lists ('c', t8) and ('r', ip, t8) in the order things happened."""
    from nauyaca.server.middleware import RateLimitConfig, RateLimiter

    loop.vt = t0_8 / 8
    rl = RateLimiter(RateLimitConfig(capacity=cap, refill_rate=rate, retry_after=retry))
    if start_cleanup:
        rl.start()
    await settle(2)
    dec, lines, cleanups, trace = [], [], [], []
    armed = [next_timer(loop)]  # the pending wake-up of the clean-up task (None: not running)

    def poll():
        """a clean-up pass shows as the task re-arming its sleep; it ran at the instant the old timer was due
        (the harness never lets the clock pass a due timer)"""
        w = next_timer(loop)
        if w != armed[0]:
            if armed[0] is not None:
                c8 = armed[0] * 8 - t0_8
                cleanups.append(int(c8) if c8 == int(c8) else c8)
                trace.append(("c", cleanups[-1]))
            armed[0] = w

    for t8, reqs in batches:
        target = (t0_8 + t8) / 8
        while True:
            nxt = next_timer(loop)
            if nxt is not None and (nxt < target or (nxt == target and not tie_req_first)):
                loop.vt = max(loop.vt, nxt)
                await settle(4)
                poll()
            else:
                break
        loop.vt = target
        # no await before the requests: a timer due exactly now must not fire first when `tie_req_first`
        if len(reqs) == 1:
            ip, url, fp = reqs[0]
            results = [await rl.process_request(url, ip, fp)]
        else:
            results = await asyncio.gather(*[rl.process_request(url, ip, fp) for ip, url, fp in reqs])
        for (ip, _, _), (ok, line) in zip(reqs, results):
            dec.append(bool(ok))
            trace.append(("r", ip, t8))
            if not ok:
                lines.append(line)
            elif line is not None:
                lines.append(["admitted-with-line", line])
        if len(reqs) > 1:
            await settle(3)  # gather yielded to the loop: let a pass that became due at this instant finish
            poll()
    await rl.stop()
    return dec, lines, cleanups, trace
