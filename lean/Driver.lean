import NauyacaVerif.Drv.Common
import NauyacaVerif.Drv.UrlD
import NauyacaVerif.Drv.SrvD
import NauyacaVerif.Drv.MwD
import NauyacaVerif.Drv.FsD
import NauyacaVerif.Drv.ClD
import NauyacaVerif.Drv.CertD
import NauyacaVerif.Drv.UploadD
import NauyacaVerif.Drv.TofuD
import NauyacaVerif.Drv.SessD
import NauyacaVerif.Drv.ClientD
import NauyacaVerif.Drv.ProxyD
import NauyacaVerif.Drv.PumpD

/-! Line-protocol driver: one case per line in, one canonical line out.
    The first word selects the model.  Never defaults an unparseable case. -/

open NauyacaVerif.Drv

def handlers : List (List String → Option String) :=
  [UrlD.handle, SrvD.handle, MwD.handle, FsD.handle, ClD.handle, CertD.handle, UploadD.handle,
   TofuD.handle, SessD.handle, ClientD.handle, ProxyD.handle, PumpD.handle]

def dispatch (ws : List String) : String :=
  match handlers.findSome? (fun h => h ws) with
  | some out => out
  | none => "bad-op"

partial def loop (h : IO.FS.Stream) : IO Unit := do
  let line ← h.getLine
  if line.isEmpty then return ()
  let l := (line.splitOn "\n").headD ""
  IO.println (dispatch (if l.contains '\t' then l.splitOn "\t" else l.splitOn " "))
  loop h

def main : IO Unit := do loop (← IO.getStdin)
