"""The server's start-up paths in a process whose OpenSSL POLICY does not refuse old protocol versions (C20).

Why.  On a machine with OpenSSL 3's default policy (security level 2) TLS 1.0 / 1.1 cannot be negotiated whatever a
context says, so a TLS 1.2 floor that nauyaca LOSES on some start-up path is masked in every handshake test.  The floor is
nauyaca's own duty exactly on the machines whose administrators have installed the well-known "legacy interop" policy file
(`MinProtocol = TLSv1`, `CipherString = DEFAULT:@SECLEVEL=0`).  Such a machine is simulated the way those administrators make
one: `OPENSSL_CONF` points at that file - which only works for a NEW process, because libssl reads its configuration once.

What.  `run(case)` starts `python -m harness.sim.tls_policy` with that environment, hands it the case and reads back the
observation.  The child runs the LIVES of the case one after the other IN ONE PROCESS - a server that is started, probed,
stopped and dropped; then the next one: a restart after a configuration change or a certificate renewal, an embedding
application, a test-suite.  A life is brought up through one of

    "api"     start_server(ServerConfig(...), certificate_auth_config=...)             (tls_startup.Started)
    "cli"     nauyaca serve --config <toml>                                            (tls_startup.Started)
    "toml"    start_server(ServerConfig.from_toml(<toml>), ...)                        (tls_startup.Started)
    "manual"  context builder of the working tree + protocol classes wired by hand:
              loop.create_server(lambda: GeminiServerProtocol(h), ssl=<stdlib context>) or
              loop.create_server(lambda: TLSServerProtocol(lambda: GeminiServerProtocol(h), <PyOpenSSL context>))

with an auto-generated certificate or a supplied one in PEM / DER / mixed encoding, with or without a request for client
certificates.  NOTHING of the context or of the protocol factory is touched before or between the probes: the listener is
exactly what the start-up path built (a PyOpenSSL listener is never asked for its context: calling the protocol factory is what
the first connection does).  Probes are plain blocking clients (security level 0, a version range, optionally a client
certificate) over loopback sockets, and one plaintext request.  A stdlib listener is additionally probed after ITS context's
cipher string was replaced by `ALL:@SECLEVEL=0`: Python's ssl module writes a security level into every context it creates, which
overrides the policy file (SSLContext allows that change on a live context; PyOpenSSL contexts are left alone).

Controls, in the same child: a bare PyOpenSSL server context and a bare stdlib one with the same kind of certificate and NO minimum
version, served by the same kind of loop, must complete TLS 1.0 under the policy - otherwise a refusal seen at a listener says nothing
about nauyaca (the case is then inconclusive: `run` raises).
"""
from __future__ import annotations

import asyncio
import contextlib
import gc
import io
import json
import os
import shutil
import socket
import subprocess
import sys
import tempfile
import threading
from pathlib import Path

POLICY_CNF = (
    "openssl_conf = openssl_init\n\n[openssl_init]\nssl_conf = ssl_sect\n\n"
    "[ssl_sect]\nsystem_default = system_default_sect\n\n"
    "[system_default_sect]\nMinProtocol = TLSv1\nCipherString = DEFAULT:@SECLEVEL=0\n"
)
POLICY_TEXT = "MinProtocol = TLSv1, CipherString = DEFAULT:@SECLEVEL=0"
MARK = "\nNV-POLICY-OBS "
ENTRIES = ("api", "cli", "toml", "manual")


def policy_file() -> str:
    """the policy file, in a fixed scratch directory (pool workers are terminated without exit handlers: a directory per
    process would stay behind)"""
    d = os.path.join(tempfile.gettempdir(), "nv-c20policy")
    os.makedirs(d, exist_ok=True)
    path = os.path.join(d, "openssl.cnf")
    try:
        if Path(path).read_text() == POLICY_CNF:
            return path
    except OSError:
        pass
    tmp = f"{path}.{os.getpid()}"
    Path(tmp).write_text(POLICY_CNF)
    os.replace(tmp, path)
    return path


def run(case: dict, timeout: float = 240.0) -> dict:
    """the observation of `case` made by a child process that lives under the permissive policy"""
    from .. import core

    env = dict(os.environ, OPENSSL_CONF=policy_file(), NAUYACA_REPO=str(core.REPO), PYTHONPATH=str(core.VERIF), PYTHONWARNINGS="ignore", PYTHONHASHSEED="0")
    env.pop("OPENSSL_MODULES", None)
    p = subprocess.run([sys.executable, "-m", "harness.sim.tls_policy"], input=json.dumps(case).encode(), cwd=str(core.VERIF), env=env,
                       stdout=subprocess.PIPE, stderr=subprocess.PIPE, timeout=timeout)
    out = p.stdout.decode("utf-8", "replace")
    if MARK not in out:
        raise RuntimeError(f"the policy child gave no observation (exit {p.returncode}): {p.stderr.decode('utf-8', 'replace')[-800:]}")
    obs = json.loads(out.rsplit(MARK, 1)[1].strip().splitlines()[0])
    ctrl = obs.get("control", {})
    if ctrl.get("pyo") != "tls10":
        raise RuntimeError(f"inconclusive: under OPENSSL_CONF={POLICY_TEXT!r} a bare PyOpenSSL server context without minimum version negotiates "
                           f"{ctrl.get('pyo')!r} (not tls10) with a TLS 1.0 client; a refusal by nauyaca's listener would say nothing")
    if ctrl.get("std_level0") != "tls10":
        raise RuntimeError(f"inconclusive: a bare stdlib server context (minimum version lowered, ALL:@SECLEVEL=0) negotiates {ctrl.get('std_level0')!r} with a TLS 1.0 client")
    for i, lf in enumerate(obs.get("lives", [])):
        if str(lf.get("error") or "").startswith("harness:"):
            raise RuntimeError(f"life {i + 1} could not be run: {lf['error']} {lf.get('tb', '')}")
    return obs


# ------------------------------------------------------------------------------------------------
# everything below runs in the child
# ------------------------------------------------------------------------------------------------
class Manual:
    """Context builder + protocol classes wired by hand (what unit tests, harnesses and embedding applications do), served by a
    loop in a background thread.  `backend` "std" | "pyo"; cert "auto" (the self-signed builders of server.server) or supplied files."""

    def __init__(self, backend: str, cf: str | None, kf: str | None, rcc: bool, log: dict):
        self.backend, self.cf, self.kf, self.rcc, self.log = backend, cf, kf, rcc, log
        self.started = False
        self.error: str | None = None
        self.port: int | None = None
        self.ctx = None
        self.loop: asyncio.AbstractEventLoop | None = None
        self.ready = threading.Event()
        self.thread: threading.Thread | None = None
        self._exc: BaseException | None = None

    def _build(self):
        from nauyaca.server import server as S

        if self.backend == "std":
            if self.cf is None:
                return S._create_self_signed_context(request_client_cert=self.rcc)
            from nauyaca.security.tls import create_server_context

            return create_server_context(self.cf, self.kf, request_client_cert=self.rcc)
        if self.cf is None:
            return S._create_self_signed_pyopenssl_context()
        from nauyaca.security.pyopenssl_tls import create_pyopenssl_server_context

        return create_pyopenssl_server_context(self.cf, self.kf, request_client_cert=self.rcc)

    async def _main(self):
        from nauyaca.protocol.response import GeminiResponse
        from nauyaca.server.protocol import GeminiServerProtocol

        log = self.log

        def handler(request):
            log["h"] = log.get("h", 0) + 1
            return GeminiResponse(20, "text/gemini", "# REACHED-HANDLER\n")

        loop = asyncio.get_running_loop()
        ctx = self._build()
        self.ctx = ctx if self.backend == "std" else None    # (a PyOpenSSL context is not kept: the listener owns it)
        if self.backend == "std":
            server = await loop.create_server(lambda: GeminiServerProtocol(handler, None), "127.0.0.1", 0, ssl=ctx)
        else:
            from nauyaca.server.tls_protocol import TLSServerProtocol

            server = await loop.create_server(lambda: TLSServerProtocol(lambda: GeminiServerProtocol(handler, None), ctx), "127.0.0.1", 0)
        self.port = server.sockets[0].getsockname()[1]
        self.started = True
        self.ready.set()
        async with server:
            await server.serve_forever()

    def _run(self):
        loop = asyncio.new_event_loop()
        loop.set_exception_handler(lambda _l, _c: None)
        asyncio.set_event_loop(loop)
        self.loop = loop
        try:
            loop.run_until_complete(loop.create_task(self._main()))
        except asyncio.CancelledError:
            pass
        except BaseException as e:  # noqa: BLE001
            self._exc = e
        finally:
            from .tls_startup import Started

            Started._drain(loop)
            self.ready.set()

    def __enter__(self):
        from . import tls_startup

        d = tempfile.mkdtemp(prefix="nv-")
        old_tmp, tempfile.tempdir = tempfile.tempdir, d       # the self-signed builders drop their files into tempfile.tempdir
        self._d = d
        self.thread = threading.Thread(target=self._run, daemon=True)
        old_out = sys.stdout
        sys.stdout = io.StringIO()
        try:
            self.thread.start()
            ok = self.ready.wait(30)
        finally:
            sys.stdout = old_out
            tempfile.tempdir = old_tmp
        if not ok:
            self.__exit__(None, None, None)
            raise RuntimeError("the hand-wired server neither started nor failed within 30 s")
        if not self.started:
            self.error = tls_startup._errclass(self._exc)
        return self

    backend_name = property(lambda self: self.backend if self.started else "-")

    def __exit__(self, *a):
        if self.thread is not None and self.thread.is_alive() and self.loop is not None:
            loop = self.loop

            def stop():
                for t in asyncio.all_tasks(loop):
                    t.cancel()
            with contextlib.suppress(RuntimeError):
                loop.call_soon_threadsafe(stop)
        if self.thread is not None:
            self.thread.join(10)
        shutil.rmtree(self._d, ignore_errors=True)
        self._exc = None
        return False


def _control() -> dict:
    """what bare contexts WITHOUT a minimum version negotiate with a TLS 1.0 client in this process (memory BIOs)"""
    from . import tls_peer, tls_startup

    out = {}
    pems = tls_startup.server_cert("rsa2048")
    with tls_peer.cert_files(pems) as (_d, cf, kf):
        import ssl

        from OpenSSL import SSL, crypto

        def shake(server_end) -> str:
            r = tls_peer.handshake(tls_peer.StdEnd(tls_peer.peer_client_ctx(1, 1, True), False), server_end)
            return "none" if r["v"] is None else tls_peer.VERS[r["v"]]

        try:
            c = SSL.Context(SSL.TLS_SERVER_METHOD)           # nothing but the certificate: version range and level are the policy's
            c.use_certificate_file(cf, crypto.FILETYPE_PEM)
            c.use_privatekey_file(kf, crypto.FILETYPE_PEM)
            out["pyo"] = shake(tls_peer.PyoEnd(c))
            f = SSL.Context(SSL.TLS_SERVER_METHOD)           # ... and the same with a TLS 1.2 floor: the floor is what refuses
            f.set_min_proto_version(SSL.TLS1_2_VERSION)
            f.use_certificate_file(cf, crypto.FILETYPE_PEM)
            f.use_privatekey_file(kf, crypto.FILETYPE_PEM)
            out["pyo_floor"] = shake(tls_peer.PyoEnd(f))
        except Exception as e:  # noqa: BLE001
            out.setdefault("pyo", "error:" + type(e).__name__)
        try:
            s = ssl.SSLContext(ssl.PROTOCOL_TLS_SERVER)
            s.minimum_version = ssl.TLSVersion.MINIMUM_SUPPORTED
            s.load_cert_chain(cf, kf)
            out["std"] = shake(tls_peer.StdEnd(s, True))     # (Python's own cipher string carries a security level: usually refused)
            s.set_ciphers(tls_peer.PERMISSIVE)
            out["std_level0"] = shake(tls_peer.StdEnd(s, True))
        except Exception as e:  # noqa: BLE001
            out.setdefault("std_level0", "error:" + type(e).__name__)
    return out


_CC: dict = {}


def _client_cert(d: str) -> tuple[str, str]:
    from . import tls_peer

    if "pems" not in _CC:
        _CC["pems"] = tls_peer.make_cert("client")
    cf, kf = os.path.join(d, ".cc.pem"), os.path.join(d, ".ck.pem")
    if not os.path.exists(cf):
        Path(cf).write_bytes(_CC["pems"][0])
        Path(kf).write_bytes(_CC["pems"][1])
    return cf, kf


def _probe(port: int, p: dict, root: str, calls: dict) -> dict:
    import re

    from . import tls_live, tls_peer

    before = calls.get("h", 0)
    if p["kind"] == "plain":
        r = tls_live.plaintext_probe(port, [bytes.fromhex(c) for c in p["chunks"]], wait=0.3)
        got = r["got"]
        o = {"end": r["end"], "out_len": len(got), "out_tls": tls_peer.looks_like_tls(got), "out_head": got[:24].hex(),
             "gemini_like": bool(re.match(rb"[1-6][0-9][ \r]", got) or b"REACHED-HANDLER" in got)}
    else:
        buf: list[bytes] = []
        try:
            ctx = tls_peer.peer_client_ctx(p["lo"], p["hi"], True, _client_cert(root) if p.get("cc") else None)
            r = tls_live.tls_fetch(port, b"gemini://localhost/\r\n", ctx=ctx, timeout=5, sink=buf.append)
        except (OSError, ValueError) as e:
            r = {"eof": "error:" + type(e).__name__, "version": None}
        o = {"end": r["eof"].split(":")[0], "version": r["version"], "resp": b"".join(buf)[:2].decode("latin1")}
    o["h"] = calls.get("h", 0) - before
    return o


def _life(life: dict) -> dict:
    """one life of the server: start, probe, stop, drop"""
    from nauyaca.server import handler as H

    from . import tls_paths, tls_startup

    root = tempfile.mkdtemp(prefix="nv-")
    (Path(root) / "index.gmi").write_text("# REACHED-HANDLER\n")
    calls: dict = {"h": 0}
    orig = H.StaticFileHandler.handle

    def counting(self_, request):
        calls["h"] += 1
        return orig(self_, request)

    H.StaticFileHandler.handle = counting
    obs = {"started": False, "error": None, "listener": "-", "probes": [], "level0": None}
    certdir = None
    try:
        if life["entry"] == "manual":
            cf = kf = None
            if life["cert"] != "auto":
                pems = tls_startup.server_cert(life["cert"])
                if pems is None:
                    obs["error"] = "certificate-uncreatable"
                    return obs
                certdir = tempfile.mkdtemp(prefix="nv-")
                cf, kf = tls_startup.write_cert_files(certdir, pems, life.get("enc", "pem"))
            cm = Manual(life["backend"], cf, kf, life["rcc"], calls)
        else:
            cm = tls_startup.Started(life["entry"], life["cert"], life["rcc"], life.get("auth"), root, encoding=life.get("enc", "pem"))
        with cm as srv:
            obs["started"], obs["error"] = srv.started, srv.error
            if not srv.started:
                return obs
            kind = srv.backend_name if life["entry"] == "manual" else ("std" if srv.backend == "std" else "pyo")
            obs["listener"] = kind
            for p in life["probes"]:
                obs["probes"].append(_probe(srv.port, p, root, calls))
            if kind == "std":
                # Python's ssl module gives every SSLContext a cipher string with a security level of its own, which overrides
                # the policy file: take it out on the RUNNING listener's context and offer the old versions again
                ctx = srv.ctx if life["entry"] == "manual" else srv.ssl_arg
                try:
                    obs["min_version"] = str(getattr(ctx.minimum_version, "name", ctx.minimum_version))
                    tls_paths.lower_security_level("std", ctx)
                    obs["level0"] = [_probe(srv.port, p, root, calls) for p in life["probes"] if p["kind"] == "tls" and p["hi"] <= 2]
                except Exception as e:  # noqa: BLE001
                    obs["level0"] = None
                    obs["level0_error"] = type(e).__name__
                del ctx
        del srv, cm
        return obs
    finally:
        H.StaticFileHandler.handle = orig
        shutil.rmtree(root, ignore_errors=True)
        if certdir:
            shutil.rmtree(certdir, ignore_errors=True)


def _child() -> int:
    import warnings

    warnings.simplefilter("ignore")
    real_out = sys.stdout
    case = json.loads(sys.stdin.read())
    from .. import core

    os.environ["NAUYACA_VERIF_QUIETLOG"] = "1"
    core.setup_import_path()
    obs: dict = {"openssl_conf": os.environ.get("OPENSSL_CONF"), "control": _control(), "lives": []}
    for life in case["lives"]:
        try:
            o = _life(life)
        except Exception as e:  # noqa: BLE001  (a harness problem in this life: reported, the parent decides)
            import traceback

            o = {"started": False, "error": "harness:" + type(e).__name__, "listener": "-", "probes": [], "level0": None, "tb": traceback.format_exc()[-600:]}
        obs["lives"].append(o)
        gc.collect()        # a stopped server's objects are garbage from here on, as in any long-running process
    real_out.write(MARK + json.dumps(obs) + "\n")
    real_out.flush()
    return 0


if __name__ == "__main__":
    sys.exit(_child())
