import NauyacaVerif.Misc.TofuHist

/-! # C11  TOFU: nothing is sent to a peer before its certificate is verified

Model: the ordered effect trace of one connection (`Misc.connect`: `connect`, `verify ok?`, `trust`,
`send chunk`*, `await`, `close`) mirrors `GeminiClient._get_single` / `upload` with
`send_on_connect = False`: the protocol object writes nothing in `connection_made`; `send_request()`
(one write for Gemini, request line + content for Titan) is called only after `verify` / `trust`.
`payload : List Nat` stands for those writes — URL, query, Titan parameters incl. token, content.
Parameters: the TLS handshake (everything before `connect` in the trace), SHA-256, X.509 parsing. -/

namespace NauyacaVerif.C11
open Misc

/-- on one connection every `send` follows a successful verification of the same key, and nothing at
    all is sent unless the connection is accepted — for every store, key, certificate and payload -/
theorem send_after_verify (s : Pins) (k : Key) (p : Presented) (pl : List Nat) (r : Nat) (v : Option Key) :
    guarded v (connect s k p pl r).2.2 = true ∧
    ((∀ x, (connect s k p pl r).2.1 ≠ .accepted x) → noSend (connect s k p pl r).2.2 = true) :=
  Misc.send_after_verify s k p pl r v

/-- position form: a `send` at position `i` of the trace of a connection is preceded by a successful
    `verify` of the same key at some `j < i` (with no new `connect` in between) -/
theorem send_position (s : Pins) (k : Key) (p : Presented) (pl : List Nat) (r : Nat) (i : Nat) (k' : Key) (c : Nat)
    (hi : (connect s k p pl r).2.2[i]? = some (.send k' c)) :
    ∃ j, j < i ∧ (connect s k p pl r).2.2[j]? = some (.verify k' true) ∧
      ∀ m, j < m → m < i → ∀ k'', (connect s k p pl r).2.2[m]? ≠ some (.connect k'') := by
  rcases guarded_spec _ none (Misc.send_after_verify s k p pl r none).1 i k' c hi with ⟨h, _⟩ | h
  · cases h
  · exact h

/-- when verification fails (changed or unreadable certificate) the peer has received nothing -/
theorem verify_fail_sends_nothing (s : Pins) (k : Key) (p : Presented) (pl : List Nat) (r : Nat)
    (h : (∃ a b, (connect s k p pl r).2.1 = .changed a b) ∨ (connect s k p pl r).2.1 = .refused) :
    peerReceived (connect s k p pl r).2.2 = [] := by
  apply noSend_peer
  apply (Misc.send_after_verify s k p pl r none).2
  intro x hx
  rcases h with ⟨a, b, h⟩ | h <;> rw [hx] at h <;> cases h

/-- when the pin store fails during the lookup (or while pinning a first use), verification cannot be
    completed: the connection is refused, nothing is sent, the store is untouched -/
theorem store_fault_sends_nothing (s : Pins) (k : Key) :
    (connectStoreFault s k).2.1 = .refused ∧ peerReceived (connectStoreFault s k).2.2 = [] ∧ (connectStoreFault s k).1 = s ∧
    ∀ v, guarded v (connectStoreFault s k).2.2 = true :=
  ⟨rfl, rfl, rfl, fun _ => rfl⟩

/-- when it passes, the peer receives exactly the request, in order -/
theorem accepted_request_intact (s : Pins) (k : Key) (p : Presented) (pl : List Nat) (r x : Nat)
    (h : (connect s k p pl r).2.1 = .accepted x) : peerReceived (connect s k p pl r).2.2 = pl :=
  accepted_payload s k p pl r x h

/-- lifted to histories (single calls, uploads, redirect chains, store operations in between): the
    concatenated effect trace is guarded connection by connection -/
theorem history_guarded (s : Pins) (ops : List Op) (v : Option Key) : guarded v (traceOf (runOps s ops).2) = true :=
  Misc.history_guarded s ops v

/-- … so every `send` anywhere in it follows a successful `verify` of its key on its own connection -/
theorem history_send_position (s : Pins) (ops : List Op) (i : Nat) (k : Key) (c : Nat)
    (hi : (traceOf (runOps s ops).2)[i]? = some (.send k c)) :
    ∃ j, j < i ∧ (traceOf (runOps s ops).2)[j]? = some (.verify k true) ∧
      ∀ m, j < m → m < i → ∀ k', (traceOf (runOps s ops).2)[m]? ≠ some (.connect k') := by
  rcases guarded_spec _ none (Misc.history_guarded s ops none) i k c hi with ⟨h, _⟩ | h
  · cases h
  · exact h

/-- … and a connection of a history that was not accepted (e.g. the redirect hop to a host whose
    certificate changed) delivered nothing to that peer -/
theorem history_fail_silent (s : Pins) (ops : List Op) (r : Rec) (hr : r ∈ (runOps s ops).2)
    (hna : isAccepted r.out = false) : peerReceived r.acts = [] :=
  rec_fail_silent r (runOps_from s ops r hr) hna

/-- the effect trace of a redirect chain is the concatenation of the per-hop traces, each guarded -/
theorem chain_trace (s : Pins) (hops : List Hop) :
    (∀ r ∈ (runChain s hops).2, ∀ v, guarded v r.acts = true) ∧ ∀ v, guarded v (traceOf (runChain s hops).2) = true := by
  refine ⟨fun r hr v => ?_, trace_guarded _ (runChain_from s hops)⟩
  obtain ⟨s', h, rfl⟩ := runChain_from s hops r hr
  exact mkRec_guarded s' h v

/-- through M-Redirect: the trace of a followed fetch is guarded hop by hop -/
theorem redirect_guarded (srv : Cl.Url → Option Site) (max : Nat) (s : Pins) (u : Cl.Url) (v : Option Key) :
    guarded v (traceOf (followT srv max (max + 2) s u []).2.2) = true :=
  followT_guarded srv max _ s u [] v

/-! non-vacuity -/
def kA : Key := (0, 1965)
def kB : Key := (1, 1965)
-- Titan upload (two writes) on first use: both writes come after verify + trust
example : (connect [] kA (.cert 5) [11, 12] 20).2.2 =
    [.connect kA, .verify kA true, .trust kA 5, .send kA 11, .send kA 12, .await, .close] := by decide
-- changed certificate: the trace has no send
example : (connect [(kA, 4)] kA (.cert 5) [11, 12] 20).2.2 = [.connect kA, .verify kA false, .close] := by decide
-- a trace that writes in `connection_made` (the defect) is rejected by `guarded`
example : guarded none [.connect kA, .send kA 11, .verify kA false, .close] = false := by decide
-- redirect chain whose second hop presents a changed certificate: B receives nothing
example : ((runChain [(kA, 1), (kB, 2)] [⟨kA, .cert 1, [7], 30⟩, ⟨kB, .cert 9, [8], 20⟩]).2.map (fun r => peerReceived r.acts)) = [[7], []] := by decide
end NauyacaVerif.C11
