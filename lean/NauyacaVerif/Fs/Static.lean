import NauyacaVerif.Fs.Tree
namespace Fs

/-! ## abstract OS interface used by the handlers (all paths absolute, as components) -/
inductive Kind where | file | dir | other | missing
deriving Repr, DecidableEq

inductive ReadResult where
  | ok (id : Nat)          -- content identified by the file's id
  | notUtf8 | denied | ioError
deriving Repr, DecidableEq

structure OS where
  /-- `Path.resolve()`: none = raised (symlink loop, embedded NUL, name too long) -/
  resolve : Path → Option Path
  /-- `stat`-based kind of a path (follows symlinks) -/
  kind : Path → Kind
  size : Path → Nat
  readText : Path → ReadResult
  /-- `generate_directory_listing`: none = raised -/
  listing : Path → Option (List Name)

structure SCfg where
  root : Path                     -- already resolved document root
  indices : List Name
  listingOn : Bool
  maxSize : Nat

inductive SResp where
  | file (p : Path) (id : Nat)     -- 20 with the content of the file at resolved location p
  | listing (p : Path) (names : List Name)
  | notFound                        -- 51
  | tooLarge                        -- 50
  | tempFail                        -- 40 (encoding, permission, other)
deriving Repr, DecidableEq

def inside (root p : Path) : Bool := root.isPrefixOf p

/-- index lookup in a directory: first index name that is a regular file whose *resolved*
    location is still inside the root (repaired) -/
def findIndex (os : OS) (cfg : SCfg) (dir : Path) : List Name → Option Path
  | [] => none
  | n :: ns =>
    let ip := dir ++ [n]
    if os.kind ip = .file then
      match os.resolve ip with
      | some r => if inside cfg.root r then some r else findIndex os cfg dir ns
      | none => findIndex os cfg dir ns
    else findIndex os cfg dir ns

def serveFile (os : OS) (cfg : SCfg) (p : Path) : SResp :=
  if os.kind p ≠ .file then .notFound
  else if os.size p > cfg.maxSize then .tooLarge
  else match os.readText p with
    | .ok id => .file p id
    | _ => .tempFail

/-- `StaticFileHandler.handle` on the canonical path components -/
def handle (os : OS) (cfg : SCfg) (comps : List Name) : SResp :=
  match os.resolve (cfg.root ++ comps) with
  | none => .notFound
  | some fp =>
    if !inside cfg.root fp then .notFound
    else if os.kind fp = .dir then
      match findIndex os cfg fp cfg.indices with
      | some ip => serveFile os cfg ip
      | none =>
        if cfg.listingOn then
          match os.listing fp with
          | some names => .listing fp names
          | none => .tempFail
        else .notFound
    else serveFile os cfg fp

/-! ### C02 safety: everything delivered was resolved and lies inside the root -/
def Resolved (os : OS) (p : Path) : Prop := ∃ q, os.resolve q = some p

theorem findIndex_inside (os : OS) (cfg : SCfg) (dir : Path) (ns : List Name) (ip : Path)
    (h : findIndex os cfg dir ns = some ip) : inside cfg.root ip = true ∧ Resolved os ip := by
  induction ns with
  | nil => simp [findIndex] at h
  | cons n ns ih =>
    simp only [findIndex] at h
    split at h
    · split at h
      · rename_i r hr
        split at h
        · rename_i hin; simp at h; subst h; exact ⟨hin, _, hr⟩
        · exact ih h
      · exact ih h
    · exact ih h

theorem serveFile_file (os : OS) (cfg : SCfg) (p q : Path) (id : Nat) (h : serveFile os cfg p = .file q id) :
    q = p ∧ os.readText p = .ok id := by
  unfold serveFile at h
  split at h
  · simp at h
  · split at h
    · simp at h
    · split at h
      · simp at h; exact ⟨h.1.symm, by rename_i he; rw [he, h.2]⟩
      · simp at h

/-- C02: a success response carries a file or a listing whose fully resolved location lies
    inside the document root -/
theorem static_contained (os : OS) (cfg : SCfg) (comps : List Name) :
    (∀ p id, handle os cfg comps = .file p id → inside cfg.root p = true ∧ Resolved os p ∧ os.readText p = .ok id) ∧
    (∀ p names, handle os cfg comps = .listing p names → inside cfg.root p = true ∧ Resolved os p) := by
  unfold handle
  constructor
  · intro p id h
    split at h
    · simp at h
    · rename_i fp hfp
      split at h
      · simp at h
      · rename_i hin
        have hin' : inside cfg.root fp = true := by simpa using hin
        split at h
        · split at h
          · rename_i ip hip
            obtain ⟨rfl, hr⟩ := serveFile_file os cfg ip p id h
            have := findIndex_inside os cfg fp cfg.indices _ hip
            exact ⟨this.1, this.2, hr⟩
          · split at h
            · split at h <;> simp at h
            · simp at h
        · obtain ⟨rfl, hr⟩ := serveFile_file os cfg fp p id h
          exact ⟨hin', ⟨_, hfp⟩, hr⟩
  · intro p names h
    split at h
    · simp at h
    · rename_i fp hfp
      split at h
      · simp at h
      · rename_i hin
        have hin' : inside cfg.root fp = true := by simpa using hin
        split at h
        · split at h
          · rename_i ip _
            unfold serveFile at h
            split at h
            · simp at h
            · split at h
              · simp at h
              · split at h <;> simp at h
          · split at h
            · split at h
              · simp at h; exact h.1 ▸ ⟨hin', ⟨_, hfp⟩⟩
              · simp at h
            · simp at h
        · unfold serveFile at h
          split at h
          · simp at h
          · split at h
            · simp at h
            · split at h <;> simp at h
end Fs
