import NauyacaVerif.Gen.Fn.IsRedirect
import NauyacaVerif.Gen.Fn.IsSuccess
import NauyacaVerif.Gen.Fn.RespIsRedirect
import NauyacaVerif.Gen.Fn.RespRedirectUrl
import NauyacaVerif.Cl.Redirect
/-!
The status-class predicates `is_redirect` / `is_success` (protocol/status.py) and the accessors `GeminiResponse.is_redirect` /
`GeminiResponse.redirect_url` (protocol/response.py), TRANSLATED (regenerated from the current source on every run), are what the
model of redirect following - and the translation of `GeminiClient._get_with_redirects`, which took `Cl.isRedirectStatus` and
`Resp.redirectUrl` as given - say they are: a response is a redirect exactly for the codes 30..39 (not 30..40, not 31..39, not
"the first digit is 3" of a longer number), success is exactly 20..29, the two never overlap, and the redirect target is the
meta of a redirect and absent for every other code.
-/
namespace NauyacaVerif.Translated
open NauyacaVerif.Gen.Fn Cl

theorem is_redirect_eq (s : Nat) : isRedirect s = isRedirectStatus s := by
  unfold isRedirect isRedirectStatus; rfl

theorem is_redirect_iff (s : Nat) : isRedirect s = true ↔ 30 ≤ s ∧ s ≤ 39 := by
  unfold isRedirect; simp; omega

theorem is_success_iff (s : Nat) : isSuccess s = true ↔ 20 ≤ s ∧ s ≤ 29 := by
  unfold isSuccess; simp; omega

/-- no status code is both a success (body follows, C13) and a redirect (followed, C16) -/
theorem status_classes_disjoint (s : Nat) : ¬ (isSuccess s = true ∧ isRedirect s = true) := by
  rw [is_success_iff, is_redirect_iff]; omega

/-- the model's response value for a (status, meta) pair: how the driver and the harness build them -/
def respOf (s : Nat) (m : Url) : Resp := if isRedirectStatus s then .redirect s m else .final s

theorem respOf_wf (s : Nat) (m : Url) : (respOf s m).wf = true := by
  unfold respOf; cases h : isRedirectStatus s <;> simp [Resp.wf, h]

theorem respOf_status (s : Nat) (m : Url) : (respOf s m).status = s := by
  unfold respOf; cases h : isRedirectStatus s <;> simp [Resp.status]

/-- every well-formed model response is the value of its (status, meta) pair -/
theorem wf_is_respOf (r : Resp) (h : r.wf = true) : ∃ m, r = respOf r.status m := by
  cases r with
  | final s => exact ⟨[], by simp [Resp.wf] at h; simp [respOf, Resp.status, h]⟩
  | redirect s t => exact ⟨t, by simp [Resp.wf] at h; simp [respOf, Resp.status, h]⟩

/-- `GeminiResponse.redirect_url` composed with `GeminiResponse.is_redirect` and `is_redirect`, all three translated, is the
    accessor `Resp.redirectUrl` the model and the translation of `_get_with_redirects` use -/
theorem resp_redirect_url_eq (s : Nat) (m : Url) :
    respRedirectUrl (respIsRedirect isRedirect s) m = (respOf s m).redirectUrl := by
  unfold respRedirectUrl respIsRedirect respOf
  rw [is_redirect_eq]
  cases h : isRedirectStatus s <;> simp [Resp.redirectUrl]

/-- the target is present exactly for 30..39 and then it is the meta, unchanged -/
theorem resp_redirect_url_iff (s : Nat) (m t : Url) :
    respRedirectUrl (respIsRedirect isRedirect s) m = some t ↔ (30 ≤ s ∧ s ≤ 39) ∧ t = m := by
  unfold respRedirectUrl respIsRedirect
  cases h : isRedirect s
  · have : ¬ (30 ≤ s ∧ s ≤ 39) := by rw [← is_redirect_iff]; simp [h]
    simp [this]
  · have : 30 ≤ s ∧ s ≤ 39 := (is_redirect_iff s).mp h
    simp [this]; exact eq_comm

-- non-vacuity: both classes are inhabited, and a code just outside each is rejected
example : isRedirect 31 = true ∧ isRedirect 40 = false ∧ isRedirect 29 = false ∧ isRedirect 300 = false := by decide
example : isSuccess 20 = true ∧ isSuccess 30 = false ∧ isSuccess 19 = false := by decide
example : respRedirectUrl (respIsRedirect isRedirect 31) "gemini://b/".toList = some "gemini://b/".toList := by decide
end NauyacaVerif.Translated
