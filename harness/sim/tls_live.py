"""Real nauyaca servers on 127.0.0.1 (ephemeral port) for the thorough tiers of C06 / C20.

Two ways to get a server, both with the REAL protocol classes and the REAL context functions:

* `mode="start_server"`: `nauyaca.server.server.start_server(config, ...)` itself runs on a loop
  whose `create_server` swaps host/port for a listening socket prepared here (ephemeral port,
  optionally a shrunk SO_SNDBUF that accepted sockets inherit).  Backend choice, context
  construction, router and static handler are therefore nauyaca's own.
* `mode="factory"`: `loop.create_server` with `GeminiServerProtocol(handler)` + the stdlib context, or
  `TLSServerProtocol(lambda: GeminiServerProtocol(handler), pyopenssl_ctx)`, for handler-produced
  bodies.

The server runs in a background thread with its own event loop; clients are plain blocking sockets.
"""
from __future__ import annotations

import asyncio
import os
import shutil
import socket
import ssl
import tempfile
import threading
import time
from pathlib import Path

from . import tls_peer


class _ListenLoop(asyncio.SelectorEventLoop):
    def __init__(self, sndbuf: int | None):
        super().__init__()
        self.sndbuf = sndbuf
        self.port: int | None = None
        self.ready = threading.Event()
        self.ssl_arg = "unset"
        self.skew = 0.0

    def time(self):
        # the server's clock can be moved forward from outside (a client that stalls for N seconds
        # without the test taking N seconds): every call_later deadline is measured on this clock
        return super().time() + self.skew

    async def create_server(self, protocol_factory, host=None, port=None, *, ssl=None, sock=None, **kw):  # type: ignore[override]
        if sock is None:
            sock = socket.socket(socket.AF_INET, socket.SOCK_STREAM)
            sock.setsockopt(socket.SOL_SOCKET, socket.SO_REUSEADDR, 1)
            if self.sndbuf:
                sock.setsockopt(socket.SOL_SOCKET, socket.SO_SNDBUF, self.sndbuf)
            sock.bind(("127.0.0.1", 0))
        self.ssl_arg = ssl
        srv = await super().create_server(protocol_factory, sock=sock, ssl=ssl, **kw)
        self.port = sock.getsockname()[1]
        self.ready.set()
        return srv


class LiveServer:
    def __init__(self, backend: str, mode: str = "factory", handler=None, supplied: bool = True, docroot: str | None = None,
                 sndbuf: int | None = None, max_file_size: int | None = None):
        assert backend in ("std", "pyo") and mode in ("factory", "start_server")
        self.backend, self.mode, self.handler, self.supplied = backend, mode, handler, supplied
        self.docroot, self.sndbuf, self.max_file_size = docroot, sndbuf, max_file_size
        self.loop: _ListenLoop | None = None
        self.thread: threading.Thread | None = None
        self.task = None
        self.error: BaseException | None = None
        self._tmp: list[str] = []
        self.used_backend: str | None = None

    def advance(self, seconds: float) -> None:
        """Move the server loop's clock forward (thread-safe) and let due timers fire."""
        def bump():
            self.loop.skew += seconds
        self.loop.call_soon_threadsafe(bump)
        time.sleep(0.05)
        self.loop.call_soon_threadsafe(lambda: None)

    # -- server side ------------------------------------------------------------------------
    async def _main_factory(self, cf: str, kf: str):
        from nauyaca.server.protocol import GeminiServerProtocol
        from nauyaca.server.tls_protocol import TLSServerProtocol

        loop = asyncio.get_running_loop()
        if self.backend == "std":
            from nauyaca.security.tls import create_server_context

            ctx = create_server_context(cf, kf)
            try:   # the keyword arguments the real start_server hands to create_server for TLS listeners
                from nauyaca.server.server import _ssl_shutdown_kwargs

                extra = _ssl_shutdown_kwargs()
            except ImportError:
                extra = {}
            server = await loop.create_server(lambda: GeminiServerProtocol(self.handler, None), "127.0.0.1", 0, ssl=ctx, **extra)
        else:
            from nauyaca.security.pyopenssl_tls import create_pyopenssl_server_context

            pctx = create_pyopenssl_server_context(cf, kf, request_client_cert=True)
            server = await loop.create_server(lambda: TLSServerProtocol(lambda: GeminiServerProtocol(self.handler, None), pctx), "127.0.0.1", 0)
        async with server:
            await server.serve_forever()

    async def _main_start_server(self, cf: str | None, kf: str | None):
        from nauyaca.server.config import ServerConfig
        from nauyaca.server.server import start_server

        kw = {}
        if cf:
            kw.update(certfile=cf, keyfile=kf)
        cfg = ServerConfig(host="127.0.0.1", port=1965, document_root=Path(self.docroot), require_client_cert=(self.backend == "pyo"), **kw)
        await start_server(cfg, enable_rate_limiting=False, log_level="CRITICAL", log_file=Path(os.devnull), max_file_size=self.max_file_size)

    def _run(self, cf, kf):
        asyncio.set_event_loop(self.loop)
        try:
            coro = self._main_factory(cf, kf) if self.mode == "factory" else self._main_start_server(cf, kf)
            self.task = self.loop.create_task(coro)
            self.loop.run_until_complete(self.task)
        except asyncio.CancelledError:
            pass
        except BaseException as e:  # noqa: BLE001
            self.error = e
            self.loop.ready.set()
        finally:
            try:
                pending = [t for t in asyncio.all_tasks(self.loop) if not t.done()]
                for t in pending:
                    t.cancel()
                if pending:
                    self.loop.run_until_complete(asyncio.gather(*pending, return_exceptions=True))
                self.loop.run_until_complete(asyncio.sleep(0))
            except BaseException:  # noqa: BLE001
                pass
            self.loop.close()

    def __enter__(self):
        from nauyaca.security.certificates import generate_self_signed_cert

        cf = kf = None
        if self.supplied or self.mode == "factory":
            d = tempfile.mkdtemp(prefix="nv-")
            self._tmp.append(d)
            c, k = generate_self_signed_cert("localhost")
            cf, kf = os.path.join(d, "c.pem"), os.path.join(d, "k.pem")
            Path(cf).write_bytes(c)
            Path(kf).write_bytes(k)
        # nauyaca's self-signed fallbacks drop their files into tempfile.tempdir: point it at our own directory
        d2 = tempfile.mkdtemp(prefix="nv-")
        self._tmp.append(d2)
        self._old_tmp = tempfile.tempdir
        tempfile.tempdir = d2
        self.loop = _ListenLoop(self.sndbuf)
        self.thread = threading.Thread(target=self._run, args=(cf, kf), daemon=True)
        import io
        import sys

        old_stdout = sys.stdout
        sys.stdout = io.StringIO()  # "[Server] WARNING: Using self-signed certificate" prints
        try:
            self.thread.start()
            ok = self.loop.ready.wait(20)
        finally:
            sys.stdout = old_stdout
        tempfile.tempdir = self._old_tmp
        if self.error or not ok:
            self.__exit__(None, None, None)
            raise RuntimeError(f"live server did not start: {self.error!r}")
        self.port = self.loop.port
        self.used_backend = "std" if self.loop.ssl_arg is not None else "pyo"
        return self

    def __exit__(self, *a):
        import structlog

        if self.loop and self.thread and self.thread.is_alive():
            def stop():
                if self.task and not self.task.done():
                    self.task.cancel()
            try:
                self.loop.call_soon_threadsafe(stop)
            except RuntimeError:
                pass
            self.thread.join(10)
        for d in self._tmp:
            shutil.rmtree(d, ignore_errors=True)
        from .. import core as _core

        _core.configure_harness_logging()      # start_server re-configures logging: put the harness configuration back
        return False


# -- client side -------------------------------------------------------------------------------
def connect_raw(port: int, rcvbuf: int | None = None, timeout: float = 20.0) -> socket.socket:
    s = socket.socket(socket.AF_INET, socket.SOCK_STREAM)
    if rcvbuf:
        s.setsockopt(socket.SOL_SOCKET, socket.SO_RCVBUF, rcvbuf)
    s.settimeout(timeout)
    s.connect(("127.0.0.1", port))
    return s


def tls_fetch(port: int, request: bytes, reader: str = "fast", rcvbuf: int | None = None, rng=None, ctx: ssl.SSLContext | None = None,
              timeout: float = 60.0, sink=None, stall=None, stalls: int = 1, after_request=None) -> dict:
    """One request over TLS with a plain blocking client; the response goes to `sink(bytes)`.

    reader: fast (large reads) | slow (1 byte per read, small pauses; larger reads after 60 000 reads)
            | bursty (random read sizes with random pauses)
            | stall (`stalls` times: reads 32 KiB, then does not read while `stall()` lets time pass on the server's
              clock; then reads the rest)
    Returns {'eof': 'clean'|'ragged'|'reset'|'timeout'|'error:<X>', 'version': str|None, 'n': bytes read}.
    """
    ctx = ctx or tls_peer.peer_client_ctx(permissive=False)
    raw = connect_raw(port, rcvbuf, timeout)
    n = 0
    version = None
    try:
        try:
            s = ctx.wrap_socket(raw, server_hostname="localhost", suppress_ragged_eofs=False)
        except (ssl.SSLError, OSError) as e:
            return {"eof": "handshake:" + tls_peer._errkind(e), "version": None, "n": 0}
        version = s.version()
        s.sendall(request)
        if after_request is not None:
            after_request(s)          # e.g. send a stray line in a later TLS record, or let time pass on the server's clock
        reads = 0
        eof = "clean"
        stalled = 0
        t0 = time.time()
        while True:
            try:
                if reader == "stall" and stalled < stalls and n >= 32768 * (stalled + 1):
                    stalled += 1
                    time.sleep(0.3 if stalled == 1 else 0.05)      # let the server fill every buffer on the way
                    if stall:
                        stall()
                    time.sleep(0.4 if stalled == 1 else 0.1)
                if reader == "stall":
                    b = s.recv(8192)
                elif reader == "fast":
                    b = s.recv(262144)
                elif reader == "slow":
                    if reads < 60000:
                        b = s.recv(1)
                        if reads % 2048 == 0:
                            time.sleep(0.002)
                    else:
                        b = s.recv(3001)
                        if reads % 64 == 0:
                            time.sleep(0.001)
                else:
                    r = rng.random()
                    b = s.recv(1 if r < 0.1 else rng.randint(2, 70000))
                    if r > 0.93:
                        time.sleep(rng.random() * 0.01)
            except ssl.SSLZeroReturnError:
                break
            except ssl.SSLEOFError:
                eof = "ragged"
                break
            except ConnectionResetError:
                eof = "reset"
                break
            except socket.timeout:
                eof = "timeout"
                break
            except (ssl.SSLError, OSError) as e:
                eof = "error:" + tls_peer._errkind(e)
                break
            if not b:
                break
            reads += 1
            n += len(b)
            if sink:
                sink(b)
        return {"eof": eof, "version": version, "n": n, "elapsed": round(time.time() - t0, 1)}
    finally:
        try:
            raw.close()
        except OSError:
            pass


def plaintext_probe(port: int, chunks: list[bytes], wait: float = 0.6) -> dict:
    """Send bytes WITHOUT TLS and collect whatever comes back until EOF / reset / `wait` seconds of silence."""
    s = connect_raw(port, timeout=wait)
    got = b""
    end = "open"
    try:
        for c in chunks:
            try:
                s.sendall(c)
            except OSError:
                end = "reset"
                break
            time.sleep(0.01)
        while end == "open":
            try:
                b = s.recv(65536)
            except socket.timeout:
                break
            except ConnectionResetError:
                end = "reset"
                break
            if not b:
                end = "eof"
                break
            got += b
        return {"got": got, "end": end}
    finally:
        s.close()


# -- several clients at the same time against one server (C06) -------------------------------------
def fetch_overlapping(port: int, specs: list[dict], sinks: list, stall=None) -> list[dict]:
    """Run one blocking TLS client per spec, overlapping in time.

    spec: {'path': '/c0', 'reader': fast|slow|bursty|stall|hold|abort, 'rcvbuf': int|None, 'seed': int}
    Clients are started in list order, each once its predecessor has sent its request and seen the first
    response bytes (or 0.5 s later).  A `hold` client stops reading after 32 KiB until every client
    that is not holding has finished, then reads the rest; an `abort` client closes its socket after
    32 KiB (its own download is then incomplete by its own choice) and the remaining clients follow.
    """
    import random as _random

    n = len(specs)
    first = [threading.Event() for _ in range(n)]
    done = [threading.Event() for _ in range(n)]
    results: list[dict] = [{} for _ in range(n)]

    def others_done(i):
        for j, sp in enumerate(specs):
            if j != i and sp["reader"] not in ("hold",):
                done[j].wait(40)

    def run(i):
        sp = specs[i]
        try:
            if i > 0:
                first[i - 1].wait(0.5)
            ctx = tls_peer.peer_client_ctx(permissive=False)
            raw = connect_raw(port, sp.get("rcvbuf"), 60)
            got = 0
            eof = "clean"
            try:
                s = ctx.wrap_socket(raw, server_hostname="localhost", suppress_ragged_eofs=False)
                s.sendall(f"gemini://localhost{sp['path']}\r\n".encode())
                rng = _random.Random(sp.get("seed", 0))
                reads = 0
                paused = False
                while True:
                    mode = sp["reader"]
                    if mode in ("hold", "abort", "stall") and not paused and got >= 32768:
                        paused = True
                        first[i].set()
                        if mode == "abort":
                            eof = "aborted-by-client"
                            break
                        if mode == "hold":
                            others_done(i)
                        else:
                            time.sleep(0.2)
                            if stall:
                                stall()
                            time.sleep(0.2)
                    try:
                        if mode == "slow" and reads < 20000:
                            b = s.recv(1)
                        elif mode == "bursty":
                            b = s.recv(1 if rng.random() < 0.1 else rng.randint(2, 70000))
                            if rng.random() > 0.95:
                                time.sleep(rng.random() * 0.01)
                        else:
                            b = s.recv(65536)
                    except ssl.SSLZeroReturnError:
                        break
                    except ssl.SSLEOFError:
                        eof = "ragged"
                        break
                    except ConnectionResetError:
                        eof = "reset"
                        break
                    except socket.timeout:
                        eof = "timeout"
                        break
                    except (ssl.SSLError, OSError) as e:
                        eof = "error:" + tls_peer._errkind(e)
                        break
                    if not b:
                        break
                    reads += 1
                    got += len(b)
                    sinks[i].add(b)
                    first[i].set()
            finally:
                try:
                    raw.close()
                except OSError:
                    pass
            results[i] = {"eof": eof, "n": got}
        except Exception as e:  # noqa: BLE001
            results[i] = {"eof": "error:" + type(e).__name__, "n": 0}
        finally:
            first[i].set()
            done[i].set()

    threads = [threading.Thread(target=run, args=(i,), daemon=True) for i in range(n)]
    for t in threads:
        t.start()
    for t in threads:
        t.join(90)
    return results


# -- a scripted loopback TLS peer whose offered protocol versions change from step to step (C20) -----
class VersionPeer:
    """Listens on 127.0.0.1:<ephemeral>; every accepted connection is served with the CURRENT step's
    permissive server context (security level 0, versions lo..hi) or reset, and logged:
    {'step': k, 'hs': 'tls11' | 'none:<err>' | 'reset', 'req': <request bytes received after the handshake>}.
    The certificate is the same in every step (the TOFU pin keeps matching)."""

    def __init__(self, certfile: str, keyfile: str):
        self.certfile, self.keyfile = certfile, keyfile
        self.sock = socket.socket(socket.AF_INET, socket.SOCK_STREAM)
        self.sock.setsockopt(socket.SOL_SOCKET, socket.SO_REUSEADDR, 1)
        self.sock.bind(("127.0.0.1", 0))
        self.sock.listen(16)
        self.sock.settimeout(0.2)
        self.port = self.sock.getsockname()[1]
        self.log: list[dict] = []
        self.step = -1
        self.ctx = None
        self.reset_left = 0
        self.stop = False
        self.active = 0
        self.lock = threading.Lock()
        self.thread = threading.Thread(target=self._loop, daemon=True)
        self.thread.start()

    def set_step(self, k: int, lo: int, hi: int, reset_first: bool) -> None:
        with self.lock:
            self.step = k
            self.ctx = tls_peer.peer_server_ctx(self.certfile, self.keyfile, lo, hi, permissive=True)
            self.reset_left = 1 if reset_first else 0

    def _serve(self, conn: socket.socket) -> None:
        with self.lock:
            step, ctx = self.step, self.ctx
            reset = self.reset_left > 0
            if reset:
                self.reset_left -= 1
        entry = {"step": step, "hs": "none", "req": 0}
        self.log.append(entry)
        try:
            conn.settimeout(3)
            if reset:
                try:
                    conn.recv(4096)   # the ClientHello
                except OSError:
                    pass
                import struct

                conn.setsockopt(socket.SOL_SOCKET, socket.SO_LINGER, struct.pack("ii", 1, 0))
                entry["hs"] = "reset"
                conn.close()
                return
            try:
                s = ctx.wrap_socket(conn, server_side=True)
            except (ssl.SSLError, OSError) as e:
                entry["hs"] = "none:" + tls_peer._errkind(e)
                return
            r = tls_peer.rank_of_name(s.version())
            entry["hs"] = tls_peer.VERS[r] if r is not None else "?"
            s.settimeout(0.4)
            buf = b""
            try:
                while b"\r\n" not in buf and len(buf) < 4096:
                    b = s.recv(4096)
                    if not b:
                        break
                    buf += b
            except (ssl.SSLError, OSError):
                pass
            entry["req"] = len(buf)
            try:
                s.sendall(b"20 text/gemini\r\nhello\n")
                s.unwrap()
            except (ssl.SSLError, OSError):
                pass
        finally:
            try:
                conn.close()
            except OSError:
                pass

    def _loop(self) -> None:
        while not self.stop:
            try:
                conn, _ = self.sock.accept()
            except socket.timeout:
                continue
            except OSError:
                break
            self.active += 1
            try:
                self._serve(conn)
            finally:
                self.active -= 1

    def settle(self) -> None:
        """wait until every connection made so far has been served and logged"""
        for _ in range(3):
            t0 = time.time()
            while self.active and time.time() - t0 < 3:
                time.sleep(0.005)
            time.sleep(0.02)

    def close(self) -> None:
        self.stop = True
        self.thread.join(3)
        try:
            self.sock.close()
        except OSError:
            pass
