"""Virtual clock for the rate-limiter check (C10).

* `VLoop` — a selector event loop whose `time()` is a variable; timers (the clean-up task's
  `asyncio.sleep(300)`) become due when the harness moves the clock.
* `patched_time(loop)` — replaces the name `time` inside `nauyaca.server.middleware` by a shim whose
  `monotonic()` reads the loop's virtual clock (`time()` is a wall clock running backwards: the limiter
  must not depend on it); everything else is the real module.
* `run_history(...)` — feeds an arrival history to a REAL `RateLimiter` whose REAL clean-up task is
  running, firing every due clean-up wake-up at its own time, and returns decisions, refusal lines
  and the times at which clean-up passes ran.

Times are integers in units of 1/8 s (floats on that grid are exact).
"""
from __future__ import annotations

import asyncio
import contextlib
import time as _real_time
import types


class VLoop(asyncio.SelectorEventLoop):
    def __init__(self):
        super().__init__()
        self.vt = 0.0

    def time(self):
        return self.vt


@contextlib.contextmanager
def patched_time(clock):
    """clock: zero-argument callable returning the virtual time (float seconds)"""
    import nauyaca.server.middleware as mwm

    shim = types.ModuleType("time")
    shim.__dict__.update({k: v for k, v in _real_time.__dict__.items() if not k.startswith("__")})
    shim.monotonic = clock
    # wall-clock time is NOT a valid source for the limiter (it can jump): give it a clock that runs backwards,
    # so that an implementation reading time.time() disagrees with the model and trips the oracles
    shim.time = lambda: 1.7e9 - clock()
    shim.perf_counter = clock
    shim.monotonic_ns = lambda: int(clock() * 1e9)
    old = mwm.time
    mwm.time = shim
    try:
        yield
    finally:
        mwm.time = old


def next_timer(loop):
    whens = [h.when() for h in loop._scheduled if not h.cancelled()]
    return min(whens) if whens else None


async def settle(n=3):
    for _ in range(n):
        await asyncio.sleep(0)


async def run_history(loop: VLoop, cap: int, rate: float, retry: int, t0_8: int, batches, tie_req_first: bool, start_cleanup: bool = True):
    """batches: list of (t8, [(ip, url, fingerprint), ...]) with non-decreasing t8 (relative to t0);
    a batch with more than one request is launched with asyncio.gather.
    Returns (decisions per request in order, refusal lines, clean-up times (t8, relative), trace) where
    trace lists ('c', t8) and ('r', ip, t8) in the order things happened."""
    from nauyaca.server.middleware import RateLimitConfig, RateLimiter

    loop.vt = t0_8 / 8
    rl = RateLimiter(RateLimitConfig(capacity=cap, refill_rate=rate, retry_after=retry))
    if start_cleanup:
        rl.start()
    await settle(2)
    dec, lines, cleanups, trace = [], [], [], []
    armed = [next_timer(loop)]  # the pending wake-up of the clean-up task (None: not running)

    def poll():
        """a clean-up pass shows as the task re-arming its sleep; it ran at the instant the old timer was due
        (the harness never lets the clock pass a due timer)"""
        w = next_timer(loop)
        if w != armed[0]:
            if armed[0] is not None:
                c8 = armed[0] * 8 - t0_8
                cleanups.append(int(c8) if c8 == int(c8) else c8)
                trace.append(("c", cleanups[-1]))
            armed[0] = w

    for t8, reqs in batches:
        target = (t0_8 + t8) / 8
        while True:
            nxt = next_timer(loop)
            if nxt is not None and (nxt < target or (nxt == target and not tie_req_first)):
                loop.vt = max(loop.vt, nxt)
                await settle(4)
                poll()
            else:
                break
        loop.vt = target
        # no await before the requests: a timer due exactly now must not fire first when `tie_req_first`
        if len(reqs) == 1:
            ip, url, fp = reqs[0]
            results = [await rl.process_request(url, ip, fp)]
        else:
            results = await asyncio.gather(*[rl.process_request(url, ip, fp) for ip, url, fp in reqs])
        for (ip, _, _), (ok, line) in zip(reqs, results):
            dec.append(bool(ok))
            trace.append(("r", ip, t8))
            if not ok:
                lines.append(line)
            elif line is not None:
                lines.append(["admitted-with-line", line])
        if len(reqs) > 1:
            await settle(3)  # gather yielded to the loop: let a pass that became due at this instant finish
            poll()
    await rl.stop()
    return dec, lines, cleanups, trace


def crowd_ip(i: int) -> str:
    """address text of crowd member i (distinct from every address text of the small histories)"""
    return f"172.{16 + ((i >> 16) & 15)}.{(i >> 8) & 255}.{i & 255}"


async def run_schedule(loop: VLoop, cap: int, rate: float, retry: int, t0_8: int, steps, ip_text, start_cleanup: bool = True):
    """A history given as explicit scheduling steps, for the REAL RateLimiter with its REAL clean-up task:

      ["t", t8]            move the clock to t0 + t8/8 s; wake-ups of the clean-up task due strictly BEFORE that instant fire
                           at their own time and are given the loop until the pass has finished; a wake-up due exactly AT
                           the instant is left pending: it fires during the loop iterations that follow
      ["y", k]             k event-loop iterations (whatever is ready runs: the timer callback, the clean-up task, ...)
      ["r", a]             one request from address a, awaited directly
      ["g", [a, ...]]      requests launched together with asyncio.gather
      ["crowd", first, n]  one request from each of the n DISTINCT addresses crowd_ip(first) ... crowd_ip(first + n - 1)

    Returns {"dec": decisions of the r/g requests in order, "times": their t8, "who": their address index,
             "crowd": [[admitted, refused] per crowd step], "lines": refusal lines, "trace": compact order of events with
             clean-up passes as ["c", t8] where they were seen to have finished, "tracked": size of the table at the end}."""
    from nauyaca.server.middleware import RateLimitConfig, RateLimiter

    loop.vt = t0_8 / 8
    rl = RateLimiter(RateLimitConfig(capacity=cap, refill_rate=rate, retry_after=retry))
    if start_cleanup:
        rl.start()
    await settle(2)
    dec, times, who, crowd, lines, trace = [], [], [], [], set(), []
    armed = [next_timer(loop)]
    now8 = [0]

    def poll():
        w = next_timer(loop)
        if w != armed[0] and w is not None:
            if armed[0] is not None:
                c8 = armed[0] * 8 - t0_8
                trace.append(["c", int(c8) if c8 == int(c8) else c8])
            armed[0] = w

    async def finish_pass():
        # the pass that just became due runs to its end (one iteration in a pass without suspension points)
        for _ in range(20000):
            await asyncio.sleep(0)
            w = next_timer(loop)
            if w is not None and w > loop.vt:
                break
        poll()

    def note(ok, line):
        if not ok:
            lines.add(line if isinstance(line, str) else repr(line))
        elif line is not None:
            lines.add(repr(["admitted-with-line", line]))

    for st in steps:
        k = st[0]
        if k == "t":
            target = (t0_8 + st[1]) / 8
            while True:
                nxt = next_timer(loop)
                if nxt is not None and nxt < target:
                    loop.vt = max(loop.vt, nxt)
                    await finish_pass()
                else:
                    break
            loop.vt = max(loop.vt, target)
            now8[0] = st[1]
        elif k == "y":
            for _ in range(st[1]):
                await asyncio.sleep(0)
                poll()
        elif k == "r":
            ok, line = await rl.process_request("gemini://h/", ip_text(st[1]), None)
            poll()
            dec.append(bool(ok)); times.append(now8[0]); who.append(st[1]); note(ok, line)
            trace.append(["r", st[1], now8[0]])
        elif k == "g":
            res = await asyncio.gather(*[rl.process_request("gemini://h/a", ip_text(a), None) for a in st[1]])
            poll()
            for a, (ok, line) in zip(st[1], res):
                dec.append(bool(ok)); times.append(now8[0]); who.append(a); note(ok, line)
                trace.append(["r", a, now8[0]])
        elif k == "crowd":
            adm = ref = 0
            for i in range(st[1], st[1] + st[2]):
                ok, line = await rl.process_request("gemini://h/c", crowd_ip(i), None)
                note(ok, line)
                if ok:
                    adm += 1
                else:
                    ref += 1
            poll()
            crowd.append([adm, ref])
            trace.append(["crowd", st[1], st[2], now8[0]])
    # let a pass that is under way finish before the table is inspected
    nxt = next_timer(loop)
    if nxt is not None and nxt <= loop.vt:
        await finish_pass()
    tracked = len(rl.buckets)
    await rl.stop()
    await settle(2)
    return {"dec": "".join("1" if d else "0" for d in dec), "times": times, "who": who, "crowd": crowd, "lines": sorted(lines), "trace": trace, "tracked": tracked}
