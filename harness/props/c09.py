"""C09  IP access control decides exactly as configured, for every address

Correspondence: the real `AccessControl` (family `objects`) and the real
TOML -> `ServerConfig.from_toml` -> `nauyaca serve` -> `start_server` -> middleware chain ->
`GeminiServerProtocol` path (family `wiring`, no port bound: `create_server` is stubbed and the
probing runs inside the stub's `serve_forever`) against `Mw.mkAcl / aclProcess / start` in the Lean
model.  Text parsing stays in Python: the harness parses entries and peers with `ipaddress` the way
`AccessControl` does and hands (family, integer, prefix length) to the model.

Family `layered` writes [certificate_auth] path rules and a [rate_limit] table next to the policy and
lets peers present whitelisted / unlisted / no certificates (direct oracle only: the address decides).

Families `reads` and `pumppeers` watch the policy at work on whole connections of the running server (direct oracle
only): requests - Gemini lines, Titan uploads - whose bytes arrive in several reads in the same, the next or a later
event-loop iteration (real GeminiServerProtocol, fake transport: sim/acl_reads.py), and connections from different
addresses that overlap on the PyOpenSSL backend (real TLSServerProtocol over memory BIOs: sim/pump_multi.py).  A peer the
policy refuses is answered 53 and no handler / upload handler runs for it; an admitted one is served.

Direct oracle (independent of the Lean model): the admission rule of the property text evaluated
with `ipaddress` parsing and integer interval arithmetic.
"""
from __future__ import annotations

import asyncio
import ipaddress
import random

from .. import core
from ..core import Family

ID = "C09"
READY = True
LEAN_TARGETS = ["NauyacaVerif.Props.C09", "NauyacaVerif.Props.Tr.IsAllowed"]
THEOREMS = [f"NauyacaVerif.C09.{t}" for t in (
    "acl_iff", "acl_response", "unparsed_refused", "contains_interval", "cross_family_never",
    "config_faithful", "default_deny_refuses_all", "disabled_admits",
    "start_faithful", "bad_entry_no_start", "good_entries_start",
    "denied_53_whatever_limiter", "admitted_defers_to_limiter",
    "denyLine_tie", "denyLine_known", "strict_tie", "third_attempt_tie", "chain_order_tie")] + ['NauyacaVerif.Translated.isAllowed_eq']
TRANSLATED = ['isAllowed']
# AccessControl.process_request itself (decision handed on unchanged, the 53 line), translated and composed with the translated _is_allowed
LEAN_TARGETS = LEAN_TARGETS + ["NauyacaVerif.Props.Tr.AclProcess"]
TRANSLATED = TRANSLATED + ["aclProcessRequest"]
THEOREMS = list(THEOREMS) + [f"NauyacaVerif.Translated.{t}" for t in ("acl_process_eq", "acl_process_line")]
EXTRACT = ["mwResponses"]
ASSUMPTIONS = [
    "text parsing of list entries and peer addresses is ipaddress's (CPython 3.12.1): the model receives (family, integer, prefix length); an entry is 'interpretable' iff ipaddress.ip_network(entry) (strict) accepts it",
    "membership never crosses address families: an IPv4-mapped IPv6 peer (::ffff:a.b.c.d) is an IPv6 address and is matched by IPv6 entries only; a scope id (%eth0) on a peer is ignored by membership, as ipaddress does",
    "an absent list and an empty list both mean 'no list configured' (that is how AccessControl and ServerConfig read them)",
    "with access control enabled but an empty policy (no entry in either list, default_allow = true) get_access_control_config builds no component, so the peer string is never parsed and an unparsable peer name (e.g. 'unknown' when the transport has no peername) is served like everybody else; the oracle treats this as 'as configured' (everybody is admitted by that policy) and enforces 'unparsable => 53' wherever a policy exists; AccessControl objects themselves refuse unparsable names under every configuration (family objects)",
    "the chain is assembled in the order certificate auth, access control, rate limiter (extraction item chainOrder, theorem chain_order_tie); families objects and wiring configure no certificate rules, so access control is the first component a request meets; family layered writes [certificate_auth] rules next to the policy: there a refused peer may meet the 6x of certificate auth first (reference: the real CertificateAuth built from the written rules, evaluated on its own), never an admission",
    "the peer address is what the transport reports as peername[0]; the wiring family feeds it through a fake transport, no socket is bound",
    "families reads and pumppeers (direct oracle, no Lean line) build the chain from the real AccessControl of the case's policy among components that admit everybody (scripted slow ones, the real RateLimiter with a capacity nobody reaches), so access control is the only component that can refuse: a refused peer must see 53 (or nothing while its request is incomplete or after it is gone) and no handler run, an admitted peer whose whole request arrived is served exactly once; 'admitted' is read as 'handed to the request / upload handler'",
    "family reads delivers the pieces of a request by calling data_received from a task of the same loop: `[\"y\", 1]` between two pieces is the loop iteration in which the chain's task made its first step and its done-callbacks are still queued - where asyncio's next _read_ready lands when the socket already holds more bytes; family pumppeers interleaves the stages of real PyOpenSSL handshakes of several peers (sim/pump_multi.py), each fake TCP transport reporting its own peername",
]
LEVEL_TEXT = (
    "Lean 4 theorems over the executable model of AccessControl and of the configuration path, for every allow/deny list, default and address "
    "(no size bound): acl_iff (admitted exactly when no deny entry contains the address and an allow entry does, or there is no allow list and the default is allow), "
    "contains_interval + cross_family_never (membership is integer interval arithmetic within one family), unparsed_refused/acl_response (the 53 line), "
    "config_faithful/default_deny_refuses_all/start_faithful (TOML fields -> running chain decide the written policy; no lists + default deny refuses everyone), "
    "bad_entry_no_start/good_entries_start (start-up fails exactly when an entry has no interpretation). "
    "Partial: ipaddress text parsing, tomllib and the asyncio transport's peername are not modelled; they are exercised by the correspondence only, which drives the real "
    "AccessControl objects and the real `nauyaca serve --config` path (stubbed create_server, fake transport) on generated configurations."
)
LEVEL_NOTE = (
    "Trusted: Lean kernel; axioms propext/Classical.choice/Quot.sound; the hand-written model Mw/Acl.lean tied to /repo by the differential correspondence of this check "
    "and by extraction (refusal line, strict ip_network calls, unguarded third parsing attempt); CPython's ipaddress/tomllib; the harness' fake transport and create_server stub."
)
TECHNIQUE = "Lean 4 machine-checked proof over a hand-written model + differential correspondence with the implementation (objects and TOML->CLI->chain->protocol wiring) + independent integer-arithmetic oracle"


# True: also demand a 53 for an unparsable peer name when access control is enabled with an empty policy
# (no entries, default allow).  The current code admits such a peer (no component is built); see ASSUMPTIONS.
STRICT_UNPARSED_WITHOUT_POLICY = False


def extract_extra():
    from ..sim import mw_extract

    mw_extract.regenerate()


# ----------------------------------------------------------------------------
# reference parsing (ipaddress) shared by model line and oracle
# ----------------------------------------------------------------------------
def _net_tuple(n):
    return (n.version, int(n.network_address), n.prefixlen)


def _try_net(x):
    try:
        return _net_tuple(ipaddress.ip_network(x))
    except Exception:  # noqa: BLE001  (ValueError family; anything else is 'no interpretation' as well)
        return None


def attempts(e):
    """the three attempts AccessControl.__init__ makes for one entry"""
    return (_try_net(e), _try_net(f"{e}/32"), _try_net(f"{e}/128"))


def peer_tuple(p):
    try:
        a = ipaddress.ip_address(p)
    except ValueError:
        return None
    return (a.version, int(a))


def _att_tok(t):
    return "x" if t is None else f"{t[0]}/{t[1]}/{t[2]}"


def list_tok(lst):
    if lst is None:
        return "-"
    if not lst:
        return "[]"
    return "[" + ",".join("|".join(_att_tok(t) for t in attempts(e)) for e in lst) + "]"


def peer_tok(p):
    t = peer_tuple(p)
    return "u" if t is None else f"{t[0]}/{t[1]}"


def ref_contains(net, addr) -> bool:
    """integer interval arithmetic, never across families"""
    fam, base, plen = net
    if fam != addr[0]:
        return False
    bits = 32 if fam == 4 else 128
    return base <= addr[1] < base + (1 << (bits - plen))


def ref_policy(allow, deny, default, peers, unparsed_free=False):
    """property text.  Returns 'nostart' or the list of expected admissions (True/False; None = not constrained)."""
    al, dn = [], []
    for lst, out in ((allow, al), (deny, dn)):
        for e in (lst or []):
            t = _try_net(e)
            if t is None:
                return "nostart"
            out.append(t)
    res = []
    for p in peers:
        a = peer_tuple(p)
        if a is None:
            res.append(None if unparsed_free else False)
            continue
        denied = any(ref_contains(d, a) for d in dn)
        ok = (not denied) and (any(ref_contains(n, a) for n in al) or (not al and bool(default)))
        res.append(ok)
    return res


def is_53(line) -> bool:
    return isinstance(line, str) and line.startswith("53 ") and line.endswith("\r\n") and "\r" not in line[:-2] and "\n" not in line[:-2]


# ----------------------------------------------------------------------------
# generators
# ----------------------------------------------------------------------------
V4_FORMS = ("cidr", "cidr", "cidr", "netmask", "hostmask", "zeropad")
V6_FORMS = ("compressed", "compressed", "exploded", "upper")

MALFORMED_ENTRIES = [
    "10.0.0.1/8", "192.168.1.77/24", "2001:db8::1/32", "10.0.0.0/33", "::/129", "300.1.1.1", "1.2.3", "1.2.3.4/", "/24", "",
    " 10.0.0.0/8", "10.0.0.0/8 ", "10.0.0.0 /8", "abc", "::g", "1.2.3.4/24/24", "01.2.3.4", "1.2.3.4\n", "10.0.0.0/-1", "10.0.0.0/+8",
    "0x0a.0.0.0", "10.0.0.0/٨", "fe80::/64%eth0", "1::2::3", "10.0.0.0-10.0.0.255", "10.0.0.*", "localhost", "10.0.0.0/8,11.0.0.0/8",
]
NONSTRING_ENTRIES = [5, 167772161, 2 ** 40, -1, 1.5, True, False, ["10.0.0.0/8"], {"net": "10.0.0.0/8"}]
ODD_BUT_VALID_ENTRIES = ["fe80::1%eth0", "fe80::%eth0/64", "::ffff:1.2.3.0/120", "::", "::/0", "0.0.0.0/0", "0.0.0.0", "255.255.255.255", "10.0.0.0/08",
                         "ffff:ffff:ffff:ffff:ffff:ffff:ffff:ffff", "::1", "127.0.0.1", "0:0:0:0:0:0:0:1"]
URLS = ["gemini://localhost/", "gemini://localhost/index.gmi", "gemini://localhost/a?b"]
MALFORMED_PEERS = ["", "unknown", "10.0.0.1 ", " 10.0.0.1", "10.0.0.01", "10.0.0.1/32", "localhost", "1.2.3.4:1965", "[::1]", "fe80::1%", "10.0.0.1%eth0",
                   "fe80::1%eth0%x", "1.2.3.4\n", "１.2.3.4", "::ffff:300.1.1.1", "1.2.3", "::1/128", "0x7f.0.0.1", "-1", "4294967296"]


def v4_text(rng, base, plen):
    form = rng.choice(V4_FORMS)
    a = str(ipaddress.IPv4Address(base))
    if plen == 32 and rng.random() < 0.5:
        return a  # single host, no prefix
    if form == "netmask":
        return f"{a}/{ipaddress.IPv4Address((0xFFFFFFFF << (32 - plen)) & 0xFFFFFFFF)}"
    if form == "hostmask" and 0 < plen < 32:
        return f"{a}/{ipaddress.IPv4Address((1 << (32 - plen)) - 1)}"
    if form == "zeropad" and plen < 10:
        return f"{a}/0{plen}"
    return f"{a}/{plen}"


def v6_text(rng, base, plen):
    form = rng.choice(V6_FORMS)
    addr = ipaddress.IPv6Address(base)
    a = addr.compressed if form == "compressed" else addr.exploded if form == "exploded" else addr.compressed.upper()
    if plen == 128 and rng.random() < 0.5:
        return a
    return f"{a}/{plen}"


def rand_net(rng, fam=None, plen=None):
    """(family, base, plen) with no host bits"""
    fam = fam or rng.choice((4, 4, 6))
    bits = 32 if fam == 4 else 128
    if plen is None:
        plen = rng.choice((0, 1, bits - 1, bits)) if rng.random() < 0.25 else rng.randint(0, bits)
    r = rng.getrandbits(bits)
    if rng.random() < 0.2:
        r = rng.choice((0, (1 << bits) - 1, 1 << (bits - 1)))
    base = (r >> (bits - plen)) << (bits - plen) if plen else 0
    return (fam, base, plen)


def net_text(rng, net):
    return v4_text(rng, net[1], net[2]) if net[0] == 4 else v6_text(rng, net[1], net[2])


def related_net(rng, net):
    """a sub-network, a super-network or the neighbouring block of `net` (same family)"""
    fam, base, plen = net
    bits = 32 if fam == 4 else 128
    k = rng.random()
    if k < 0.4 and plen < bits:  # sub-network
        p2 = rng.randint(plen + 1, bits)
        extra = rng.getrandbits(p2 - plen) << (bits - p2)
        return (fam, base | extra, p2)
    if k < 0.7 and plen > 0:  # super-network
        p2 = rng.randint(0, plen - 1)
        return (fam, (base >> (bits - p2)) << (bits - p2) if p2 else 0, p2)
    size = 1 << (bits - plen)
    nb = base + size if base + size < (1 << bits) else base - size
    return (fam, max(nb, 0), plen) if plen else net


def addr_text(rng, fam, val, scoped_ok=True):
    if fam == 4:
        return str(ipaddress.IPv4Address(val))
    a = ipaddress.IPv6Address(val)
    r = rng.random()
    s = a.compressed if r < 0.6 else a.exploded if r < 0.8 else a.compressed.upper()
    if scoped_ok and rng.random() < 0.12:
        s += rng.choice(("%eth0", "%1", "%lo"))
    return s


def boundary_peers(rng, net):
    fam, base, plen = net
    bits = 32 if fam == 4 else 128
    size = 1 << (bits - plen)
    vals = {base, base + size - 1, base + rng.randrange(size)}
    if base > 0:
        vals.add(base - 1)
    if base + size < (1 << bits):
        vals.add(base + size)
    if base + 1 < (1 << bits):
        vals.add(base + 1)
    out = [addr_text(rng, fam, v) for v in sorted(vals)]
    # the same integers in the other family (must never match)
    if fam == 4:
        out.append(addr_text(rng, 6, base, scoped_ok=False))                       # ::a.b.c.d
        out.append(addr_text(rng, 6, 0xFFFF00000000 | base, scoped_ok=False))      # IPv4-mapped
        out.append("::ffff:" + str(ipaddress.IPv4Address(min(base + size - 1, 0xFFFFFFFF))))
    elif base < (1 << 32):
        out.append(addr_text(rng, 4, base))
    elif (base >> 32) == 0xFFFF:
        out.append(addr_text(rng, 4, base & 0xFFFFFFFF))
    return out


def gen_lists(rng, malformed_p=0.06):
    """allow, deny (None | [] | entries as text), the numeric networks used, default"""
    nets = []

    def mk_list():
        r = rng.random()
        if r < 0.22:
            return None
        if r < 0.34:
            return []
        out = []
        for _ in range(rng.choice((1, 1, 2, 3))):
            q = rng.random()
            if q < malformed_p:
                out.append(rng.choice(MALFORMED_ENTRIES))
            elif q < malformed_p + 0.03:
                out.append(rng.choice(NONSTRING_ENTRIES))
            elif q < malformed_p + 0.10:
                out.append(rng.choice(ODD_BUT_VALID_ENTRIES))
            else:
                n = related_net(rng, rng.choice(nets)) if nets and rng.random() < 0.5 else rand_net(rng)
                nets.append(n)
                out.append(net_text(rng, n))
        return out

    allow, deny = mk_list(), mk_list()
    return allow, deny, nets, rng.random() < 0.5


def gen_peers(rng, allow, deny, nets):
    peers = []
    for n in nets:
        peers += boundary_peers(rng, n)
    for lst in (allow, deny):
        for e in (lst or []):
            t = _try_net(e)
            if t is not None and t not in nets:
                peers += boundary_peers(rng, t)[:4]
    for _ in range(2):
        peers.append(addr_text(rng, 4, rng.getrandbits(32)))
        peers.append(addr_text(rng, 6, rng.getrandbits(128)))
    peers += rng.sample(MALFORMED_PEERS, 2)
    peers += ["127.0.0.1", "::1"]
    rng.shuffle(peers)
    return peers[:24]


def every_prefix_cases(rng):
    """one case per family and prefix length: the network alone in the allow list / in the deny list"""
    for fam, bits in ((4, 32), (6, 128)):
        for plen in range(bits + 1):
            n = rand_net(rng, fam, plen)
            txt = net_text(rng, n)
            peers = boundary_peers(rng, n) + ["zzz"]
            if plen % 2 == 0:
                yield {"allow": [txt], "deny": None, "default": rng.random() < 0.5, "peers": peers}
            else:
                yield {"allow": None, "deny": [txt], "default": True, "peers": peers}


FIXED_CASES = [
    {"allow": None, "deny": None, "default": False, "peers": ["10.1.2.3", "::1", "127.0.0.1", "unknown"]},
    {"allow": None, "deny": None, "default": True, "peers": ["10.1.2.3", "::1", "unknown", ""]},
    {"allow": [], "deny": [], "default": False, "peers": ["10.1.2.3", "::1"]},
    {"allow": [], "deny": [], "default": True, "peers": ["10.1.2.3", "fe80::1%eth0"]},
    {"allow": ["10.0.0.0/8"], "deny": ["10.1.0.0/16"], "default": True, "peers": ["10.0.255.255", "10.1.0.0", "10.1.255.255", "10.2.0.0", "11.0.0.0", "9.255.255.255", "::ffff:10.0.0.1", "::a00:1"]},
    {"allow": ["10.1.0.0/16"], "deny": ["10.0.0.0/8"], "default": True, "peers": ["10.1.0.1", "10.2.0.1", "12.0.0.1"]},
    {"allow": ["10.0.0.1/8"], "deny": None, "default": True, "peers": ["10.0.0.1", "10.2.3.4", "11.0.0.1"]},
    {"allow": None, "deny": ["192.168.1.77/24"], "default": True, "peers": ["192.168.1.77", "192.168.1.1", "192.168.2.1"]},
    {"allow": None, "deny": ["not-an-address"], "default": True, "peers": ["1.2.3.4"]},
    {"allow": ["fe80::/10"], "deny": None, "default": False, "peers": ["fe80::1%eth0", "fe80::1", "febf:ffff:ffff:ffff:ffff:ffff:ffff:ffff", "fec0::", "fe7f:ffff:ffff:ffff:ffff:ffff:ffff:ffff"]},
    {"allow": ["0.0.0.0/0"], "deny": None, "default": False, "peers": ["0.0.0.0", "255.255.255.255", "::", "::ffff:1.2.3.4"]},
    {"allow": None, "deny": ["::/0"], "default": True, "peers": ["::", "ffff:ffff:ffff:ffff:ffff:ffff:ffff:ffff", "1.2.3.4", "::ffff:1.2.3.4"]},
    {"allow": ["1.2.3.4"], "deny": ["::1"], "default": False, "peers": ["1.2.3.4", "1.2.3.5", "1.2.3.3", "::1", "::2", "::"]},
]


def shape(lst):
    return "absent" if lst is None else "empty" if not lst else "present"


class _AclFamily(Family):
    def gen_cases(self, rng, n):
        k = 0
        for c in self.share(FIXED_CASES):
            k += 1
            yield dict(c)
        for c in self.share(every_prefix_cases(rng)):   # every prefix length of both families, spread over the shards
            k += 1
            yield c
        while k < n:
            allow, deny, nets, default = gen_lists(rng)
            yield {"allow": allow, "deny": deny, "default": default, "peers": gen_peers(rng, allow, deny, nets)}
            k += 1

    # shared: reference verdict on an observation {"start": "ok"|"failed", "res": [[True]|[False, line]...]}
    def check_against_reference(self, case, obs, unparsed_free=False):
        ref = ref_policy(case["allow"], case["deny"], case["default"], case["peers"], unparsed_free)
        if ref == "nostart":
            if obs["start"] != "failed":
                bad = [e for lst in (case["allow"], case["deny"]) for e in (lst or []) if _try_net(e) is None]
                return ("bad-entry-accepted", f"list entry {bad[0]!r} cannot be interpreted but the policy was built/started (allow={case['allow']!r} deny={case['deny']!r})")
            return None
        if obs["start"] != "ok":
            return ("good-config-refused", f"every entry is interpretable but construction/start-up failed: allow={case['allow']!r} deny={case['deny']!r}")
        for p, want, got in zip(case["peers"], ref, obs["res"]):
            if want is None:
                want = got[0]
            if got[0] != want:
                return ("wrong-decision", f"peer {p!r} was {'admitted' if got[0] else 'refused'}; the configured policy (allow={case['allow']!r} deny={case['deny']!r} default_allow={case['default']}) says {'admit' if want else 'refuse'}")
            if not got[0] and not is_53(got[1]):
                return ("refusal-not-53", f"peer {p!r} refused with {got[1]!r} instead of a 53 line")
        return None


class Objects(_AclFamily):
    """AccessControl(AccessControlConfig(...)) objects, decisions via process_request"""

    name = "objects"
    quick_n = 16000
    thorough_n = 400000

    def setup(self):
        self.loop = asyncio.new_event_loop()

    def gen(self, rng, n):
        yield from self.gen_cases(rng, n)

    def impl(self, case):
        from nauyaca.server.middleware import AccessControl, AccessControlConfig

        try:
            ac = AccessControl(AccessControlConfig(allow_list=case["allow"], deny_list=case["deny"], default_allow=case["default"]))
        except Exception:  # noqa: BLE001  (ValueError from ipaddress; anything else is a failed construction too)
            return {"start": "failed"}
        res = []
        for p in case["peers"]:
            ok, line = self.loop.run_until_complete(ac.process_request("gemini://localhost/", p, None))
            res.append([True] if ok else [False, line])
        return {"start": "ok", "res": res}

    def model(self, case):
        return " ".join(["acl", list_tok(case["allow"]), list_tok(case["deny"]), "1" if case["default"] else "0"] + [peer_tok(p) for p in case["peers"]])

    def expect(self, case, out):
        assert out.startswith("ok "), out
        w = out.split(" ")
        if w[1] == "raise":
            return {"start": "failed"}
        line = core.uncps(w[2])
        return {"start": "ok", "res": [[True] if d == "a" else [False, line] for d in w[1]]}

    def oracle(self, case, obs):
        return self.check_against_reference(case, obs)

    def key(self, case, obs):
        if obs["start"] != "ok":
            return f"construct-raises:A={shape(case['allow'])}:D={shape(case['deny'])}"
        ds = {r[0] for r in obs["res"]}
        mix = "mixed" if len(ds) == 2 else "all-admit" if ds == {True} else "all-refuse"
        return f"ok:A={shape(case['allow'])}:D={shape(case['deny'])}:dflt={int(case['default'])}:{mix}"


# ----------------------------------------------------------------------------
# TOML -> ServerConfig -> `nauyaca serve` -> start_server -> chain -> protocol
# ----------------------------------------------------------------------------
class Wiring(_AclFamily):
    """the [access_control] table of a TOML file through to the chain and protocol the server would run"""

    name = "wiring"
    quick_n = 4000
    thorough_n = 100000

    def setup(self):
        from ..sim import mw_wiring

        self.W = mw_wiring
        self.capture = mw_wiring.Capture()

    def gen(self, rng, n):
        for c in self.gen_cases(rng, n):
            r = rng.random()
            c["enabled"] = None if r < 0.45 else True if r < 0.85 else False
            c["dflt_written"] = True if c["default"] is False else rng.random() < 0.6  # default_allow=true may be left out
            # the chain the server assembles also holds the rate limiter: with a small burst capacity and several
            # requests per peer in a row, a refused peer must still see 53 on every request
            q = rng.random()
            c["rl_cap"] = None if q < 0.35 else 100000 if q < 0.45 else rng.choice((1, 1, 2, 3))
            c["rl_written"] = c["rl_cap"] is not None or rng.random() < 0.7   # enabled = false written, or the table left out (default: on, capacity 10)
            cap = c["rl_cap"] if c["rl_cap"] is not None else (0 if c["rl_written"] else 10)
            c["repeat"] = 1 if cap in (0, 100000) else (cap + 2) // 2 + rng.randint(0, 1) if cap <= 3 else rng.choice((1, 6))
            c["peers"] = list(dict.fromkeys(c["peers"]))[:12 if c["repeat"] == 1 else 6]
            yield c

    def toml_text(self, case) -> str:
        tv = self.W.toml_value
        lines = []
        if "rl_cap" not in case:  # cases recorded before the sequence dimension existed
            lines += ["[rate_limit]"] + (["enabled = true", "capacity = 100000"] if case.get("rate_limit") else ["enabled = false"])
        elif case["rl_cap"] is not None:
            lines += ["[rate_limit]", "enabled = true", f"capacity = {case['rl_cap']}", "refill_rate = 0.0009765625"]
        elif case.get("rl_written", True):
            lines += ["[rate_limit]", "enabled = false"]
        lines += ["", "[access_control]"]
        if case.get("enabled") is not None:
            lines.append(f"enabled = {tv(case['enabled'])}")
        if case["allow"] is not None:
            lines.append(f"allow_list = {tv(case['allow'])}")
        if case["deny"] is not None:
            lines.append(f"deny_list = {tv(case['deny'])}")
        if case.get("dflt_written", True):
            lines.append(f"default_allow = {tv(case['default'])}")
        return "\n".join(lines) + "\n"

    def impl(self, case):
        cap: dict = {}

        async def probe(factory):
            proto = factory()
            chain = getattr(proto, "middleware", None)
            mws = list(getattr(chain, "middlewares", [])) if chain is not None else []
            cap["component"] = any(type(m).__name__ == "AccessControl" for m in mws)
            res, raw = [], []
            for p in case["peers"]:
                seq = []
                for k in range(case.get("repeat", 1)):
                    if chain is None:
                        ok, line = True, None
                    else:
                        ok, line = await chain.process_request(URLS[k % len(URLS)], p, None)
                    if k == 0:
                        res.append([True] if ok else [False, line])
                    else:
                        seq.append("ok" if ok else str(line)[:2])
                    seq.append(await self.W.wire_status(factory, p))
                raw.append(seq)
            cap["res"], cap["raw"] = res, raw

        started, _ = self.capture.run(self.toml_text(case), probe)
        if not started:
            return {"start": "failed"}
        return {"start": "ok", "component": cap["component"], "res": cap["res"],
                "wire": ["".join("d" if w == "53" else "a" for w in seq) for seq in cap["raw"]], "raw": cap["raw"]}

    def model(self, case):
        en = case.get("enabled")
        return " ".join(["aclcfg", "0" if en is False else "1", list_tok(case["allow"]), list_tok(case["deny"]), "1" if case["default"] else "0"]
                        + [peer_tok(p) for p in case["peers"]])

    def expect(self, case, out):
        assert out.startswith("ok "), out
        w = out.split(" ")
        if w[1] == "nostart":
            return {"start": "failed"}
        line = core.uncps(w[3]) if w[1] == "chain" else ""
        k = 2 * case.get("repeat", 1) - 1
        return {"start": "ok", "component": w[1] == "chain", "res": [[True] if d == "a" else [False, line] for d in w[2]], "wire": [d * k for d in w[2]]}

    def same(self, expected, obs):
        return all(expected.get(k) == obs.get(k) for k in ("start", "component", "res", "wire"))

    def oracle(self, case, obs):
        if case.get("enabled") is False:
            return None  # access control switched off: the property speaks about the configured policy only
        # With access control enabled but nothing to enforce (no entry in either list, default allow) the server builds
        # no AccessControl component and never parses the peer string: an unparsable peer name is then served like
        # everybody else.  Judged "as configured" (see ASSUMPTIONS); everywhere else unparsable => 53 is enforced.
        no_policy = not case["allow"] and not case["deny"] and bool(case["default"])
        v = self.check_against_reference(case, obs, unparsed_free=no_policy and not STRICT_UNPARSED_WITHOUT_POLICY)
        if v:
            return v
        if obs["start"] == "ok":
            # every further request of the same peer (alternately asked of the chain and sent over a connection)
            # is decided like the first: a refused peer sees 53 every time, an admitted one never
            for p, r, wv, raw in zip(case["peers"], obs["res"], obs["wire"], obs["raw"]):
                for k, ch in enumerate(wv):
                    if (ch == "a") != r[0]:
                        if not r[0]:
                            return ("denied-peer-not-53", f"peer {p!r} is refused by the configured policy, yet request #{k + 2} of its sequence was answered {raw[k]!r} instead of 53 (sequence after the first 53: {raw})")
                        return ("wire-differs", f"peer {p!r}: the chain admits its first request but request #{k + 2} got a 53 response (sequence {raw})")
        return None

    def key(self, case, obs):
        en = "off" if case.get("enabled") is False else "on"
        al, dn = case["allow"], case["deny"]
        kind = ("both" if al and dn else "allow-only" if al else "deny-only" if dn else "none-absent" if al is None and dn is None else "none-empty")
        if obs["start"] != "ok":
            return f"no-start:{en}:{kind}"
        ds = {r[0] for r in obs["res"]}
        mix = "mixed" if len(ds) == 2 else "all-admit" if ds == {True} else "all-refuse"
        return f"{en}:component={int(obs['component'])}:{kind}:dflt={int(case['default'])}:{mix}"


# ----------------------------------------------------------------------------
# [access_control] next to the other tables that put components into the chain
# ----------------------------------------------------------------------------
LAYER_PATHS = ["/", "/index.gmi", "/app/x.gmi", "/app/", "/locked/a.gmi", "/pub/a.gmi", "/app/../index.gmi", "/app/x.gmi?q=1"]
LAYER_PREFIXES = ["/app/", "/locked/", "/", "/pub/", "/app/x"]
LAYER_FILES = {"app/x.gmi": "# app\n", "app/index.gmi": "# app index\n", "locked/a.gmi": "# locked\n", "pub/a.gmi": "# pub\n"}


class Layered(_AclFamily):
    """the [access_control] table written next to [certificate_auth] path rules (require_cert on/off, fingerprint
    whitelists present / empty / absent) and a [rate_limit] table, through `nauyaca serve --config` to the chain and
    protocol the server would run — on whichever TLS backend start_server chose; peers from admitted and refused
    addresses present whitelisted, unlisted or no certificates and ask for paths inside and outside the rules, both
    of the chain directly and over a connection (counting spy on the request handler).

    Direct oracle (no Lean line): the admission rule of the property text decides per ADDRESS, whatever certificate
    the peer holds and whatever path it asks for: a peer the written policy refuses is never admitted by the chain and
    never served (no handler run, no 2x); it receives 53 — or the 6x of certificate auth, which start_server puts in
    front of access control, when the real CertificateAuth built from the written rules refuses that request on its
    own.  A peer the policy admits never receives 53."""

    name = "layered"
    quick_n = 1000
    thorough_n = 30000

    FIXED = [
        # a whitelisted certificate does not lift the deny list / the default-deny policy
        {"allow": None, "deny": ["198.51.100.0/24"], "default": True, "peers": ["198.51.100.9", "192.0.2.7"], "rl_cap": 2,
         "rules": [{"prefix": "/app/", "require": True, "fps": [0]}],
         "reqs": [[0, "/app/x.gmi", 0], [0, "/app/x.gmi", 1], [0, "/index.gmi", 0], [1, "/app/x.gmi", 0], [1, "/app/x.gmi", None], [0, "/app/x.gmi", None]]},
        {"allow": ["192.0.2.0/24"], "deny": None, "default": False, "peers": ["2001:db8::5", "192.0.2.7", "::ffff:192.0.2.7"], "rl_cap": None,
         "rules": [{"prefix": "/", "require": False, "fps": [1, 2]}, {"prefix": "/app/", "require": True, "fps": None}],
         "reqs": [[0, "/", 1], [2, "/", 2], [1, "/", 1], [1, "/", 0], [0, "/app/x.gmi", 3], [0, "/pub/a.gmi", None]]},
        {"allow": None, "deny": None, "default": False, "peers": ["10.1.2.3", "unknown"], "rl_cap": 100000,
         "rules": [{"prefix": "/locked/", "require": False, "fps": [0, 3]}],
         "reqs": [[0, "/locked/a.gmi", 3], [1, "/locked/a.gmi", 0], [0, "/", None]]},
    ]

    def setup(self):
        from ..sim import mw_wiring
        from ..sim import srv as sim

        self.W, self.sim = mw_wiring, sim
        self.capture = mw_wiring.Capture()
        self.ref_loop = asyncio.new_event_loop()

    def gen(self, rng, n):
        k = 0
        for c in self.share(self.FIXED):
            k += 1
            yield c
        while k < n:
            k += 1
            allow, deny, nets, default = gen_lists(rng, malformed_p=0.015)
            peers = list(dict.fromkeys(gen_peers(rng, allow, deny, nets)))[:6]
            rules = []
            for _ in range(rng.choice((1, 1, 2, 3))):
                rules.append({"prefix": rng.choice(LAYER_PREFIXES), "require": rng.random() < 0.5, "fps": rng.choice((None, [], [0], [0], [1, 2], [0, 3]))})
            hot = [r["prefix"] for r in rules]
            reqs = []
            for _ in range(rng.randint(3, 10)):
                base = rng.choice(hot) if rng.random() < 0.6 else None
                path = rng.choice(LAYER_PATHS) if base is None else (base if base.endswith("/") else base + ".gmi") + rng.choice(("", "a.gmi", "x.gmi"))
                # mostly certificates that the rules name
                listed = [i for r in rules for i in (r["fps"] or [])]
                cert = rng.choice(listed) if listed and rng.random() < 0.55 else rng.choice((None, None, 0, 1, 3))
                reqs.append([rng.randrange(len(peers)), path, cert])
            q = rng.random()
            yield {"allow": allow, "deny": deny, "default": default, "peers": peers, "rules": rules, "reqs": reqs,
                   "rl_cap": None if q < 0.4 else 100000 if q < 0.6 else rng.choice((1, 2, 3)), "rcc": rng.random() < 0.15}

    def toml(self, case):
        tv = self.W.toml_value
        fps = self.sim.cert_pool()
        lines = ["[rate_limit]"] + (["enabled = false"] if case["rl_cap"] is None else ["enabled = true", f"capacity = {case['rl_cap']}", "refill_rate = 0.0009765625"])
        lines += ["", "[access_control]"]
        if case["allow"] is not None:
            lines.append(f"allow_list = {tv(case['allow'])}")
        if case["deny"] is not None:
            lines.append(f"deny_list = {tv(case['deny'])}")
        lines += [f"default_allow = {tv(case['default'])}", ""]
        if case["rules"]:
            items = []
            for ru in case["rules"]:
                d = {"prefix": ru["prefix"]}
                if ru["require"]:
                    d["require_cert"] = True
                if ru["fps"] is not None:
                    d["allowed_fingerprints"] = [fps[i][1] for i in ru["fps"]]
                items.append(tv(d))
            lines += ["[certificate_auth]", "paths = [" + ", ".join(items) + "]", ""]
        return "\n".join(lines) + "\n", ("require_client_cert = true" if case.get("rcc") else "")

    @staticmethod
    def url_of(path):
        from nauyaca.protocol.request import GeminiRequest

        return GeminiRequest.from_line(f"gemini://localhost{path}").normalized_url

    def impl(self, case):
        out: dict = {}
        certs = self.sim.cert_pool()

        async def probe(factory):
            p0 = factory()
            tls = type(p0).__name__ == "TLSServerProtocol"
            inner = p0.inner_protocol_factory if tls else factory
            out["backend"] = "pyopenssl" if tls else "stdlib"
            chain = getattr(inner(), "middleware", None)
            out["chain"] = [type(m).__name__ for m in getattr(chain, "middlewares", [])] if chain is not None else []
            res = []
            for pi, path, cert in case["reqs"]:
                peer = case["peers"][pi]
                fp = certs[cert][1] if cert is not None else None
                if chain is None:
                    direct = [True, None]
                else:
                    ok, line = await chain.process_request(self.url_of(path), peer, fp)
                    direct = [bool(ok), line if isinstance(line, str) or line is None else repr(line)]
                # over a connection (under the stdlib backend no client certificate reaches the application)
                pr = inner()
                runs = [0]
                rh = pr.request_handler

                def spy(req, rh=rh, runs=runs):
                    runs[0] += 1
                    return rh(req)

                pr.request_handler = spy
                t = self.sim.FakeTransport(peer=(peer, 4711) if ":" not in peer else (peer, 4711, 0, 0), cert_der=certs[cert][0] if (cert is not None and tls) else None)
                pr.connection_made(t)
                pr.data_received(f"gemini://localhost{path}\r\n".encode())
                for _ in range(80):
                    if t.closed:
                        break
                    await asyncio.sleep(0)
                raw = b"".join(bytes.fromhex(a[1]) for a in t.acts if a[0] == "w")
                try:
                    pr.connection_lost(None)
                except Exception:  # noqa: BLE001
                    pass
                res.append({"direct": direct, "st": raw[:2].decode("latin1"), "h": runs[0]})
            out["reqs"] = res

        toml, extra = self.toml(case)
        started, cli = self.capture.run(toml, probe, server_extra=extra, files=LAYER_FILES)
        if not started:
            return {"start": "failed"}
        out["start"] = "ok"
        return out

    def oracle(self, case, obs):
        from nauyaca.server.middleware import CertificateAuth, CertificateAuthConfig, CertificateAuthPathRule

        ref = ref_policy(case["allow"], case["deny"], case["default"], case["peers"])
        if ref == "nostart":
            if obs["start"] != "failed":
                bad = [e for lst in (case["allow"], case["deny"]) for e in (lst or []) if _try_net(e) is None]
                return ("bad-entry-accepted", f"list entry {bad[0]!r} cannot be interpreted but the server started (allow={case['allow']!r} deny={case['deny']!r})")
            return None
        if obs["start"] != "ok":
            return ("good-config-refused", f"every entry is interpretable but start-up failed: allow={case['allow']!r} deny={case['deny']!r} rules={case['rules']!r}")
        certs = self.sim.cert_pool()
        cert_ref = CertificateAuth(CertificateAuthConfig(path_rules=[
            CertificateAuthPathRule(prefix=r["prefix"], require_cert=r["require"], allowed_fingerprints=None if r["fps"] is None else {certs[i][1] for i in r["fps"]})
            for r in case["rules"]])) if case["rules"] else None
        policy = f"allow={case['allow']!r} deny={case['deny']!r} default_allow={case['default']}"
        no_policy = not case["allow"] and not case["deny"] and bool(case["default"])
        for i, ((pi, path, cert), r) in enumerate(zip(case["reqs"], obs["reqs"])):
            peer, admit = case["peers"][pi], ref[pi]
            if peer_tuple(peer) is None and no_policy and not STRICT_UNPARSED_WITHOUT_POLICY:
                continue   # see ASSUMPTIONS: no component is built for an empty policy
            for via, fp in (("chain", certs[cert][1] if cert is not None else None),
                            ("wire", certs[cert][1] if (cert is not None and obs["backend"] == "pyopenssl") else None)):
                what = (f"request #{i} ({path!r} from {peer!r} presenting certificate {cert if fp else None}{' [whitelisted by a rule]' if any(cert in (ru['fps'] or []) for ru in case['rules']) and fp else ''}, "
                        f"asked {'of the chain' if via == 'chain' else 'over a connection'}; backend {obs['backend']}, chain {obs['chain']}, rules {case['rules']})")
                if via == "chain":
                    ok, line = r["direct"]
                    st, served = ("ok" if ok else str(line)[:2]), bool(ok)
                else:
                    st, served = r["st"], bool(r["h"]) or r["st"][:1] == "2"
                if not admit:
                    if served:
                        return ("denied-peer-served", f"{what}: the written policy ({policy}) refuses this address, yet the request was {'admitted by the chain' if via == 'chain' else 'served (handler runs ' + str(r['h']) + ', status ' + repr(r['st']) + ')'}")
                    cert_says = None
                    if cert_ref is not None:
                        okc, respc = self.ref_loop.run_until_complete(cert_ref.process_request(self.url_of(path), peer, fp))
                        cert_says = None if okc else str(respc)[:2]
                    if st != (cert_says or "53"):
                        return ("denied-peer-not-53", f"{what}: the written policy ({policy}) refuses this address; expected status {cert_says or '53'}{' (certificate auth comes first)' if cert_says else ''}, got {st!r}")
                    if via == "chain" and cert_says is None and not is_53(r["direct"][1]):
                        return ("refusal-not-53", f"{what}: refused with {r['direct'][1]!r} instead of a 53 line")
                elif st == "53":
                    return ("wrong-decision", f"{what}: the written policy ({policy}) admits this address but the answer was 53")
        return None

    def key(self, case, obs):
        al, dn = case["allow"], case["deny"]
        kind = ("both" if al and dn else "allow-only" if al else "deny-only" if dn else "no-entries")
        if obs["start"] != "ok":
            return f"no-start:{kind}"
        ref = ref_policy(al, dn, case["default"], case["peers"])
        listed_denied = ref != "nostart" and any(not ref[pi] and cert is not None and any(cert in (ru["fps"] or []) and path.startswith(ru["prefix"]) for ru in case["rules"])
                                                 for pi, path, cert in case["reqs"])
        sts = "".join(sorted({r["st"][:1] or "-" for r in obs["reqs"]}))
        return f"{obs['backend']}:{kind}:dflt={int(case['default'])}:{'whitelisted-cert-from-denied-address:' if listed_denied else ''}st={sts}"


# ----------------------------------------------------------------------------
# the policy at work in the running server: requests that arrive in several reads, connections that overlap
# ----------------------------------------------------------------------------
SERVED_LINES = ["gemini://localhost/", "gemini://localhost/app/x.gmi?q=1",
                "titan://localhost/up/a.txt;size=3;mime=text/plain", "titan://localhost/up/b.gmi;size=17;mime=text/gemini;token=t",
                "titan://localhost/up/big.bin;size=40", "titan://localhost/up/a.txt;size=0;token=t"]
# the lines sim/pump_multi.py knows the content of (size=3 / size=2 / size=0)
PUMP_LINES = ["gemini://localhost/", "gemini://localhost/app/x.gmi?q=1", "titan://localhost/up/a.txt;size=3;mime=text/plain",
              "titan://localhost/up/b.gmi;size=2;token=t", "titan://localhost/up/a.txt;size=0;token=t"]
NEIGHBOURS_BEFORE = [None, None, None, ["slow", 1], ["slow", 2], ["rate"]]
NEIGHBOURS_AFTER = [None, None, None, ["slow", 1], ["slow", 3], ["rate"]]


def gen_policy_and_peers(rng, mixed=True):
    """a policy every entry of which is interpretable, and peers sorted by what the property text says about them"""
    for _ in range(16):
        allow, deny, nets, default = gen_lists(rng, malformed_p=0.0)
        peers = list(dict.fromkeys(gen_peers(rng, allow, deny, nets)))
        ref = ref_policy(allow, deny, default, peers)
        if ref == "nostart":
            continue
        adm = [p for p, r in zip(peers, ref) if r]
        rej = [p for p, r in zip(peers, ref) if not r]
        rej_parsed = [p for p in rej if peer_tuple(p) is not None]
        if not mixed or (adm and rej_parsed):
            return allow, deny, default, adm, rej_parsed, [p for p in rej if peer_tuple(p) is None]
    return None, ["198.51.100.0/24"], True, ["192.0.2.7", "2001:db8::5"], ["198.51.100.9"], ["unknown"]


def pick_peers(rng, adm, rej, unparsed, n):
    """n peers; whenever the policy tells peers apart, neighbours get different verdicts"""
    out = []
    flip = rng.random() < 0.5
    for k in range(n):
        want_adm = (k % 2 == 0) != flip
        if rng.random() < 0.15:
            want_adm = not want_adm
        pool = adm if (want_adm and adm) else (unparsed if (unparsed and rng.random() < 0.12) else rej) or adm or unparsed
        out.append(rng.choice(pool))
    return out


def mk_chain(case, loop=None):
    """the chain's components: the real AccessControl built from the case's policy among neighbours that admit everybody"""
    from nauyaca.server.middleware import AccessControl, AccessControlConfig, RateLimitConfig, RateLimiter

    from ..sim.acl_reads import Slow

    comps = []
    for s in case["chain"]:
        if s[0] == "acl":
            comps.append(AccessControl(AccessControlConfig(allow_list=case["allow"], deny_list=case["deny"], default_allow=case["default"])))
        elif s[0] == "slow":
            comps.append(Slow(s[1]))
        else:
            comps.append(RateLimiter(RateLimitConfig(capacity=100000, refill_rate=1.0)))
    return comps


def gen_chain(rng):
    b, a = rng.choice(NEIGHBOURS_BEFORE), rng.choice(NEIGHBOURS_AFTER)
    return ([b] if b else []) + [["acl"]] + ([a] if a else [])


class _ServedFamily(Family):
    """shared oracle of the families that watch whole connections: obs["conns"][i] = {st, h, u, lost, complete, ...},
    obs["consults"] = [[i, url, ip, fp]...], obs["trace"]"""

    backend = ""

    def describe(self, i, cn, r):
        raise NotImplementedError

    def oracle(self, case, obs):
        peers = [c["peer"] for c in case["conns"]]
        ref = ref_policy(case["allow"], case["deny"], case["default"], peers)
        if ref == "nostart":
            return None
        policy = f"allow={case['allow']!r} deny={case['deny']!r} default_allow={case['default']}"
        trace = " ".join(obs["trace"])
        for i, (cn, admit, r) in enumerate(zip(case["conns"], ref, obs["conns"])):
            what = self.describe(i, cn, r)
            asked = [c for c in obs["consults"] if c[0] == i]
            asked_text = ("; the chain was asked about address(es) " + ", ".join(repr(c[2]) for c in asked) + " for it") if asked else "; the chain was not asked"
            others = ", ".join(f"{j}: {p!r}" for j, p in enumerate(peers) if j != i)
            tail = (f"{asked_text}; " + (f"other connections open at the time: {others}; " if others else "") +
                    f"chain {case['chain']}; {self.backend}order of events: {trace}")
            if not admit:
                if r["h"] or r["u"] or r["st"][:1] == "2":
                    ran = (f"the upload handler ran ({r['u']}x" + (f", it was handed the content {r['stored']!r}" if r.get("stored") is not None else "") + ")") if r["u"] else \
                          (f"the request handler ran ({r['h']}x)" if r["h"] else "no handler ran")
                    return ("denied-peer-served", f"{what}: the configured policy ({policy}) refuses this address, yet {ran} and the client was answered {r['st']!r}{tail}")
                if r["st"] != "53" and not (r["st"] == "" and (r["lost"] or not r["complete"] or not asked)):
                    return ("denied-peer-not-53", f"{what}: the configured policy ({policy}) refuses this address; expected 53, the client received {r['st']!r}{tail}")
                if r["st"] == "53" and "head" in r and not is_53(r["head"]):
                    return ("refusal-not-53", f"{what}: refused with {r['head']!r} instead of a 53 line")
            else:
                if r["st"] == "53":
                    return ("wrong-decision", f"{what}: the configured policy ({policy}) admits this address but the answer was 53{tail}")
                if r["complete"] and not r["lost"] and (r["h"] + r["u"] != 1 or r["st"] != "20"):
                    return ("admitted-peer-not-served", f"{what}: the configured policy ({policy}) admits this address and nothing else in the chain refuses anybody, yet the whole request "
                                                        f"led to {r['h']} handler / {r['u']} upload handler run(s) and the answer {r['st']!r}{tail}")
        return None

    def shrink_candidates(self, cur):
        ev = "d" if any(e[0] == "d" for e in cur["sched"]) else "s"
        for i in range(len(cur["conns"])):
            if len(cur["conns"]) > 1:
                sched = [[e[0], e[1] - (e[1] > i)] if e[0] in (ev, "x") else e for e in cur["sched"] if not (e[0] in (ev, "x") and e[1] == i)]
                yield dict(cur, conns=cur["conns"][:i] + cur["conns"][i + 1:], sched=sched)
        for j, s in enumerate(cur["chain"]):
            if s[0] != "acl":
                yield dict(cur, chain=cur["chain"][:j] + cur["chain"][j + 1:])
        for k, e in enumerate(cur["sched"]):
            if e[0] == "x" or (e[0] == "y" and ev == "s"):
                yield dict(cur, sched=cur["sched"][:k] + cur["sched"][k + 1:])
        for i, c in enumerate(cur["conns"]):
            if c.get("cuts") and ev == "s":
                last = max(k for k, e in enumerate(cur["sched"]) if e == ["s", i])
                yield dict(cur, conns=cur["conns"][:i] + [dict(c, cuts=[])] + cur["conns"][i + 1:], sched=cur["sched"][:last] + cur["sched"][last + 1:])

    def shrink(self, case, bad):
        cur, budget, changed = case, 60, True
        while changed and budget > 0:
            changed = False
            for cand in self.shrink_candidates(cur):
                budget -= 1
                if budget <= 0:
                    break
                try:
                    if bad(cand):
                        cur, changed = cand, True
                        break
                except Exception:  # noqa: BLE001
                    pass
        return cur


class Reads(_ServedFamily):
    """the policy at work on connections of the real GeminiServerProtocol (fake transport reporting the peer's address,
    virtual loop, real MiddlewareChain holding the real AccessControl among neighbours that admit everybody): Gemini
    requests and Titan uploads from admitted and refused addresses, the bytes of a request - request line, upload
    content - cut into several reads that arrive in the same, the next or a later event-loop iteration, several
    connections at once, connections that are lost half-way.

    Direct oracle (no Lean line), per connection with ITS address: a peer the configured policy refuses (also one whose
    address cannot be parsed) is answered 53 - or nothing as long as its request is incomplete / after it is gone - and
    neither the request handler nor the upload handler ever runs for it; a peer the policy admits is never answered 53
    and, once its whole request is there, is served exactly once."""

    name = "reads"
    quick_n = 2400
    thorough_n = 60000
    backend = ""

    FIXED = [
        # Titan uploads from a refused and from an admitted address: request line and content in two reads that the loop
        # hands over in consecutive iterations / in one read / a long while apart
        {"allow": None, "deny": ["10.0.0.0/8"], "default": True, "chain": [["acl"]],
         "conns": [{"peer": "10.1.2.3", "line": SERVED_LINES[2], "cuts": [len(SERVED_LINES[2]) + 2]}, {"peer": "192.0.2.7", "line": SERVED_LINES[2], "cuts": [len(SERVED_LINES[2]) + 2]}],
         "sched": [["d", 0], ["y", 1], ["d", 0], ["y", 4], ["d", 1], ["y", 1], ["d", 1]]},
        {"allow": None, "deny": ["10.0.0.0/8"], "default": True, "chain": [["acl"]],
         "conns": [{"peer": "10.1.2.3", "line": SERVED_LINES[2], "cuts": []}, {"peer": "192.0.2.7", "line": SERVED_LINES[2], "cuts": []}], "sched": [["d", 0], ["d", 1]]},
        {"allow": None, "deny": ["10.0.0.0/8"], "default": True, "chain": [["acl"]],
         "conns": [{"peer": "10.1.2.3", "line": SERVED_LINES[3], "cuts": [len(SERVED_LINES[3]) + 2]}, {"peer": "192.0.2.7", "line": SERVED_LINES[3], "cuts": [len(SERVED_LINES[3]) + 2]}],
         "sched": [["d", 0], ["d", 1], ["y", 6], ["d", 0], ["d", 1]]},
        {"allow": ["2001:db8::/32"], "deny": None, "default": False, "chain": [["slow", 2], ["acl"]],
         "conns": [{"peer": "2001:db9::1", "line": SERVED_LINES[0], "cuts": [5]}, {"peer": "2001:db8::1", "line": SERVED_LINES[1], "cuts": [9, 20]}],
         "sched": [["d", 0], ["d", 1], ["y", 1], ["d", 1], ["d", 0], ["y", 2], ["d", 1]]},
    ]

    @property
    def R(self):          # (gen runs before setup)
        from ..sim import acl_reads

        return acl_reads

    def setup(self):
        from ..sim import srv as sim

        self.loop = sim.VLoop()
        asyncio.set_event_loop(self.loop)

    def gen_cuts(self, rng, cn):
        whole = len(self.R.request_bytes(cn))
        eol = len(cn["line"].encode()) + 2
        r = rng.random()
        if whole > eol:      # an upload with content
            if r < 0.15:
                return []
            if r < 0.55:
                return [eol]                                        # request line | content
            if r < 0.70:
                return [eol, rng.randint(eol + 1, whole - 1)] if whole - eol > 1 else [eol]
            if r < 0.80:
                return [rng.randint(eol + 1, whole - 1)] if whole - eol > 1 else [eol]     # line and some content | the rest
            if r < 0.88:
                return [eol - 1]                                    # ... CR | LF content
        elif r < 0.4:
            return []
        return sorted(set(rng.sample(range(1, whole), min(whole - 1, rng.choice((1, 1, 2, 3))))))

    def gen(self, rng, n):
        k = 0
        for c in self.share(self.FIXED):
            k += 1
            yield c
        while k < n:
            k += 1
            allow, deny, default, adm, rej, unparsed = gen_policy_and_peers(rng, mixed=rng.random() < 0.85)
            nconn = rng.choice((1, 1, 2, 2, 3))
            conns = []
            for p in pick_peers(rng, adm, rej, unparsed, nconn):
                cn = {"peer": p, "line": rng.choice(SERVED_LINES[2:5] if rng.random() < 0.6 else SERVED_LINES)}
                cn["cuts"] = self.gen_cuts(rng, cn)
                conns.append(cn)
            todo = [[i] * (len(c["cuts"]) + 1) for i, c in enumerate(conns)]
            sched = []
            while any(todo):
                i = rng.choice([j for j, t in enumerate(todo) if t])
                todo[i].pop()
                sched.append(["d", i])
                y = rng.choice((0, 0, 1, 1, 1, 2, 2, 3, 4, 6))
                if y:
                    sched.append(["y", y])
            if rng.random() < 0.12:
                sched.insert(rng.randint(1, len(sched)), ["x", rng.randrange(nconn)])
            yield {"allow": allow, "deny": deny, "default": default, "chain": gen_chain(rng), "conns": conns, "sched": sched}

    def impl(self, case):
        o = self.loop.run_until_complete(self.R.run_reads(self.loop, case, mk_chain(case)))
        for r in o["conns"]:
            r["complete"] = r["sent"] == r["parts"]
        return o

    def describe(self, i, cn, r):
        return f"connection {i} ({cn['line']!r} from {cn['peer']!r}, its {len(self.R.request_bytes(cn))} bytes delivered in {r['parts']} read(s) cut at {cn['cuts']})"

    def gaps(self, case):
        """per Titan upload with content: loop iterations between the read that completes the request line and the read
        that completes the content (None: same read)"""
        out = []
        for i, cn in enumerate(case["conns"]):
            whole = len(self.R.request_bytes(cn))
            eol = len(cn["line"].encode()) + 2
            if whole == eol:
                continue
            ends = sorted({c for c in cn["cuts"] if 0 < c < whole}) + [whole]
            k_line = next(k for k, e in enumerate(ends) if e >= eol)
            if k_line == len(ends) - 1:
                out.append(None)
                continue
            seen, gap, counting = 0, 0, False
            for e in case["sched"]:
                if e[0] == "d" and e[1] == i:
                    if seen == k_line:
                        counting = True
                    seen += 1
                    if seen == len(ends):
                        break
                elif e[0] == "y" and counting:
                    gap += e[1]
            out.append(gap if seen == len(ends) else -1)
        return out

    def key(self, case, obs):
        kinds = "+".join(s[0] + (str(s[1]) if s[0] == "slow" else "") for s in case["chain"])
        g = self.gaps(case)
        gs = ",".join(sorted({"one-read" if x is None else "cut-short" if x < 0 else f"gap{min(x, 4)}" for x in g})) or "gemini-only"
        sts = "".join(sorted({r["st"][:1] or "-" for r in obs["conns"]}))
        return f"{kinds}|n{len(case['conns'])}|{gs}|lost{int(any(r['lost'] for r in obs['conns']))}|st={sts}"


class PumpPeers(_ServedFamily):
    """PyOpenSSL backend (the TLS layer the server uses as soon as client certificates matter): two to four connections
    of one server from DIFFERENT addresses - some the policy admits, some it refuses - open AT THE SAME TIME (real
    TLSServerProtocol objects from one server context, real TLS clients over memory BIOs with or without a client
    certificate, one shared real chain holding the real AccessControl; sim/pump_multi.py).  The stages of the
    connections (TCP connect, first flight, end of the handshake, the pieces of the request, loss) are interleaved in
    a chosen order, so that whatever the backend remembers about a peer is read while another peer has just connected.

    Direct oracle (no Lean line): every connection is decided by ITS OWN address - the oracle of family `reads`."""

    name = "pumppeers"
    quick_n = 640
    thorough_n = 8000
    backend = "pyopenssl backend, "

    FIXED = [
        # the refused address connects first, the admitted one connects before the first has finished its handshake
        {"allow": None, "deny": ["198.51.100.0/24"], "default": True, "chain": [["acl"]],
         "conns": [{"peer": "198.51.100.9", "line": PUMP_LINES[0], "cert": None, "cuts": []}, {"peer": "192.0.2.7", "line": PUMP_LINES[0], "cert": None, "cuts": []}],
         "sched": [["s", 0], ["s", 1], ["s", 0], ["s", 0], ["s", 0], ["y", 3], ["s", 1], ["s", 1], ["s", 1], ["y", 3]]},
        # the other way round, with a client certificate and an upload
        {"allow": ["2001:db8::/32"], "deny": None, "default": False, "chain": [["acl"], ["slow", 1]],
         "conns": [{"peer": "2001:db8::5", "line": PUMP_LINES[2], "cert": 0, "cuts": [len(PUMP_LINES[2]) + 2]}, {"peer": "2001:db9::5", "line": PUMP_LINES[2], "cert": 1, "cuts": []}],
         "sched": [["s", 0], ["s", 0], ["s", 1], ["s", 0], ["s", 1], ["s", 0], ["y", 1], ["s", 1], ["s", 0], ["s", 1], ["y", 4]]},
    ]

    def setup(self):
        from ..sim import pump_multi
        from ..sim import srv as sim

        self.M, self.sim, self.loop = pump_multi, sim, sim.VLoop()
        asyncio.set_event_loop(self.loop)

    def gen(self, rng, n):
        from ..sim.mw_multi import wire_bytes

        k = 0
        for c in self.share(self.FIXED):
            k += 1
            yield c
        while k < n:
            k += 1
            allow, deny, default, adm, rej, unparsed = gen_policy_and_peers(rng, mixed=rng.random() < 0.9)
            nconn = rng.choice((2, 2, 2, 3, 3, 4))
            conns = []
            for p in pick_peers(rng, adm, rej, unparsed, nconn):
                cn = {"peer": p, "line": rng.choice(PUMP_LINES), "cert": rng.choice((None, None, None, 0, 1, 3))}
                size = len(wire_bytes(cn["line"]))
                cn["cuts"] = [rng.randint(1, size - 1)] if rng.random() < 0.3 else []
                conns.append(cn)
            todo = [[i] * (4 + len(c["cuts"])) for i, c in enumerate(conns)]
            sched = []
            while any(todo):
                i = rng.choice([j for j, t in enumerate(todo) if t])
                burst = rng.choice((1, 1, 1, 2, 3)) if len(todo[i]) > 1 else 1
                for _ in range(min(burst, len(todo[i]))):
                    todo[i].pop()
                    sched.append(["s", i])
                y = rng.choice((0, 0, 0, 1, 2, 5))
                if y:
                    sched.append(["y", y])
            if rng.random() < 0.15:
                sched.insert(rng.randint(1, len(sched)), ["x", rng.randrange(nconn)])
            yield {"allow": allow, "deny": deny, "default": default, "chain": gen_chain(rng), "conns": conns, "sched": sched}

    def impl(self, case):
        loop = self.loop
        o = loop.run_until_complete(self.M.run_pump_multi(loop, case, mk_chain(case)))
        left = [t for t in asyncio.all_tasks(loop) if not t.done()]
        for t in left:
            t.cancel()
        if left:
            loop.run_until_complete(self.sim._drain())
        for r in o["conns"]:
            r["complete"] = bool(r["sent_all"])
        o.pop("comp", None)
        return o

    def describe(self, i, cn, r):
        return (f"connection {i} ({cn['line']!r} from {cn['peer']!r}, " + (f"presenting client certificate {cn['cert']}" if cn.get("cert") is not None else "no client certificate") +
                (f", request cut at {cn['cuts']}" if cn.get("cuts") else "") + ")")

    def key(self, case, obs):
        kinds = "+".join(s[0] for s in case["chain"])
        tr = obs["trace"]
        # did another peer connect between some connection's TCP connect and the end of its handshake?
        inter = False
        for i in range(len(case["conns"])):
            try:
                a, b = tr.index(f"{i}:connect"), tr.index(f"{i}:handshake-done")
            except ValueError:
                continue
            inter = inter or any(t.endswith(":connect") for t in tr[a + 1:b])
        ref = ref_policy(case["allow"], case["deny"], case["default"], [c["peer"] for c in case["conns"]])
        verdicts = "mixed" if len(set(ref)) > 1 else "alike"
        sts = "".join(sorted({r["st"][:1] or "-" for r in obs["conns"]}))
        return f"{kinds}|n{len(case['conns'])}|{'overlap' if inter else 'apart'}|{verdicts}|lost{int(any(r['lost'] for r in obs['conns']))}|st={sts}"


FAMILIES = [Objects(), Wiring(), Layered(), Reads(), PumpPeers()]
