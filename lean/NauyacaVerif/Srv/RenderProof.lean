import NauyacaVerif.Srv.Render
namespace Srv

/-- a well-formed response header -/
def WFHeader (h : Bytes) : Prop :=
  ∃ (st : Nat) (m : Bytes), h = digits2 st ++ [32] ++ m ++ [13, 10] ∧ 10 ≤ st ∧ st ≤ 69 ∧
    (∀ b ∈ m, b ≠ 13 ∧ b ≠ 10) ∧ m.length ≤ 1024

def statusOf (h : Bytes) : Nat := match h with | a :: b :: _ => (a - 48) * 10 + (b - 48) | _ => 0

theorem takeWhole_length (limit : Nat) (ps : List Bytes) : (takeWhole limit ps).length ≤ limit := by
  induction ps generalizing limit with
  | nil => simp [takeWhole]
  | cons p ps ih =>
    simp only [takeWhole]
    split
    · have := ih (limit - p.length); simp; omega
    · simp

theorem takeWhole_mem {limit : Nat} {ps : List Bytes} {b : Nat} (h : b ∈ takeWhole limit ps) :
    ∃ p ∈ ps, b ∈ p := by
  induction ps generalizing limit with
  | nil => simp [takeWhole] at h
  | cons p ps ih =>
    simp only [takeWhole] at h
    split at h
    · simp at h
      rcases h with h | h
      · exact ⟨p, by simp, h⟩
      · obtain ⟨q, hq, hb⟩ := ih h; exact ⟨q, by simp [hq], hb⟩
    · simp at h

theorem utf8_no_crlf {c b : Nat} (hb : b ∈ utf8 c) (hc : c ≠ 13 ∧ c ≠ 10) : b ≠ 13 ∧ b ≠ 10 := by
  unfold utf8 at hb
  split at hb
  · simp at hb; subst hb; exact hc
  · split at hb
    · simp at hb; rcases hb with rfl | rfl <;> omega
    · split at hb
      · simp at hb; rcases hb with rfl | rfl | rfl <;> omega
      · simp at hb; rcases hb with rfl | rfl | rfl | rfl <;> omega

theorem piece_clean {c b : Nat} (hne : c ≠ 13 ∧ c ≠ 10)
    (hb : b ∈ (if isSurrogate c || c > 0x10FFFF then [63] else utf8 c)) : b ≠ 13 ∧ b ≠ 10 := by
  split at hb
  · simp at hb; subst hb; decide
  · exact utf8_no_crlf hb hne

theorem meta_clean (m : PyStr) : ∀ b ∈ takeWhole maxMeta (encodeReplace (scrub m)), b ≠ 13 ∧ b ≠ 10 := by
  intro b hb
  obtain ⟨p, hp, hbp⟩ := takeWhole_mem hb
  simp only [encodeReplace, scrub, List.map_map, List.mem_map] at hp
  obtain ⟨c, _, rfl⟩ := hp
  simp only [Function.comp] at hbp
  refine piece_clean ?_ hbp
  split <;> omega

theorem statusOf_header (st : Nat) (h : st ≤ 99) (m : PyStr) : statusOf (header st m) = st := by
  simp [statusOf, header, digits2]; omega

theorem header_wf (st : Nat) (m : PyStr) (h1 : 10 ≤ st) (h2 : st ≤ 69) : WFHeader (header st m) :=
  ⟨st, _, rfl, h1, h2, meta_clean m, takeWhole_length _ _⟩

theorem normStatus_range (r : Resp) : 10 ≤ (normStatus r).1 ∧ (normStatus r).1 ≤ 69 := by
  unfold normStatus; split <;> simp <;> omega

theorem encodeBody_range {st : Nat} (m : PyStr) (b : Body) (h : 10 ≤ st ∧ st ≤ 69) :
    10 ≤ (encodeBody st m b).1 ∧ (encodeBody st m b).1 ≤ 69 := by
  unfold encodeBody
  split
  · split
    · simpa using h
    · simpa using h
    · split <;> simp <;> omega
  · simpa using h

theorem encodeBody_2x (st : Nat) (m : PyStr) (b : Body) (h : (encodeBody st m b).2.2 ≠ []) :
    20 ≤ (encodeBody st m b).1 ∧ (encodeBody st m b).1 ≤ 29 := by
  unfold encodeBody at h ⊢
  split at h
  · rename_i h2
    simp only [h2, and_self, ↓reduceIte]
    split at h
    · simp at h
    · simpa using h2
    · split at h
      · simpa using h2
      · simp at h
  · simp at h

/-- C01 core: whatever a handler returns, the serialised header is well-formed
    and a body is present only under a 2x status -/
theorem render_wf (r : Resp) :
    WFHeader (render r).1 ∧ ((render r).2 ≠ [] → 20 ≤ statusOf (render r).1 ∧ statusOf (render r).1 ≤ 29) := by
  have hr := encodeBody_range (normStatus r).2.1 (normStatus r).2.2 (normStatus_range r)
  refine ⟨header_wf _ _ hr.1 hr.2, fun hb => ?_⟩
  show 20 ≤ statusOf (header _ _) ∧ statusOf (header _ _) ≤ 29
  rw [statusOf_header _ (by omega)]
  exact encodeBody_2x _ _ _ hb

example : (render ⟨20, [97, 13, 10, 98], .str [0xDC80]⟩).1 = header 40 metaBadBody := by
  simp [render, normStatus, encodeBody, encodeStrict, isSurrogate]
end Srv
