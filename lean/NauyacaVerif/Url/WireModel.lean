import NauyacaVerif.Url.Basic
namespace Url

/-! # C19 `wire_roundtrip`: the request line the client writes, as the server reads it

Client (`GeminiClient.get` → `_get_single` → `GeminiClientProtocol.send_request`): `validate_url(url)`
on the caller's string, `validate_url(parse_url(url).normalized)`, then the bytes of `normalized + "\r\n"`.
Server (`GeminiServerProtocol.data_received` → `GeminiRequest.from_line`): the text before the first
CRLF, refused when longer than `MAX_REQUEST_SIZE - 2` bytes, otherwise `parse_url`.
The UTF-8 encode/decode pair between the two is the identity on text and cannot create a CRLF
(codec contract, DESIGN §3); the model therefore frames text, and measures its length in UTF-8 bytes. -/

def utf8Len (s : Str) : Nat := (s.map Char.utf8Size).sum

def crlf : Str := ['\r', '\n']

/-- `buffer.split(CRLF, 1)`: text before the first CRLF and the rest -/
def cutCRLF : Str → Option (Str × Str)
  | [] => none
  | c :: cs =>
    if c = '\r' ∧ cs.head? = some '\n' then some ([], cs.drop 1)
    else match cutCRLF cs with
      | none => none
      | some (a, b) => some (c :: a, b)

inductive WireErr where
  | incomplete | tooLong | url (e : Err)
deriving Repr, DecidableEq

/-- `validate_url` followed by `parse_url` (`GeminiRequest.from_line`, and the client's `get`) -/
def validated (env : Env) (maxReq : Nat) (line : Str) : Except WireErr Parsed :=
  if utf8Len line + 2 > maxReq then .error .tooLong
  else match parseUrl env line with
    | .error e => .error (.url e)
    | .ok P => .ok P

/-- what the client writes for the caller's URL: `get` validates the caller's string, `_get_single`
    parses it and validates the normalised form, which is what goes on the wire -/
def clientWire (env : Env) (maxReq : Nat) (u : Str) : Except WireErr Str :=
  match validated env maxReq u with
  | .error e => .error e
  | .ok P =>
    match validated env maxReq P.normalized with
    | .error e => .error e
    | .ok _ => .ok (P.normalized ++ crlf)

/-- what the server makes of the bytes it received -/
def serverParse (env : Env) (maxReq : Nat) (wire : Str) : Except WireErr Parsed :=
  match cutCRLF wire with
  | none => .error .incomplete
  | some (line, _) => validated env maxReq line

end Url
