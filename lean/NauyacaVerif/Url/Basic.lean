namespace Url
abbrev Str := List Char

def isC0OrSpace (c : Char) : Bool := c.toNat ≤ 32
def isUnsafe (c : Char) : Bool := c = '\t' || c = '\r' || c = '\n'
def schemeChar (c : Char) : Bool :=
  c.isAlphanum || c = '+' || c = '-' || c = '.'
def lowerAscii (c : Char) : Char := if 'A' ≤ c ∧ c ≤ 'Z' then Char.ofNat (c.toNat + 32) else c

/-- index of first char satisfying p -/
def findIdx (p : Char → Bool) : Str → Option Nat
  | [] => none
  | c :: cs => if p c then some 0 else (findIdx p cs).map (· + 1)

/-- split at first occurrence of c: (before, after) ; none if absent -/
def splitOnce (c : Char) (s : Str) : Option (Str × Str) :=
  match findIdx (· = c) s with
  | none => none
  | some i => some (s.take i, s.drop (i+1))

structure Split where
  scheme : Str
  netloc : Str
  path : Str
  query : Str
  fragment : Str
deriving Repr, DecidableEq

inductive Err where
  | invalidIPv6 | bracketHost | nfkc | noScheme | badScheme | noHost | userinfo | fragment | badPort | portRange | empty
deriving Repr, DecidableEq

structure Env where
  ipLiteralOk : Str → Bool
  nfkcOk : Str → Bool
  lowerU : Str → Str

def isDelim (c : Char) : Bool := c = '/' || c = '?' || c = '#'

def preprocess (u : Str) : Str := (u.dropWhile isC0OrSpace).filter (fun c => !isUnsafe c)

def firstIsAsciiAlpha (url : Str) : Bool :=
  match url.head? with
  | some c => decide (c.toNat < 128) && c.isAlpha
  | none => false

/-- `i > 0 and url[0].isascii() and url[0].isalpha()` and every char of `url[:i]` is a scheme char -/
def schemeOk (url : Str) (i : Nat) : Bool := decide (i > 0) && firstIsAsciiAlpha url && (url.take i).all schemeChar

def splitScheme (url : Str) : Str × Str :=
  match findIdx (· = ':') url with
  | some i => if schemeOk url i then ((url.take i).map lowerAscii, url.drop (i+1)) else ([], url)
  | none => ([], url)

def splitNetloc (url : Str) : Str × Str :=
  if url.take 2 = ['/','/'] then
    let rest := url.drop 2
    match findIdx isDelim rest with
    | some j => (rest.take j, rest.drop j)
    | none => (rest, [])
  else ([], url)

/-- `s.split(c, 1)` when `c` occurs, `(s, "")` otherwise -/
def cutAt (c : Char) (s : Str) : Str × Str :=
  match splitOnce c s with
  | some (a, b) => (a, b)
  | none => (s, [])

def splitTail (url : Str) : Str × Str × Str :=
  ((cutAt '?' (cutAt '#' url).1).1, (cutAt '?' (cutAt '#' url).1).2, (cutAt '#' url).2)

def bracketed (nl : Str) : Str :=
  let afterO : Str := match splitOnce '[' nl with | some (_, b) => b | none => []
  match splitOnce ']' afterO with | some (b, _) => b | none => afterO

def checkNetloc (env : Env) (nl : Str) : Option Err :=
  let hasO := nl.contains '['
  let hasC := nl.contains ']'
  if (hasO && !hasC) || (hasC && !hasO) then some .invalidIPv6
  else if hasO && hasC && !env.ipLiteralOk (bracketed nl) then some .bracketHost
  else if !(nl.all (·.toNat < 128)) && !env.nfkcOk nl then some .nfkc
  else none

def urlsplit (env : Env) (url0 : Str) : Except Err Split :=
  let (scheme, u1) := splitScheme (preprocess url0)
  let (netloc, u2) := splitNetloc u1
  let (path, query, fragment) := splitTail u2
  match checkNetloc env netloc with
  | some e => .error e
  | none => .ok { scheme, netloc, path, query, fragment }

/-- rpartition at last occurrence of c -/
def rsplitOnce (c : Char) (s : Str) : Option (Str × Str) :=
  match splitOnce c s.reverse with
  | none => none
  | some (a, b) => some (b.reverse, a.reverse)

structure HostInfo where
  hostRaw : Str
  port : Option Str
deriving Repr

def hostinfo (netloc : Str) : HostInfo :=
  let hi := match rsplitOnce '@' netloc with | some (_, h) => h | none => netloc
  match splitOnce '[' hi with
  | some (_, bracketed) =>
    let (h, after) := match splitOnce ']' bracketed with | some (a,b) => (a,b) | none => (bracketed, [])
    let port := match splitOnce ':' after with | some (_, p) => p | none => []
    { hostRaw := h, port := if port.isEmpty then none else some port }
  | none =>
    let (h, port) := match splitOnce ':' hi with | some (a,b) => (a,b) | none => (hi, [])
    { hostRaw := h, port := if port.isEmpty then none else some port }

def userinfo (netloc : Str) : Option Str × Option Str :=
  match rsplitOnce '@' netloc with
  | none => (none, none)
  | some (ui, _) =>
    match splitOnce ':' ui with
    | some (u, p) => (some u, some p)
    | none => (some ui, none)

def hostname (env : Env) (netloc : Str) : Option Str :=
  let h := (hostinfo netloc).hostRaw
  if h.isEmpty then none else
  match splitOnce '%' h with
  | some (a, z) => some (env.lowerU a ++ ['%'] ++ z)
  | none => some (env.lowerU h)

def parseNat (s : Str) : Nat := s.foldl (fun n c => n * 10 + (c.toNat - 48)) 0

def portOf (netloc : Str) : Except Err (Option Nat) :=
  match (hostinfo netloc).port with
  | none => pure none
  | some p =>
    if p.all (fun c => '0' ≤ c ∧ c ≤ '9') then
      let n := parseNat p
      if n ≤ 65535 then pure (some n) else throw Err.portRange
    else throw Err.badPort

structure Parsed where
  host : Str
  port : Nat
  path : Str
  query : Str
  normalized : Str
deriving Repr, DecidableEq

def digitChar (d : Nat) : Char := Char.ofNat (48 + d)

/-- decimal digits, most significant first (= Python's `str(int)`) -/
def natToStr (n : Nat) : Str :=
  if h : n < 10 then [digitChar n] else natToStr (n / 10) ++ [digitChar (n % 10)]
termination_by n
decreasing_by omega

def unsplit (scheme netloc path query fragment : Str) : Str :=
  let url := if !netloc.isEmpty then
      let p := if !path.isEmpty ∧ path.head? ≠ some '/' then '/' :: path else path
      ['/','/'] ++ netloc ++ p
    else path
  let url := if !scheme.isEmpty then scheme ++ [':'] ++ url else url
  let url := if !query.isEmpty then url ++ ['?'] ++ query else url
  if !fragment.isEmpty then url ++ ['#'] ++ fragment else url

/-- `urlunparse`: `;params` is re-attached to the path, the rest is `urlunsplit` -/
def unparse6 (scheme netloc path params query fragment : Str) : Str :=
  unsplit scheme netloc (if params.isEmpty then path else path ++ [';'] ++ params) query fragment

def gemini : Str := ['g', 'e', 'm', 'i', 'n', 'i']

/-- the host part of the authority: `netloc.rpartition("@")[2]` -/
def hostPart (netloc : Str) : Str := match rsplitOnce '@' netloc with | some (_, h) => h | none => netloc

/-- `f"[{hostname}]" if "[" in netloc.rpartition("@")[2] else hostname`: a host that was written as an
    IP literal (IPv6 or IPvFuture) stays bracketed in the normalised string -/
def rebracket (netloc host : Str) : Str := if (hostPart netloc).contains '[' then '[' :: (host ++ [']']) else host

/-- the checks `parse_url` applies to the split result, in its order -/
def parseSplit (env : Env) (sp : Split) : Except Err Parsed :=
  if sp.scheme.isEmpty then .error .noScheme
  else if sp.scheme ≠ gemini then .error .badScheme
  else match hostname env sp.netloc with
    | none => .error .noHost
    | some host =>
      if ((userinfo sp.netloc).1.getD []).length > 0 ∨ ((userinfo sp.netloc).2.getD []).length > 0 then .error .userinfo
      else if !sp.fragment.isEmpty then .error .fragment
      else match portOf sp.netloc with
        | .error e => .error e
        | .ok port? =>
          let port := port?.getD 1965
          let path := if sp.path.isEmpty then ['/'] else sp.path
          let nl := if port ≠ 1965 then rebracket sp.netloc host ++ [':'] ++ natToStr port else rebracket sp.netloc host
          .ok { host, port, path, query := sp.query, normalized := unsplit gemini nl path sp.query sp.fragment }

def parseUrl (env : Env) (url : Str) : Except Err Parsed :=
  if url.isEmpty then .error .empty
  else match urlsplit env url with
    | .error e => .error e
    | .ok sp => parseSplit env sp
end Url
