"""C07  Outcome is independent of read segmentation; handlers run at most once."""
from __future__ import annotations

import itertools
import random

from ..sim import srv as sim
from .pumpfam import PumpFamily
from .srvfam import LINES, ConnFamily, gen_resp, get_loop, parse_model

ID = "C07"
READY = True
LEAN_TARGETS = ["NauyacaVerif.Props.C07"]
THEOREMS = ['NauyacaVerif.C07.seg_indep', 'NauyacaVerif.C07.seg_indep_observables', 'NauyacaVerif.C07.seg_indep_then', 'NauyacaVerif.C07.at_most_once', 'NauyacaVerif.C07.trailing_ignored_gemini', 'NauyacaVerif.C07.pump_at_most_once', 'NauyacaVerif.C07.pump_rechunk', 'NauyacaVerif.C07.pump_seg_indep', 'NauyacaVerif.C07.pump_read_merge', 'NauyacaVerif.C07.maxRequest_tie', 'NauyacaVerif.C07.sys_seg_indep', 'NauyacaVerif.C07.sys_late_read_noop']
LEAN_TARGETS = LEAN_TARGETS + ["NauyacaVerif.Props.Tr.DataReceived"]
TRANSLATED = ["dataReceived"]
THEOREMS = THEOREMS + [f"NauyacaVerif.Translated.{t}" for t in ("data_received_refines", "data_received_rel", "reads_refine", "reads_refine_init", "tr_seg_indep")]
EXTRACT = ["maxRequest"]
LEVEL_TEXT = 'Proved for every configuration, state, non-empty list of reads and every continuation: feeding reads one by one is equivalent to feeding their concatenation (output, invocation counts, uploaded content, phase), bytes after a dispatched request are ignored, at most one handler/upload invocation per connection (also behind the pump, whose 8192-byte re-chunking is absorbed). Correspondence: all 2^(n-1) segmentations of short requests, one/two/multi-cut and byte-by-byte for long ones, late reads while a task is pending, and the TLS ciphertext of the same session cut at arbitrary offsets through the real PyOpenSSL pump., and pump_seg_indep: the grouping of TLS items into TCP reads, including application data coalesced with the end of the handshake, is unobservable. The record reassembly of OpenSSL (ciphertext bytes -> items) is trusted and exercised by cutting real ciphertext at arbitrary offsets.'
LEVEL_NOTE = "Trusted: Lean kernel (axioms propext, Classical.choice, Quot.sound only); the hand-written model Srv.step/Srv.pumpStep is tied to /repo by extraction (constants, 'every transport.write sits in _send_response') and by the correspondence run of every check (fake transport with asyncio's write-after-close semantics, virtual-clock loop, scripted handlers; real PyOpenSSL pump over memory BIOs); asyncio's transport/timer contract, OpenSSL's record layer and Python exception texts are assumed, see assumptions."
TECHNIQUE = 'Lean 4 proof (invariant induction over all event lists of an executable connection state machine) + differential correspondence with the real asyncio protocol objects under a virtual clock'
ASSUMPTIONS = [
    "a TCP/TLS read delivers an arbitrary non-empty chunk of the byte stream, in order (asyncio transport contract)",
    "TLS-record level segmentation (ciphertext cut anywhere, handshake coalesced with application data) is exercised through the real PyOpenSSL pump in family pumpseg; OpenSSL's record reassembly itself is trusted",
]


def summary(o):
    return {k: o[k] for k in ("acts", "h", "u", "m", "content", "timer", "dropped", "exc")}


class Seg(ConnFamily):
    """the same byte stream under many segmentations (and the same continuation of other events)"""

    name = "seg"
    check_lens = False  # segmentations differ in their number of events
    quick_n = 450
    thorough_n = 12000

    def gen(self, rng: random.Random, n: int):
        shorts = [b"gemini://h/\r\n", b"titan://h/f;size=2\r\nab", b"titan://h/f;size=0\r\n", b"titan://h/f;size=2\r\nabXY", b"gemini://h/\r\nGARBAGE\r\n",
                  b"\r\n", b"gemini://h/a\r", b"http://h/\r\n", b"titan://h/f;size=3\r\nab", b"titan://h/f;size=11\r\nhello world", b"titan://h/f;size=9\r\n12345678"]
        first = list(self.share(range(len(shorts) * 2)))
        for j in range(n):
            i = first[j] if j < len(first) else len(shorts) * 2 + j
            mw = rng.random() < 0.4
            up = rng.random() < 0.7
            hk = rng.choice(["s", "a", "a", "r"])
            handler = ["s", gen_resp(rng)] if hk == "s" else [hk]
            if i < len(shorts) * 2:
                s = shorts[i % len(shorts)]
                up = True if i < len(shorts) else False
                # all 2^(n-1) segmentations of a short stream (n <= 12 in quick)
                s12 = s[:12] if len(s) > 12 else s
                m = len(s12)
                segs = []
                for mask in range(2 ** (m - 1)):
                    cuts = [j + 1 for j in range(m - 1) if mask >> j & 1]
                    parts, p = [], 0
                    for c in cuts + [m]:
                        parts.append(s12[p:c])
                        p = c
                    if len(s) > 12:
                        parts.append(s[12:])
                    segs.append([x.hex() for x in parts])
                stream = s
            else:
                line = rng.choice(LINES)
                tail = b"" if rng.random() < 0.3 else bytes(rng.randrange(256) for _ in range(rng.randint(0, 20)))
                if rng.random() < 0.3:
                    tail += b"\r\n" + bytes(rng.randrange(256) for _ in range(rng.randint(0, 6)))
                stream = line + b"\r\n" + tail
                m = len(stream)
                segs = [[stream.hex()]]
                for c in rng.sample(range(1, m), min(m - 1, 6)):  # one-cut
                    segs.append([stream[:c].hex(), stream[c:].hex()])
                for _ in range(6):  # two cuts and random multi-cut
                    k = rng.choice([2, 2, 3, 5, 9])
                    cs = sorted(rng.sample(range(1, m), min(m - 1, k)))
                    parts, p = [], 0
                    for c in cs + [m]:
                        parts.append(stream[p:c])
                        p = c
                    segs.append([x.hex() for x in parts])
                segs.append([bytes([b]).hex() for b in stream[:40]] + ([stream[40:].hex()] if m > 40 else []))  # byte by byte
            rest = []
            if mw:
                rest.append(rng.choice([["ma"], ["ma"], ["mr"], ["md", "53 no\r\n"]]))
            if rng.random() < 0.8:
                rest.append(rng.choice([["ha", gen_resp(rng)], ["ua", gen_resp(rng)], ["hr"], ["ur"]]))
            if rng.random() < 0.3:
                rest.append(rng.choice([["t"], ["l"], ["d", "585858"], ["d", "0d0a"]]))
            if rng.random() < 0.3:
                rest.append(rng.choice([["ua", gen_resp(rng)], ["ha", gen_resp(rng)], ["d", "7a"]]))
            yield {"mw": mw, "up": up, "handler": handler, "stream": stream.hex(), "segs": segs, "rest": rest}

    def _case(self, case, seg):
        return {"mw": case["mw"], "up": case["up"], "handler": case["handler"], "evs": [["d", x] for x in seg] + case["rest"]}

    def impl(self, case):
        loop = get_loop()
        return {"runs": [summary(loop.run_until_complete(sim.run_conn(loop, self._case(case, seg)))) for seg in case["segs"]]}

    def model(self, case):
        return sim.enc_case(self._case(case, [case["stream"]]))

    def expect(self, case, out):
        return parse_model(out)

    def same(self, exp, obs):
        return all(ConnFamily.same(self, exp, r) for r in obs["runs"])

    def oracle(self, case, obs):
        runs = obs["runs"]
        for i, r in enumerate(runs):
            if r["h"] + r["u"] > 1:
                return ("handler-twice", f"segmentation {case['segs'][i][:6]}…: handler invoked {r['h']}x, upload handler {r['u']}x")
        first = runs[0]
        for i, r in enumerate(runs[1:], 1):
            a = {k: first[k] for k in ("acts", "h", "u", "m", "content")}
            b = {k: r[k] for k in ("acts", "h", "u", "m", "content")}
            if a != b:
                return ("seg-dependent", f"outcome differs between segmentation {case['segs'][0][:4]} and {case['segs'][i][:6]}: {str(a)[:200]} vs {str(b)[:200]}")
        return None

    def key(self, case, obs):
        r = obs["runs"][0]
        ok, what = sim.wellformed_trace(r["acts"])
        return f"{what}|h{r['h']}u{r['u']}m{r['m']}|segs{min(len(case['segs']), 20)}"


class Late(ConnFamily):
    """reads that arrive while a handler is pending or after the response; at most one invocation"""

    name = "late"
    quick_n = 1500
    thorough_n = 30000

    def gen(self, rng: random.Random, n: int):
        from .srvfam import gen_case, gen_orderly

        for _ in range(n):
            c = gen_orderly(rng)
            k = rng.randint(1, 4)
            for _ in range(k):
                pos = rng.randint(1, len(c["evs"]))
                c["evs"].insert(pos, ["d", rng.choice([b"x", b"\r\n", b"gemini://h/\r\n", b"titan://h/f;size=1\r\nZ", b"ab" * 10]).hex()])
            yield c

    def oracle(self, case, obs):
        return self.oracle_once(case, obs)


class PumpSeg(PumpFamily):
    """the ciphertext of the same session cut at arbitrary offsets (incl. handshake coalesced with application
    data, several records in one read): same outcome as the uncut delivery, at most one invocation"""

    name = "pumpseg"
    quick_n = 100
    thorough_n = 3000

    def impl(self, case):
        from ..sim import pump as P
        from .srvfam import get_loop

        loop = get_loop()
        whole = dict(case)
        whole["maxcuts"] = 0
        a = loop.run_until_complete(P.run_pump(loop, case))
        b = loop.run_until_complete(P.run_pump(loop, whole))
        a["uncut"] = {k: b[k] for k in ("plain", "h", "u", "m", "content", "tcpclosed")}
        return a

    def oracle(self, case, obs):
        v = self.oracle_once(case, obs)
        if v:
            return v
        a = {k: obs[k] for k in ("plain", "h", "u", "m", "content", "tcpclosed")}
        if a != obs["uncut"]:
            return ("seg-dependent", f"outcome depends on how the TLS byte stream was cut: {str(a)[:200]} vs uncut {str(obs['uncut'])[:200]}")
        return None


FAMILIES = [Seg(), Late(), PumpSeg()]
