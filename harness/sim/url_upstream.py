"""Scripted loopback TLS upstream, decoys, a socket-free connection interposer and a fake downstream
transport for the URL / proxy properties (C17, C18, C19).

Everything here is harness code (trusted base: "harness simulators").  Nothing imports nauyaca at
module import time, so that `core.setup_import_path()` decides which tree is loaded.
"""
from __future__ import annotations

import asyncio
import datetime
import os
import socket
import ssl
import struct
import tempfile
from typing import Any

_CERT: tuple[str, str] | None = None


def cert_files() -> tuple[str, str]:
    """Self-signed EC certificate for `localhost`, generated once per process."""
    global _CERT
    if _CERT is not None and os.path.exists(_CERT[0]):
        return _CERT
    from cryptography import x509
    from cryptography.hazmat.primitives import hashes, serialization
    from cryptography.hazmat.primitives.asymmetric import ec
    from cryptography.x509.oid import NameOID

    key = ec.generate_private_key(ec.SECP256R1())
    name = x509.Name([x509.NameAttribute(NameOID.COMMON_NAME, "localhost")])
    now = datetime.datetime.now(datetime.timezone.utc)
    cert = (x509.CertificateBuilder().subject_name(name).issuer_name(name).public_key(key.public_key())
            .serial_number(x509.random_serial_number()).not_valid_before(now - datetime.timedelta(days=1))
            .not_valid_after(now + datetime.timedelta(days=30))
            .add_extension(x509.SubjectAlternativeName([x509.DNSName("localhost")]), critical=False)
            .sign(key, hashes.SHA256()))
    from .. import core as _core

    d = _core.mkdtemp("nv-urlcert-")
    cf, kf = os.path.join(d, "cert.pem"), os.path.join(d, "key.pem")
    with open(cf, "wb") as f:
        f.write(cert.public_bytes(serialization.Encoding.PEM))
    with open(kf, "wb") as f:
        f.write(key.private_bytes(serialization.Encoding.PEM, serialization.PrivateFormat.TraditionalOpenSSL, serialization.NoEncryption()))
    _CERT = (cf, kf)
    return _CERT


def server_context() -> ssl.SSLContext:
    cf, kf = cert_files()
    ctx = ssl.SSLContext(ssl.PROTOCOL_TLS_SERVER)
    ctx.load_cert_chain(cf, kf)
    ctx.minimum_version = ssl.TLSVersion.TLSv1_2
    return ctx


def quiet_loop() -> asyncio.AbstractEventLoop:
    """New event loop whose exception handler is silent (asyncio reports protocol errors there)."""
    loop = asyncio.new_event_loop()
    loop.set_exception_handler(lambda l, c: None)
    return loop


class Upstream:
    """Loopback server following a byte-level script.

    script = {"mode": "tls" | "plain" , "actions": [[op, arg], …], "read": True}
       ops:  ["send", hex]  ["sleep", seconds]  ["close"]  ["reset"]  ["hold"]  (keep the connection open, silent)
    mode "plain": the TCP connection is answered without TLS (the client's handshake fails).
    Every accepted connection is logged: {"line": hex of what was read up to and including the first CRLF
    (or everything read within 1 s), "peer": …}.  `connections` counts TCP accepts.
    """

    def __init__(self, tls: bool = True):
        self.tls = tls
        self.script: dict[str, Any] = {"actions": [["close"]]}
        self.log: list[dict[str, Any]] = []
        self.connections = 0
        self.server: asyncio.AbstractServer | None = None
        self.port = 0
        self.tasks: set[asyncio.Task] = set()
        self.held: list[asyncio.StreamWriter] = []

    async def start(self) -> "Upstream":
        self.server = await asyncio.start_server(self._handle, "127.0.0.1", 0, ssl=server_context() if self.tls else None)
        self.port = self.server.sockets[0].getsockname()[1]
        return self

    def reset(self, script: dict[str, Any] | None = None) -> None:
        self.script = script or {"actions": [["close"]]}
        self.log = []
        self.connections = 0
        for w in self.held:
            try:
                w.transport.abort()
            except Exception:
                pass
        self.held = []

    def release(self) -> None:
        """Drop held connections and stop scripts that are still running (the case is over)."""
        for w in self.held:
            try:
                w.transport.abort()
            except Exception:
                pass
        self.held = []
        for t in list(self.tasks):
            if not t.done():
                t.cancel()

    async def quiesce(self) -> None:
        """Wait until every connection handler of the current case has finished (log is then final)."""
        for _ in range(200):
            pending = [t for t in self.tasks if not t.done()]
            if not pending:
                return
            await asyncio.sleep(0.005)

    async def _handle(self, reader: asyncio.StreamReader, writer: asyncio.StreamWriter) -> None:
        task = asyncio.current_task()
        if task is not None:
            self.tasks.add(task)
            task.add_done_callback(self.tasks.discard)
        self.connections += 1
        entry: dict[str, Any] = {"line": "", "peer": "loopback"}
        self.log.append(entry)
        script = self.script
        try:
            if script.get("read", True):
                try:
                    data = await asyncio.wait_for(reader.readuntil(b"\r\n"), timeout=1.0)
                except asyncio.IncompleteReadError as e:
                    data = e.partial
                except asyncio.LimitOverrunError:
                    data = await reader.read(65536)
                except (asyncio.TimeoutError, TimeoutError):
                    data = b""
                entry["line"] = data.hex()
            for op, *arg in script["actions"]:
                if op == "send":
                    writer.write(bytes.fromhex(arg[0]))
                    await writer.drain()
                elif op == "sendn":  # ["sendn", byte, count]: a long run without a long script
                    writer.write(bytes([arg[0]]) * arg[1])
                    await writer.drain()
                elif op == "sleep":
                    await asyncio.sleep(arg[0])
                elif op == "close":
                    writer.close()
                    return
                elif op == "reset":
                    sock = writer.transport.get_extra_info("socket")
                    if sock is not None:
                        try:
                            sock.setsockopt(socket.SOL_SOCKET, socket.SO_LINGER, struct.pack("ii", 1, 0))
                        except OSError:
                            pass
                    writer.transport.abort()
                    return
                elif op == "hold":
                    self.held.append(writer)
                    return
            writer.close()
        except (ConnectionError, ssl.SSLError, OSError):
            entry["error"] = "io"
        except asyncio.CancelledError:
            writer.transport.abort()

    async def stop(self) -> None:
        self.reset()
        if self.server is not None:
            self.server.close()
            try:
                await asyncio.wait_for(self.server.wait_closed(), 1.0)
            except Exception:
                pass


class PlainGarbage(Upstream):
    """TCP server that answers the TLS ClientHello with plaintext (TLS failure at the client)."""

    def __init__(self):
        super().__init__(tls=False)

    async def _handle(self, reader, writer):
        self.connections += 1
        self.log.append({"line": "", "peer": "loopback"})
        try:
            await asyncio.wait_for(reader.read(100), 0.5)
        except Exception:
            pass
        try:
            writer.write(b"20 text/plain\r\nthis is not TLS\r\n")
            await writer.drain()
        except Exception:
            pass
        writer.close()


def closed_port() -> int:
    """A loopback port on which nothing listens (bound once, then released)."""
    s = socket.socket()
    s.bind(("127.0.0.1", 0))
    p = s.getsockname()[1]
    s.close()
    return p


# ----------------------------------------------------------------------------------------------
# socket-free interposer for GeminiClient: records where the client wants to connect and what it
# writes, and plays a canned response back through the real client protocol object
# ----------------------------------------------------------------------------------------------
class _RecTransport(asyncio.Transport):
    def __init__(self, rec: dict[str, Any]):
        super().__init__()
        self.rec = rec
        self._closing = False

    def write(self, data: bytes) -> None:
        if self._closing:
            self.rec.setdefault("dropped", []).append(bytes(data).hex())
        else:
            self.rec["written"] = self.rec.get("written", b"") + bytes(data)

    def close(self) -> None:
        self._closing = True

    def abort(self) -> None:
        self._closing = True

    def is_closing(self) -> bool:
        return self._closing

    def get_extra_info(self, name, default=None):
        return default


class Interposer:
    """Replaces `loop.create_connection` on one loop: every connection attempt is recorded as
    {"host", "port", "server_hostname", "ssl": bool, "written": bytes} and answered with `response`."""

    def __init__(self, loop: asyncio.AbstractEventLoop, response: bytes = b"20 text/plain\r\nok", responder=None, connector=None):
        """`responder(record) -> (delay seconds, response bytes)` overrides the canned response: the answer may
        depend on what the client wrote and arrive later, so that several fetches can be in flight at once.
        `connector(record) -> seconds`: how long the TCP connect of this connection takes.  As in asyncio's
        `create_connection`, the protocol factory is called only AFTER the connect has completed (0 = the connect
        completes at the next loop iteration, which is the least a real non-blocking connect takes); without a
        connector the factory is called at once (a connection that is up before anything else can run)."""
        self.loop = loop
        self.response = response
        self.responder = responder
        self.connector = connector
        self.records: list[dict[str, Any]] = []
        self._orig = loop.create_connection
        loop.create_connection = self._create_connection  # type: ignore[method-assign]

    def restore(self) -> None:
        self.loop.create_connection = self._orig  # type: ignore[method-assign]

    async def _create_connection(self, protocol_factory, host=None, port=None, *, ssl=None, server_hostname=None, **kw):
        rec: dict[str, Any] = {"host": host, "port": port, "server_hostname": server_hostname, "ssl": ssl is not None}
        self.records.append(rec)
        if self.connector is not None:
            await asyncio.sleep(max(0.0, self.connector(rec)))      # name resolution + TCP connect: other tasks run meanwhile
        proto = protocol_factory()
        tr = _RecTransport(rec)
        proto.connection_made(tr)

        delay, response = (0.0, self.response) if self.responder is None else self.responder(rec)

        def play():
            if tr.is_closing():
                proto.connection_lost(None)
                return
            if response:
                proto.data_received(response)
            proto.connection_lost(None)

        if delay > 0:
            self.loop.call_later(delay, play)
        else:
            self.loop.call_soon(play)
        return tr, proto


# ----------------------------------------------------------------------------------------------
# downstream side: fake transport with asyncio's write-after-close semantics
# ----------------------------------------------------------------------------------------------
class FakeTransport(asyncio.Transport):
    def __init__(self, peer=("192.0.2.7", 40000)):
        super().__init__()
        self.writes: list[bytes] = []
        self.dropped: list[bytes] = []
        self.closed = False
        self.peer = peer
        self.closed_event: asyncio.Event | None = None

    def write(self, data: bytes) -> None:
        (self.dropped if self.closed else self.writes).append(bytes(data))

    def close(self) -> None:
        self.closed = True
        if self.closed_event is not None:
            self.closed_event.set()

    def abort(self) -> None:
        self.close()

    def is_closing(self) -> bool:
        return self.closed

    # a transport whose write buffer drains at once: it never calls pause_writing
    def set_write_buffer_limits(self, high=None, low=None) -> None:
        pass

    def get_write_buffer_size(self) -> int:
        return 0

    def get_extra_info(self, name, default=None):
        if name == "peername":
            return self.peer
        return default


async def downstream_request(handler, line: bytes, wait: float, disconnect_after: float | None = None) -> dict[str, Any]:
    """Feed one request line to a real GeminiServerProtocol on a fake transport and collect what it writes."""
    from nauyaca.server.protocol import GeminiServerProtocol

    proto = GeminiServerProtocol(handler)
    tr = FakeTransport()
    tr.closed_event = asyncio.Event()
    proto.connection_made(tr)
    proto.data_received(line)
    lost = False
    try:
        if disconnect_after is not None:
            try:
                await asyncio.wait_for(tr.closed_event.wait(), disconnect_after)
            except (asyncio.TimeoutError, TimeoutError):
                tr.closed = True
                proto.connection_lost(None)
                lost = True
                await asyncio.sleep(wait)
        else:
            await asyncio.wait_for(tr.closed_event.wait(), wait)
    except (asyncio.TimeoutError, TimeoutError):
        pass
    if not lost:
        proto.connection_lost(None)
    return {"writes": [w.hex() for w in tr.writes], "dropped": [w.hex() for w in tr.dropped], "closed": tr.closed, "client_left": lost}
