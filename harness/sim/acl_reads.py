"""Connections of one server whose requests reach it in SEVERAL READS (C09, family `reads`).

Every connection is a real `GeminiServerProtocol` on a fake transport (sim/srv.py) reporting ITS peer address; all of them
hold one real `MiddlewareChain` (the real `AccessControl` built from the case's policy, next to components that admit
everybody: scripted slow ones, the real `RateLimiter` with a capacity nobody reaches).  The bytes of a request - a Gemini
request line, or a Titan request line followed by the upload's content - are cut into pieces, and a schedule says in which
event-loop iteration each piece is handed to `data_received`:

    ["d", i]   the next piece of connection i is delivered (consecutive deliveries happen in ONE loop iteration)
    ["y", k]   the event loop runs k iterations (k = 1: whatever the last delivery started - the chain's task - has made
               exactly one step, and the callbacks that step queued have NOT run yet: that is where the next read of a
               socket that already holds more bytes lands)
    ["x", i]   connection i is lost (connection_lost(None))

Attribution: each connection has its own counting handler and upload handler and asks the shared chain through its own
view object (as in sim/pump_multi.py), so a question to the chain and a handler run belong to the connection that made them.
"""
from __future__ import annotations

import asyncio
import re

from . import srv as sim
from .pump_multi import View

_SIZE = re.compile(r";size=(\d+)")
FILL = b"0123456789abcdefghijklmnopqrstuvwxyz"


class Slow:
    """admits everybody, after `delay` loop iterations (a component that waits for something: a lookup, a lock)"""

    def __init__(self, delay):
        self.delay = delay

    async def process_request(self, url, ip, fp=None):
        for _ in range(self.delay):
            await asyncio.sleep(0)
        return True, None


def request_bytes(cn) -> bytes:
    """the request line, CRLF and - for a Titan upload - exactly the `size` bytes of content the line announces"""
    line = cn["line"]
    m = _SIZE.search(line) if line.startswith("titan://") else None
    n = int(m.group(1)) if m else 0
    return line.encode() + b"\r\n" + (FILL * (n // len(FILL) + 1))[:n]


def pieces(cn) -> list:
    whole = request_bytes(cn)
    cuts = sorted({c for c in (cn.get("cuts") or []) if 0 < c < len(whole)})
    return [whole[a:b] for a, b in zip([0] + cuts, cuts + [len(whole)])]


async def run_reads(loop, case, components):
    """case: {"conns": [{"peer", "line", "cuts": [offsets]}], "sched": [...]}; components: the shared chain's components
    in order.  Returns a JSON-able observation: per connection the status and header line it received, handler and upload
    handler runs, what the upload handler was handed, how many pieces reached the server; the questions put to the chain
    (connection, url, ip, fingerprint); the order of events."""
    from nauyaca.protocol.response import GeminiResponse
    from nauyaca.server.middleware import MiddlewareChain
    from nauyaca.server.protocol import GeminiServerProtocol

    chain = MiddlewareChain(list(components))
    consults: list = []
    trace: list = []
    excs: list = []
    loop.set_exception_handler(lambda lp, ctx: excs.append(str(ctx.get("exception") or ctx.get("message"))[:120]))
    conns = []
    for idx, cn in enumerate(case["conns"]):
        log = {"h": 0, "u": 0, "stored": None}

        def h(req, log=log, idx=idx):
            log["h"] += 1
            trace.append(f"{idx}:handler")
            return GeminiResponse(status=20, meta="text/gemini", body="served")

        class Up:
            max_size = 1 << 20
            upload_dir = "/nonexistent"
            allowed_types = None
            auth_tokens = None
            enable_delete = True

            async def handle_upload(self, req, log=log, idx=idx):
                log["u"] += 1
                log["stored"] = bytes(getattr(req, "content", b"") or b"").decode("latin1")
                trace.append(f"{idx}:upload-handler")
                return GeminiResponse(status=20, meta="text/gemini", body="stored")

        p = GeminiServerProtocol(h, View(chain, idx, consults, trace), Up())
        peer = cn["peer"]
        t = sim.FakeTransport(peer=(peer, 4000 + idx) if ":" not in peer else (peer, 4000 + idx, 0, 0))
        try:
            p.connection_made(t)
        except Exception as ex:  # noqa: BLE001
            excs.append(f"connection_made: {type(ex).__name__}: {ex}"[:120])
        conns.append({"p": p, "t": t, "log": log, "parts": pieces(cn), "sent": 0, "lost": False})
    for e in case["sched"]:
        if e[0] == "d":
            c = conns[e[1]]
            if c["lost"] or c["sent"] >= len(c["parts"]):
                continue
            part = c["parts"][c["sent"]]
            c["sent"] += 1
            trace.append(f"{e[1]}:read{c['sent']}/{len(c['parts'])}")
            try:
                c["p"].data_received(part)
            except Exception as ex:  # noqa: BLE001
                excs.append(f"{type(ex).__name__}: {ex}"[:120])
        elif e[0] == "x":
            c = conns[e[1]]
            if not c["lost"]:
                c["lost"] = True
                trace.append(f"{e[1]}:lost")
                try:
                    c["p"].connection_lost(None)
                except Exception as ex:  # noqa: BLE001
                    excs.append(f"{type(ex).__name__}: {ex}"[:120])
        else:
            for _ in range(e[1]):
                await asyncio.sleep(0)
            trace.append(f"loop+{e[1]}")
    for _ in range(60):
        await asyncio.sleep(0)
    out = []
    for c in conns:
        raw = b"".join(bytes.fromhex(a[1]) for a in c["t"].acts if a[0] == "w")
        head = raw.split(b"\n", 1)[0] + (b"\n" if b"\n" in raw else b"")
        out.append({"st": raw[:2].decode("latin1"), "head": head[:200].decode("latin1"), "h": c["log"]["h"], "u": c["log"]["u"], "stored": c["log"]["stored"],
                    "closed": c["t"].closed, "sent": c["sent"], "parts": len(c["parts"]), "lost": c["lost"]})
        if c["p"].timeout_handle is not None:
            c["p"].timeout_handle.cancel()
        if not c["lost"]:
            try:
                c["p"].connection_lost(None)
            except Exception:  # noqa: BLE001
                pass
    loop.set_exception_handler(lambda lp, ctx: None)
    for _ in range(4):
        await asyncio.sleep(0)
    return {"conns": out, "consults": consults, "trace": trace, "exc": excs}
