import NauyacaVerif.Gen.Fn.FollowRedirects
import NauyacaVerif.Cl.Redirect
set_option linter.unusedSimpArgs false
/-!
The hand-written redirect model `Cl.follow` against the TRANSLATION of `GeminiClient._get_with_redirects`
(regenerated from the current source on every run).  The translation threads a world state `w` through
the calls of `_get_single` (the only effect of the function); instantiating it with the log of URLs fetched
gives exactly the model's list of connections.
-/
namespace NauyacaVerif.Translated
open NauyacaVerif.Gen.Fn Cl

/-- the world in which `_get_single url` appends `url` to the log of connections and answers `f url` -/
def logFetch (f : Url → Option Resp) (w : List Url) (u : Url) : List Url × Option Resp := (w ++ [u], f u)

def resultOf : Except RErr Resp → Result
  | .ok r => .ok r
  | .error .loop => .loop
  | .error .tooMany => .tooMany
  | .error .missing => .missing
  | .error .fetchErr => .fetchErr
  | .error .fuel => .tooMany

/-- for every redirect graph, bound, fuel, start URL, chain so far and connection log: the translated function
    makes exactly the model's connections, in order, and returns the model's result -/
theorem followRedirects_eq (f : Url → Option Resp) (hwf : ∀ u r, f u = some r → r.wf = true)
    (max fuel : Nat) (url : Url) (chain w : List Url) :
    (followRedirects (logFetch f) fuel w url max chain).1 = w ++ (follow f max fuel url chain).2 ∧
    resultOf (followRedirects (logFetch f) fuel w url max chain).2 = (follow f max fuel url chain).1 := by
  induction fuel generalizing url chain w with
  | zero => simp [followRedirects, follow, resultOf]
  | succ n ih =>
    -- shape-robust: establish every fact the code can branch on, then let `simp` evaluate both sides
    unfold followRedirects follow
    by_cases hc : url ∈ chain
    · simp [hc, resultOf]
    · by_cases hl : max < chain.length
      · simp [hc, hl, resultOf]
      · cases hf : f url with
        | none => simp [hc, hl, logFetch, hf, resultOf]
        | some r =>
          have hw := hwf url r hf
          cases r with
          | final s =>
            have hs : isRedirectStatus s = false := by simpa [Resp.wf] using hw
            have hst : (Resp.final s).status = s := rfl
            have hru : (Resp.final s).redirectUrl = none := rfl
            simp [hc, hl, logFetch, hf, hst, hru, hs, resultOf]
          | redirect s t =>
            have hs : isRedirectStatus s = true := by simpa [Resp.wf] using hw
            have hru : (Resp.redirect s t).redirectUrl = some t := rfl
            have hst : (Resp.redirect s t).status = s := rfl
            by_cases he : t.isEmpty = true
            · simp [hc, hl, logFetch, hf, hru, hst, hs, he, resultOf]
            · have he : t.isEmpty = false := by simpa using he
              by_cases hg : gem.isPrefixOf t = true
              · have hg' : (['g', 'e', 'm', 'i', 'n', 'i', ':', '/', '/'] : List Char).isPrefixOf t = true := hg
                have h := ih t (chain ++ [url]) (w ++ [url])
                simp [hc, hl, logFetch, hf, hru, hst, hs, he, hg, hg', h.1, h.2]
              · have hg2 : gem.isPrefixOf t = false := by cases h : gem.isPrefixOf t <;> simp_all
                have hg' : (['g', 'e', 'm', 'i', 'n', 'i', ':', '/', '/'] : List Char).isPrefixOf t = false := hg2
                simp [hc, hl, logFetch, hf, hru, hst, hs, he, hg2, hg', resultOf]

/-- `GeminiClient.get(url)` with redirect following: `_get_with_redirects(url, max)` with an empty chain
    (fuel `max + 2` is never exhausted: the chain grows by one per recursion and is cut at `max + 1`) -/
def getTr (f : Url → Option Resp) (max : Nat) (u : Url) (w : List Url) : List Url × Except RErr Resp :=
  followRedirects (logFetch f) (max + 2) w u max []

/-- C16 on the translated code: at most `max_redirects + 1` calls of `_get_single`, for every redirect graph -/
theorem tr_bound (f : Url → Option Resp) (hwf : ∀ u r, f u = some r → r.wf = true) (max : Nat) (u : Url) (w : List Url) :
    (getTr f max u w).1.length ≤ w.length + (max + 1) := by
  have h := (followRedirects_eq f hwf max (max + 2) u [] w).1
  have hb := Cl.get_bound f max u
  simp only [getTr, h, List.length_append]
  simp only [Cl.get] at hb
  omega

/-- C16 on the translated code: the connections already logged are kept, and every new one goes to a gemini:// URL -/
theorem tr_scheme (f : Url → Option Resp) (hwf : ∀ u r, f u = some r → r.wf = true) (max : Nat) (u : Url) (w : List Url)
    (h0 : gem.isPrefixOf u = true) :
    ∃ new, (getTr f max u w).1 = w ++ new ∧ ∀ v ∈ new, gem.isPrefixOf v = true :=
  ⟨_, (followRedirects_eq f hwf max (max + 2) u [] w).1, follow_scheme f max (max + 2) u [] h0⟩

/-- C16 on the translated code: a gemini redirect is never returned as if it were the final response -/
theorem tr_no_fake_final (f : Url → Option Resp) (hwf : ∀ u r, f u = some r → r.wf = true) (max : Nat) (u : Url) (w : List Url)
    (s : Nat) (t : Url) (h : (getTr f max u w).2 = .ok (.redirect s t)) : gem.isPrefixOf t = false := by
  have h2 := (followRedirects_eq f hwf max (max + 2) u [] w).2
  simp only [getTr] at h
  rw [h] at h2
  exact follow_no_fake_final f max (max + 2) u [] s t h2.symm

/-- C16 on the translated code: the recursion fuel is never what stops it (so `getTr` is the Python function,
    not a truncation of it) -/
theorem tr_fuel_unused (f : Url → Option Resp) (max fuel : Nat) (u : Url) (chain w : List Url)
    (hf : max + 2 ≤ fuel + chain.length) (hpos : 0 < fuel) :
    (followRedirects (logFetch f) fuel w u max chain).2 ≠ .error .fuel := by
  induction fuel generalizing u chain w with
  | zero => omega
  | succ n ih =>
    unfold followRedirects
    simp only [logFetch]
    by_cases hl : chain.length > max
    · simp only [hl, decide_true, if_true]
      split <;> simp
    · repeat' split
      all_goals first
        | (simp; done)
        | (apply ih <;> (try simp) <;> omega)

theorem getTr_fuel (f : Url → Option Resp) (max : Nat) (u : Url) (w : List Url) : (getTr f max u w).2 ≠ .error .fuel :=
  tr_fuel_unused f max (max + 2) u [] w (by simp) (by omega)

/-- non-vacuity: a two-hop chain, a loop, an over-long chain -/
def a : Url := ['g','e','m','i','n','i',':','/','/','a','/']
def b : Url := ['g','e','m','i','n','i',':','/','/','b','/']
def demo : Url → Option Resp := fun u => if u = a then some (.redirect 30 b) else if u = b then some (.final 20) else none
example : getTr demo 1 a [] = ([a, b], .ok (.final 20)) := by rfl
example : (getTr demo 0 a []).2 = .error .tooMany := by rfl
example : (getTr (fun _ => some (.redirect 31 a)) 5 a []).2 = .error .loop := by rfl
example : ∀ u r, demo u = some r → r.wf = true := by
  intro u r h; unfold demo at h; split at h
  · cases h; rfl
  · split at h
    · cases h; rfl
    · cases h
end NauyacaVerif.Translated
