import NauyacaVerif.Misc.Pump

/-! # The write side of `TLSTransportWrapper` over an abstract TLS engine (C06)

`TLSTransportWrapper.write(data)` = `tls_conn.sendall(data)` then `_flush_outgoing()`;
`TLSTransportWrapper.close()` = `tls_conn.shutdown()`, `_flush_outgoing()`, `transport.close()`.
The engine (OpenSSL) is a parameter: `accept n` = how many of `n` offered bytes one `SSL_write`
takes, `enc r` = the ciphertext one accepted record appends to the outgoing BIO, `closeNotify`
= the bytes `shutdown()` appends.  Nothing about `enc` is assumed here. -/

namespace Misc

/-- the contract of one `SSL_write` in partial-write mode: a non-empty prefix is taken -/
def AcceptOk (accept : Nat → Nat) : Prop := ∀ n, 0 < n → 0 < accept n ∧ accept n ≤ n

theorem acceptOk_min (k : Nat) (hk : 0 < k) : AcceptOk (fun n => min n k) := by
  intro n hn
  simp only
  omega

/-- size-level shadow of `sendAll` (what the driver runs for bodies of 100 MiB) -/
def sendAllSizes (accept : Nat → Nat) : Nat → Nat → List Nat
  | 0, _ => []
  | _ + 1, 0 => []
  | fuel + 1, n + 1 => min (accept (n + 1)) (n + 1) :: sendAllSizes accept fuel (n + 1 - accept (n + 1))

theorem sendAll_sizes (accept : Nat → Nat) (fuel : Nat) (data : Bytes) :
    (sendAll accept fuel data).map List.length = sendAllSizes accept fuel data.length := by
  induction fuel generalizing data with
  | zero => cases data <;> rfl
  | succ k ih =>
    cases data with
    | nil => rfl
    | cons x xs =>
      simp only [sendAll, sendAllSizes, List.map_cons, List.length_take, List.length_cons]
      rw [ih]
      simp only [List.length_drop, List.length_cons]

/-- size-level shadow of `drain` -/
def drainSizes (n : Nat) : Nat → Nat → List Nat
  | 0, _ => []
  | _ + 1, 0 => []
  | fuel + 1, p + 1 => min n (p + 1) :: drainSizes n fuel (p + 1 - n)

theorem drain_sizes (n fuel : Nat) (p : Bytes) :
    (drain n fuel p).map List.length = drainSizes n fuel p.length := by
  induction fuel generalizing p with
  | zero => cases p <;> rfl
  | succ k ih =>
    cases p with
    | nil => rfl
    | cons x xs =>
      simp only [drain, drainSizes, List.map_cons, List.length_take, List.length_cons]
      rw [ih]
      simp only [List.length_drop, List.length_cons]

/-- `_send_response` hands the body to the transport in pieces of `c` bytes (`c = 0`: in one piece) -/
def bodyWrites (c : Nat) (b : Bytes) : List Bytes :=
  if c = 0 then (if b.isEmpty then [] else [b]) else drain c b.length b

theorem bodyWrites_flatten (c : Nat) (b : Bytes) : (bodyWrites c b).flatten = b := by
  unfold bodyWrites
  split
  · split
    · rename_i h; have : b = [] := by simpa using h
      simp [this]
    · simp
  · rename_i hc
    exact drain_complete c (Nat.pos_of_ne_zero hc) b.length b (Nat.le_refl _)

def bodyWriteSizes (c n : Nat) : List Nat :=
  if c = 0 then (if n = 0 then [] else [n]) else drainSizes c n n

theorem bodyWrites_sizes (c : Nat) (b : Bytes) : (bodyWrites c b).map List.length = bodyWriteSizes c b.length := by
  unfold bodyWrites bodyWriteSizes
  split
  · cases b <;> simp
  · exact drain_sizes c b.length b

structure Engine where
  accept : Nat → Nat
  enc : Bytes → Bytes
  closeNotify : Bytes

/-- the plaintext records one `write(data)` hands to the engine.  `usesSendall = false` is the
    unrepaired wrapper (one `send`, return value ignored). -/
def wrapperRecords (usesSendall : Bool) (accept : Nat → Nat) (data : Bytes) : List Bytes :=
  if usesSendall then sendAll accept data.length data else sendOnce accept data

/-- `_flush_outgoing`: `bio_read(chunk)` until the outgoing BIO is empty, one `transport.write` each -/
def flush (chunk : Nat) (pending : Bytes) : List Bytes := drain chunk pending.length pending

/-- a flush loop that stops after one `bio_read` (a seeded defect, for contrast) -/
def flushOnce (chunk : Nat) (pending : Bytes) : List Bytes := [pending.take chunk]

inductive TcpEv where
  | write (b : Bytes)
  | close
deriving Repr, DecidableEq

/-- the outgoing BIO after the engine sealed these records, in order -/
def sealed (e : Engine) (recs : List Bytes) : Bytes := (recs.map e.enc).flatten

def wrapperWrite (usesSendall : Bool) (chunk : Nat) (e : Engine) (data : Bytes) : List TcpEv :=
  (flush chunk (sealed e (wrapperRecords usesSendall e.accept data))).map TcpEv.write

def wrapperClose (chunk : Nat) (e : Engine) : List TcpEv :=
  (flush chunk e.closeNotify).map TcpEv.write ++ [TcpEv.close]

/-- everything the inner protocol does on its transport for one response: the writes, then close -/
def pumpSend (usesSendall : Bool) (chunk : Nat) (e : Engine) (writes : List Bytes) : List TcpEv :=
  (writes.map (wrapperWrite usesSendall chunk e)).flatten ++ wrapperClose chunk e

def allRecords (usesSendall : Bool) (accept : Nat → Nat) (writes : List Bytes) : List Bytes :=
  (writes.map (wrapperRecords usesSendall accept)).flatten

/-- the bytes that reach the peer's socket: `write`s before the first `close`
    (asyncio drops writes on a closing transport) -/
def delivered : List TcpEv → Bytes
  | [] => []
  | .write b :: rest => b ++ delivered rest
  | .close :: _ => []

/-- number of `close` calls and whether anything is written after the first one -/
def writesAfterClose : List TcpEv → Nat
  | [] => 0
  | .write _ :: rest => writesAfterClose rest
  | .close :: rest => (rest.filter (fun ev => ev != TcpEv.close)).length

/-! ## lemmas -/

theorem flush_complete (chunk : Nat) (h : 0 < chunk) (pending : Bytes) : (flush chunk pending).flatten = pending :=
  drain_complete chunk h pending.length pending (Nat.le_refl _)

theorem wrapperRecords_complete (accept : Nat → Nat) (h : AcceptOk accept) (data : Bytes) :
    (wrapperRecords true accept data).flatten = data := by
  simp only [wrapperRecords, if_true]
  exact sendAll_complete accept h data.length data (Nat.le_refl _)

theorem allRecords_complete (accept : Nat → Nat) (h : AcceptOk accept) (writes : List Bytes) :
    (allRecords true accept writes).flatten = writes.flatten := by
  induction writes with
  | nil => rfl
  | cons w ws ih =>
    simp only [allRecords, List.map_cons, List.flatten_cons, List.flatten_append] at ih ⊢
    rw [ih, wrapperRecords_complete accept h]

theorem sealed_append (e : Engine) (a b : List Bytes) : sealed e (a ++ b) = sealed e a ++ sealed e b := by
  simp [sealed]

theorem delivered_writes (l : List Bytes) (more : List TcpEv) :
    delivered (l.map TcpEv.write ++ more) = l.flatten ++ delivered more := by
  induction l with
  | nil => rfl
  | cons b bs ih => simp only [List.map_cons, List.cons_append, delivered, ih, List.flatten_cons, List.append_assoc]

theorem delivered_write_part (uses : Bool) (chunk : Nat) (hc : 0 < chunk) (e : Engine) (writes : List Bytes) (more : List TcpEv) :
    delivered ((writes.map (wrapperWrite uses chunk e)).flatten ++ more)
      = sealed e (allRecords uses e.accept writes) ++ delivered more := by
  induction writes with
  | nil => rfl
  | cons w ws ih =>
    simp only [List.map_cons, List.flatten_cons, List.append_assoc, allRecords] at ih ⊢
    rw [sealed_append]
    have hw : wrapperWrite uses chunk e w = (flush chunk (sealed e (wrapperRecords uses e.accept w))).map TcpEv.write := rfl
    rw [hw, delivered_writes, flush_complete chunk hc, ih, List.append_assoc]

/-- the TCP stream of one response = the sealed records in order, then the close-notify; nothing is
    written after `close` and `close` comes last -/
theorem pumpSend_stream (uses : Bool) (chunk : Nat) (hc : 0 < chunk) (e : Engine) (writes : List Bytes) :
    delivered (pumpSend uses chunk e writes) = sealed e (allRecords uses e.accept writes) ++ e.closeNotify := by
  unfold pumpSend wrapperClose
  rw [delivered_write_part uses chunk hc, delivered_writes, flush_complete chunk hc]
  simp [delivered]

theorem writesAfterClose_writes (l : List Bytes) (more : List TcpEv) :
    writesAfterClose (l.map TcpEv.write ++ more) = writesAfterClose more := by
  induction l with
  | nil => rfl
  | cons b bs ih => simp only [List.map_cons, List.cons_append, writesAfterClose, ih]

theorem pumpSend_close_last (uses : Bool) (chunk : Nat) (e : Engine) (writes : List Bytes) :
    writesAfterClose (pumpSend uses chunk e writes) = 0 ∧ (pumpSend uses chunk e writes).getLast? = some TcpEv.close := by
  constructor
  · unfold pumpSend wrapperClose
    have h : ∀ (ws : List Bytes) (more : List TcpEv),
        writesAfterClose ((ws.map (wrapperWrite uses chunk e)).flatten ++ more) = writesAfterClose more := by
      intro ws more
      induction ws with
      | nil => rfl
      | cons w ws ih =>
        simp only [List.map_cons, List.flatten_cons, List.append_assoc]
        have hw : wrapperWrite uses chunk e w = (flush chunk (sealed e (wrapperRecords uses e.accept w))).map TcpEv.write := rfl
        rw [hw, writesAfterClose_writes]
        exact ih
    rw [h, writesAfterClose_writes]
    rfl
  · unfold pumpSend wrapperClose
    simp

/-- the seeded one-`bio_read` flush provably loses ciphertext as soon as more than `chunk` bytes are pending -/
theorem flushOnce_truncates : ∃ pending : Bytes, (flushOnce 8192 pending).flatten ≠ pending := by
  refine ⟨List.replicate 8193 0, ?_⟩
  intro h
  have := congrArg List.length h
  simp only [flushOnce, List.flatten_cons, List.flatten_nil, List.append_nil, List.length_take,
    List.length_replicate] at this
  omega
end Misc
