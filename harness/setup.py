"""Setup after a fresh restore (MANIFEST.setup_cmd): regenerate every extracted Lean file from the current
source tree, rewrite the root import list, build the whole library and the driver."""
from __future__ import annotations

import importlib
import sys
from pathlib import Path

from . import core, extract, translate


def main() -> int:
    core.setup_import_path()
    with core.LakeLock():
        items, problems, changed = extract.regenerate()
        for p in problems:
            print("extraction problem:", p)
        print("translation:", translate.regenerate())
        for f in sorted((core.VERIF / "harness" / "props").glob("c[0-9][0-9].py")):
            try:
                mod = importlib.import_module(f"harness.props.{f.stem}")
                if hasattr(mod, "extract_extra"):
                    mod.extract_extra()
                    print("extra extraction:", f.stem)
            except Exception as e:  # noqa: BLE001
                print(f"extra extraction of {f.stem} failed: {e}")
        root = core.LEAN / "NauyacaVerif"
        mods = sorted("NauyacaVerif." + ".".join(p.relative_to(root).with_suffix("").parts) for p in root.rglob("*.lean"))
        text = "".join(f"import {m}\n" for m in mods)
        rf = core.LEAN / "NauyacaVerif.lean"
        if not rf.exists() or rf.read_text() != text:
            rf.write_text(text)
        ok, log = core.lake_build(["NauyacaVerif", "nvdriver"])
        print(log[-3000:])
        return 0 if ok else 1


if __name__ == "__main__":
    sys.exit(main())
