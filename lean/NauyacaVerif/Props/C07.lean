import NauyacaVerif.Srv.SegProof
import NauyacaVerif.Srv.ConnProof
import NauyacaVerif.Srv.PumpProof
import NauyacaVerif.Srv.PumpSeg
import NauyacaVerif.Gen.Params
import NauyacaVerif.Srv.SysSeg

/-! # C07  Outcome is independent of read segmentation; handlers run at most once -/
namespace NauyacaVerif.C07
open Srv

theorem maxRequest_tie : Srv.maxRequest = Gen.maxRequest := by decide

/-- feeding a non-empty list of reads is equivalent (up to the buffer of a state that no longer reads it) to
    feeding their concatenation in one read — every configuration, every state, Gemini and Titan -/
theorem seg_indep (cfg : Cfg) (s : St) (c : Bytes) (cs : List Bytes) :
    Eqv (feedAll cfg s (c :: cs)) (step cfg s (.data (c ++ cs.flatten))) := Srv.seg_indep cfg s c cs

/-- … hence output trace, invocation counts, uploaded content and phase coincide -/
theorem seg_indep_observables (cfg : Cfg) (c : Bytes) (cs : List Bytes) :
    let a := feedAll cfg {} (c :: cs)
    let b := step cfg {} (.data (c ++ cs.flatten))
    a.out = b.out ∧ a.hcalls = b.hcalls ∧ a.ucalls = b.ucalls ∧ a.mwcalls = b.mwcalls ∧ a.content = b.content ∧ a.phase = b.phase :=
  Srv.seg_indep_observables cfg c cs

/-- … and this survives any continuation (timer, task completions, disconnect, more data) -/
theorem seg_indep_then (cfg : Cfg) (s : St) (c : Bytes) (cs : List Bytes) (rest : List Ev) :
    Eqv (rest.foldl (step cfg) (feedAll cfg s (c :: cs))) (rest.foldl (step cfg) (step cfg s (.data (c ++ cs.flatten)))) :=
  Srv.seg_indep_then cfg s c cs rest

/-- at most one handler or upload-handler invocation per connection, for every event list -/
theorem at_most_once (cfg : Cfg) (evs : List Ev) : (run cfg evs).hcalls + (run cfg evs).ucalls ≤ 1 :=
  (run_inv cfg evs).once

/-- bytes after a dispatched request never change anything: a state that no longer waits ignores data -/
theorem trailing_ignored_gemini (cfg : Cfg) (s : St) (extra : Bytes)
    (h : s.lost = true ∨ (s.phase ≠ .awaitLine ∧ s.phase ≠ .awaitTitan)) : step cfg s (.data extra) = s :=
  dead_data cfg s extra h

/-- PyOpenSSL backend: however the TLS byte stream is cut into TCP reads and records, at most one invocation -/
theorem pump_at_most_once (cfg : Cfg) (evs : List PEv) (i : St) (hi : (pumpRun cfg evs).inner = some i) :
    i.hcalls + i.ucalls ≤ 1 := ((pumpRun_pinv cfg evs).innerInv i hi).1.once

/-- the pump hands the inner protocol plaintext in pieces of at most 8192 bytes; by `seg_indep` that re-chunking
    is invisible: feeding the pieces equals feeding the whole record -/
theorem pump_rechunk (cfg : Cfg) (c : Bytes) (cs : List Bytes) :
    Eqv (feedAll cfg {} (c :: cs)) (step cfg {} (.data (c ++ cs.flatten))) := Srv.seg_indep cfg {} c cs


/-- PyOpenSSL backend: how the TLS items (handshake records, application records, close-notify, garbage) are
    grouped into TCP reads is not observable — TCP close, handshake state, the inner protocol's output trace,
    invocation counts and uploaded content are the same as if all items arrived in one read; this includes the read
    that completes the handshake also carrying application data -/
theorem pump_seg_indep (cfg : Cfg) (reads : List (List Item)) :
    (reads.foldl (pumpRead cfg) {}).obs = (pumpRead cfg {} reads.flatten).obs :=
  reads_merge cfg reads {} ⟨by intro i hi; simp at hi, by intro h; simp at h, by intro _ _ _; rfl⟩

/-- … from every reachable pump state, for two consecutive reads -/
theorem pump_read_merge (cfg : Cfg) (evs : List PEv) (a b : List Item) :
    (pumpRead cfg (pumpRead cfg (pumpRun cfg evs) a) b).obs = (pumpRead cfg (pumpRun cfg evs) (a ++ b)).obs :=
  read_merge cfg _ (pumpRun_pinv cfg evs) a b

example : ((pumpRead { mw := false, upload := false, handler := .syncRaise, env := asciiEnv } {} [.hs, .hsFinal, .app [103, 13, 10]]).obs).1 = true := by decide +kernel
example : (([[Item.hs], [.hsFinal, .app [103, 13, 10]]].foldl (pumpRead { mw := false, upload := false, handler := .syncRaise, env := asciiEnv }) {}).obs).1 = true := by decide +kernel

/-! ### the composed machine (M-Sys): the same two statements with the write pump in the picture -/

/-- a run of consecutive reads can be replaced by one read of their concatenation anywhere in any history of reads, ticks,
    completions, disconnects AND pause / resume signals: the same response is decided, the same bytes have been written, the pump
    has made the same progress, the handlers were invoked as often -/
theorem sys_seg_indep (cfg : Srv.Cfg) (dyn : Nat → Srv.Bytes) (pre rest : List Srv.Sys.SEv) (c : Srv.Bytes) (cs : List Srv.Bytes) :
    Srv.Sys.SEqv (Srv.Sys.srun cfg dyn (pre ++ (c :: cs).map (fun x => Srv.Sys.SEv.conn (.data x)) ++ rest))
                 (Srv.Sys.srun cfg dyn (pre ++ [Srv.Sys.SEv.conn (.data (c ++ cs.flatten))] ++ rest)) :=
  Srv.Sys.seg_indep cfg dyn pre rest c cs

/-- bytes arriving after the response was decided (beyond the request line, beyond the declared size, after the answer) change
    neither the decision nor what the pump does -/
theorem sys_late_read_noop (cfg : Srv.Cfg) (dyn : Nat → Srv.Bytes) (evs : List Srv.Sys.SEv) (c : Srv.Bytes)
    (hs : (Srv.Sys.srun cfg dyn evs).conn.sent = true) :
    (Srv.Sys.sstep cfg dyn (Srv.Sys.srun cfg dyn evs) (.conn (.data c))).flow = (Srv.Sys.srun cfg dyn evs).flow ∧
    (Srv.Sys.sstep cfg dyn (Srv.Sys.srun cfg dyn evs) (.conn (.data c))).conn.out = (Srv.Sys.srun cfg dyn evs).conn.out :=
  Srv.Sys.late_read_noop cfg dyn _ (Srv.Sys.srun_j cfg dyn evs) hs c
end NauyacaVerif.C07
