namespace Fs
abbrev Name := String
abbrev Path := List Name          -- absolute path as components; [] = "/"

inductive Node where
  | file (id : Nat)
  | dir
  | link (target : String)        -- raw symlink text, may be relative or absolute
deriving Repr, DecidableEq

/-- the tree: a finite map from absolute component paths to nodes (parents are dirs by construction) -/
abbrev Tree := List (Path × Node)

def Tree.lstat (t : Tree) (p : Path) : Option Node :=
  if p.isEmpty then some .dir else (t.find? (·.1 == p)).map (·.2)

def splitPath (s : String) : List Name := (s.splitOn "/")

/-- port of `posixpath._joinrealpath(path, rest, strict=False, seen)`; `seen` maps link paths to
    `none` (being resolved) or `some resolved`.  Returns (path, ok, seen). Fuel bounds recursion. -/
def joinReal (t : Tree) : Nat → Path → List Name → List (Path × Option Path) →
    (Path × Bool × List (Path × Option Path))
  | 0, path, rest, seen => (path ++ rest.filter (fun n => n ≠ "" ∧ n ≠ "."), false, seen)
  | fuel + 1, path, rest, seen =>
    match rest with
    | [] => (path, true, seen)
    | name :: rest' =>
      if name = "" ∨ name = "." then joinReal t fuel path rest' seen
      else if name = ".." then joinReal t fuel path.dropLast rest' seen
      else
        let newpath := path ++ [name]
        match t.lstat newpath with
        | some (.link target) =>
          match seen.find? (·.1 == newpath) with
          | some (_, some resolved) => joinReal t fuel resolved rest' seen
          | some (_, none) => (newpath ++ rest', false, seen)     -- loop: leave the remainder unresolved
          | none =>
            let seen1 := (newpath, none) :: seen
            let comps := splitPath target
            let start : Path := if target.startsWith "/" then [] else path
            let (p2, ok, seen2) := joinReal t fuel start comps seen1
            if !ok then (p2 ++ rest', false, seen2)
            else joinReal t fuel p2 rest' ((newpath, some p2) :: seen2)
        | _ => joinReal t fuel newpath rest' seen

/-- `os.path.realpath(p)` for absolute `p` (non-strict) -/
def realpath (t : Tree) (p : List Name) : Path × Bool :=
  let (r, ok, _) := joinReal t 200 [] p []
  (r, ok)

/-- kernel-style lookup following all symlinks (what `stat`/`open` see): none = ENOENT/ELOOP/ENOTDIR -/
def statFollow (t : Tree) (p : Path) : Option (Path × Node) :=
  let (r, ok) := realpath t p
  if !ok then none else
  match t.lstat r with
  | some (.link _) => none
  | some n => some (r, n)
  | none => none
end Fs
