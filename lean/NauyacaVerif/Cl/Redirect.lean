namespace Cl
abbrev Url := List Char

inductive Resp where
  | final (status : Nat)                 -- any non-3x response
  | redirect (status : Nat) (target : Url)   -- 3x with meta = target ([] = missing)
deriving Repr, DecidableEq

inductive Result where
  | ok (r : Resp)
  | loop | tooMany | missing
  | fetchErr                              -- `_get_single` raised (bad URL, connection, pin …)
deriving Repr, DecidableEq

def gem : Url := "gemini://".toList

/-- the exceptions `_get_with_redirects` can end in (`fuel`: the translation's recursion fuel ran out) -/
inductive RErr where
  | loop | tooMany | missing | fetchErr | fuel
deriving Repr, DecidableEq

/-- `is_redirect` (protocol/status.py): `30 <= status < 40` -/
def isRedirectStatus (s : Nat) : Bool := decide (30 ≤ s) && decide (s < 40)

/-- `GeminiResponse.status` -/
def Resp.status : Resp → Nat
  | .final s => s
  | .redirect s _ => s

/-- `GeminiResponse.redirect_url`: the meta of a 3x response, `None` otherwise -/
def Resp.redirectUrl : Resp → Option Url
  | .final _ => none
  | .redirect _ t => some t

/-- the constructor of a response agrees with its status code (how the harness and the driver build them) -/
def Resp.wf : Resp → Bool
  | .final s => !isRedirectStatus s
  | .redirect s _ => isRedirectStatus s

/-- `_get_with_redirects` (repaired bound).  `fetch u = none` models an exception from the hop.
    Returns the result and the list of URLs actually connected to, in order. -/
def follow (fetch : Url → Option Resp) (max : Nat) : Nat → Url → List Url → Result × List Url
  | 0, _, _ => (.tooMany, [])            -- fuel = max + 1 - chain.length, never reached with correct fuel
  | fuel + 1, url, chain =>
    if chain.contains url then (.loop, [])
    else if chain.length > max then (.tooMany, [])
    else match fetch url with
      | none => (.fetchErr, [url])
      | some (.final s) => (.ok (.final s), [url])
      | some (.redirect s tgt) =>
        if tgt.isEmpty then (.missing, [url])
        else if !gem.isPrefixOf tgt then (.ok (.redirect s tgt), [url])
        else
          let (r, conns) := follow fetch max fuel tgt (chain ++ [url])
          (r, url :: conns)

def get (fetch : Url → Option Resp) (max : Nat) (url : Url) : Result × List Url :=
  follow fetch max (max + 2) url []

/-- C16: at most `max + 1` connections, for every redirect graph -/
theorem follow_bound (fetch : Url → Option Resp) (max fuel : Nat) (url : Url) (chain : List Url) :
    (follow fetch max fuel url chain).2.length + chain.length ≤ max + 1 ∨
    (follow fetch max fuel url chain).2 = [] := by
  fun_induction follow fetch max fuel url chain with
  | case1 => right; rfl
  | case2 => right; rfl
  | case3 => right; rfl
  | case4 => left; simp; omega
  | case5 => left; simp; omega
  | case6 => left; simp; omega
  | case7 => left; simp; omega
  | case8 fuel url chain hc hl s tgt hf he hg r conns hrec ih =>
    rw [hrec] at ih
    rcases ih with h | h
    · left; simp at h ⊢; omega
    · left; simp at h; simp [h]; omega

theorem get_bound (fetch : Url → Option Resp) (max : Nat) (url : Url) :
    (get fetch max url).2.length ≤ max + 1 := by
  rcases follow_bound fetch max (max + 2) url [] with h | h
  · simpa [get] using h
  · simp [get, h]

/-- every hop after the first goes to a gemini:// URL -/
theorem follow_scheme (fetch : Url → Option Resp) (max fuel : Nat) (url : Url) (chain : List Url)
    (h0 : gem.isPrefixOf url = true) : ∀ v ∈ (follow fetch max fuel url chain).2, gem.isPrefixOf v = true := by
  induction fuel generalizing url chain with
  | zero => intro v hv; simp [follow] at hv
  | succ n ih =>
    intro v hv
    simp only [follow] at hv
    split at hv
    · simp at hv
    · split at hv
      · simp at hv
      · split at hv
        · simp at hv; subst hv; exact h0
        · simp at hv; subst hv; exact h0
        · split at hv
          · simp at hv; subst hv; exact h0
          · split at hv
            · simp at hv; subst hv; exact h0
            · rename_i hg
              simp at hv
              rcases hv with rfl | hv
              · exact h0
              · exact ih _ _ (by simpa using hg) v hv

/-- a gemini redirect is never returned as if it were final content -/
theorem follow_no_fake_final (fetch : Url → Option Resp) (max fuel : Nat) (url : Url) (chain : List Url)
    (s : Nat) (t : Url) (h : (follow fetch max fuel url chain).1 = .ok (.redirect s t)) :
    gem.isPrefixOf t = false := by
  induction fuel generalizing url chain with
  | zero => simp [follow] at h
  | succ n ih =>
    simp only [follow] at h
    split at h
    · simp at h
    · split at h
      · simp at h
      · split at h
        · simp at h
        · simp at h
        · split at h
          · simp at h
          · split at h
            · rename_i hg
              simp at h
              obtain ⟨rfl, rfl⟩ := h
              simpa using hg
            · exact ih _ _ h
end Cl

namespace Cl
/-- a straight chain `u₀ → u₁ → … → uₙ` of gemini redirects ending in a final response -/
inductive Chain (fetch : Url → Option Resp) : Url → List Url → Nat → Prop
  | final (u : Url) (s : Nat) : fetch u = some (.final s) → Chain fetch u [] s
  | hop (u v : Url) (st : Nat) (rest : List Url) (s : Nat) :
      fetch u = some (.redirect st v) → v ≠ [] → gem.isPrefixOf v = true →
      Chain fetch v rest s → Chain fetch u (v :: rest) s

/-- C16: a loop-free chain of at most `max` gemini redirects is followed to its final response, with
    one connection per hop -/
theorem follow_chain (fetch : Url → Option Resp) (max : Nat) (u : Url) (hops : List Url) (s : Nat)
    (hc : Chain fetch u hops s) (visited : List Url) (fuel : Nat)
    (hfuel : hops.length < fuel)
    (hbudget : visited.length + hops.length ≤ max)
    (hfresh : ∀ x ∈ u :: hops, x ∉ visited) (hnodup : (u :: hops).Nodup) :
    follow fetch max fuel u visited = (.ok (.final s), u :: hops) := by
  induction hc generalizing visited fuel with
  | final u s hf =>
    cases fuel with
    | zero => simp at hfuel
    | succ n =>
      have h1 : u ∉ visited := hfresh u (by simp)
      have h2 : ¬ visited.length > max := by simp at hbudget; omega
      simp [follow, h1, h2, hf]
  | hop u v st rest s hf hne hg _ ih =>
    cases fuel with
    | zero => simp at hfuel
    | succ n =>
      have h1 : u ∉ visited := hfresh u (by simp)
      have h2 : ¬ visited.length > max := by simp at hbudget; omega
      have hve : v.isEmpty = false := by cases v with | nil => exact absurd rfl hne | cons _ _ => rfl
      have hrec := ih (visited ++ [u]) n (by simp at hfuel ⊢; omega) (by simp at hbudget ⊢; omega)
        (by
          intro x hx hm
          simp only [List.mem_append, List.mem_singleton] at hm
          rcases hm with hm | rfl
          · exact hfresh x (by simp at hx ⊢; right; exact hx) hm
          · simp only [List.nodup_cons] at hnodup
            exact hnodup.1 (by simpa using hx))
        (by simp only [List.nodup_cons] at hnodup ⊢; exact hnodup.2)
      simp [follow, h1, h2, hf, hve, hg, hrec]
end Cl
