import NauyacaVerif.Srv.Pump

/-! # Lemmas over `Srv.Pump` for C20 `no_plaintext`

The inner Gemini protocol (and with it every handler call and every application byte) exists only
after a TCP read completed the handshake (`hsFinal`); anything the engine rejects before that closes
the TCP connection and the state stays without an inner protocol whatever happens afterwards. -/

namespace Misc.PumpTls
open Srv

def isFinal : Item → Bool
  | .hsFinal => true
  | _ => false

def isHs : Item → Bool
  | .hs => true
  | _ => false

/-- an event that cannot complete the handshake -/
def noFinal : PEv → Prop
  | .read items => ∀ i ∈ items, isFinal i = false
  | _ => True

/-- handler + upload-handler invocations so far -/
def handlerCalls (p : PSt) : Nat :=
  match p.inner with
  | none => 0
  | some i => i.hcalls + i.ucalls

/-- "still before the handshake": no inner protocol object -/
def Pre (p : PSt) : Prop := p.inner = none ∧ p.hsDone = false

/-- the connection is dead and never had an inner protocol -/
def Dead (p : PSt) : Prop := Pre p ∧ (p.tcpClosed = true ∨ p.lost = true)

theorem pre_init : Pre ({} : PSt) := ⟨rfl, rfl⟩

theorem pre_plainOut (p : PSt) (h : Pre p) : plainOut p = [] ∧ handlerCalls p = 0 := by
  simp [plainOut, handlerCalls, h.1]

theorem go_noFinal (cfg : Cfg) (items : List Item) : ∀ p : PSt, Pre p → (∀ i ∈ items, isFinal i = false) →
    Pre (pumpRead.go cfg p items) := by
  induction items with
  | nil => intro p hp _; simpa [pumpRead.go] using hp
  | cons x xs ih =>
    intro p hp hx
    have hx0 := hx x (by simp)
    have hxs : ∀ i ∈ xs, isFinal i = false := fun i hi => hx i (by simp [hi])
    cases x with
    | hs => simpa [pumpRead.go] using ih p hp hxs
    | hsFinal => simp [isFinal] at hx0
    | app d => simpa [pumpRead.go, Pre] using hp
    | closeNotify => simpa [pumpRead.go, Pre] using hp
    | bad => simpa [pumpRead.go, Pre] using hp

/-- handshake records, then something that is not a handshake record: closed, still no inner protocol -/
theorem go_reject (cfg : Cfg) (pre : List Item) (x : Item) (rest : List Item)
    (hx : isHs x = false ∧ isFinal x = false) :
    ∀ p : PSt, Pre p → (∀ i ∈ pre, isHs i = true) →
      Pre (pumpRead.go cfg p (pre ++ x :: rest)) ∧ (pumpRead.go cfg p (pre ++ x :: rest)).tcpClosed = true := by
  induction pre with
  | nil =>
    intro p hp _
    cases x with
    | hs => simp [isHs] at hx
    | hsFinal => simp [isFinal] at hx
    | app d => simpa [pumpRead.go, Pre] using hp
    | closeNotify => simpa [pumpRead.go, Pre] using hp
    | bad => simpa [pumpRead.go, Pre] using hp
  | cons y ys ih =>
    intro p hp hpre
    have hy := hpre y (by simp)
    have hys : ∀ i ∈ ys, isHs i = true := fun i hi => hpre i (by simp [hi])
    cases y with
    | hs => simpa [pumpRead.go] using ih p hp hys
    | hsFinal => simp [isHs] at hy
    | app d => simp [isHs] at hy
    | closeNotify => simp [isHs] at hy
    | bad => simp [isHs] at hy

theorem step_pre (cfg : Cfg) (p : PSt) (e : PEv) (hp : Pre p) (he : noFinal e) : Pre (pumpStep cfg p e) := by
  cases e with
  | read items =>
    simp only [pumpStep, pumpRead]
    by_cases h1 : p.lost = true ∨ p.tcpClosed = true
    · rw [if_pos h1]; exact hp
    · rw [if_neg h1]
      have h2 : ¬ (p.hsDone = true) := by simp [hp.2]
      rw [if_neg h2]
      exact go_noFinal cfg items p hp he
  | hsTimeout =>
    simp only [pumpStep]
    split
    · exact ⟨hp.1, hp.2⟩
    · exact hp
  | innerEv ev =>
    obtain ⟨h1, h2⟩ := hp
    simp only [pumpStep, h1, Option.map_none, syncClosed, Pre]
    exact ⟨trivial, h2⟩
  | tcpLost =>
    obtain ⟨h1, h2⟩ := hp
    simp only [pumpStep, h1, Option.map_none, Pre]
    exact ⟨trivial, h2⟩

theorem run_pre (cfg : Cfg) (evs : List PEv) : ∀ p : PSt, Pre p → (∀ e ∈ evs, noFinal e) →
    Pre (evs.foldl (pumpStep cfg) p) := by
  induction evs with
  | nil => intro p hp _; exact hp
  | cons e es ih =>
    intro p hp h
    exact ih _ (step_pre cfg p e hp (h e (by simp))) (fun e' he' => h e' (by simp [he']))

theorem step_dead (cfg : Cfg) (p : PSt) (e : PEv) (hp : Dead p) : Dead (pumpStep cfg p e) := by
  obtain ⟨hpre, hd⟩ := hp
  cases e with
  | read items =>
    have h1 : p.lost = true ∨ p.tcpClosed = true := hd.symm
    simp only [pumpStep, pumpRead]
    rw [if_pos h1]
    exact ⟨hpre, hd⟩
  | hsTimeout =>
    simp only [pumpStep]
    split
    · exact ⟨⟨hpre.1, hpre.2⟩, Or.inl rfl⟩
    · exact ⟨hpre, hd⟩
  | innerEv ev =>
    obtain ⟨h1, h2⟩ := hpre
    simp only [pumpStep, h1, Option.map_none, syncClosed, Dead, Pre]
    exact ⟨⟨trivial, h2⟩, hd⟩
  | tcpLost =>
    obtain ⟨h1, h2⟩ := hpre
    simp only [pumpStep, h1, Option.map_none, Dead, Pre]
    exact ⟨⟨trivial, h2⟩, Or.inr trivial⟩

theorem run_dead (cfg : Cfg) (evs : List PEv) : ∀ p : PSt, Dead p → Dead (evs.foldl (pumpStep cfg) p) := by
  induction evs with
  | nil => intro p hp; exact hp
  | cons e es ih => intro p hp; exact ih _ (step_dead cfg p e hp)

/-- a read that carries a non-handshake item before the handshake completed kills the connection -/
theorem step_reject (cfg : Cfg) (p : PSt) (hp : Pre p) (pre : List Item) (x : Item) (rest : List Item)
    (hpre : ∀ i ∈ pre, isHs i = true) (hx : isHs x = false ∧ isFinal x = false) :
    Dead (pumpStep cfg p (.read (pre ++ x :: rest))) := by
  simp only [pumpStep, pumpRead]
  by_cases h1 : p.lost = true ∨ p.tcpClosed = true
  · rw [if_pos h1]; exact ⟨hp, h1.symm⟩
  · rw [if_neg h1]
    have h2 : ¬ (p.hsDone = true) := by simp [hp.2]
    rw [if_neg h2]
    have := go_reject cfg pre x rest hx p hp hpre
    exact ⟨this.1, Or.inl this.2⟩
end Misc.PumpTls
