namespace Cl
abbrev Bytes := List Nat

def maxBody : Nat := 10 * 1024 * 1024
def maxHeader : Nat := 2 + 1 + 1024

def findCRLF : Bytes → Option Nat
  | [] => none
  | [_] => none
  | a :: b :: rest => if a = 13 ∧ b = 10 then some 0 else (findCRLF (b :: rest)).map (· + 1)

/-- opaque library behaviour the protocol depends on -/
structure Env where
  /-- `header_line.decode("utf-8")` succeeds? -/
  utf8Ok : Bytes → Bool
  /-- `int(token)` for the text before the first space of the header -/
  parseInt : Bytes → Option Int
  /-- meta says text/* (or is empty) -/
  isText : Bytes → Bool
  /-- decoding the body with the charset named in the meta: 0 = ok, 1 = bad bytes, 2 = unknown label -/
  decodeBody : Bytes → Bytes → Nat

inductive Fut where
  | pending
  | response (status : Int) (mta : Bytes) (body : Option Bytes) (decoded : Bool)
  | error (kind : String)
deriving Repr, DecidableEq

structure CSt where
  buf : Bytes := []
  headerReceived : Bool := false
  status : Option Int := none
  mta : Bytes := []
  fut : Fut := .pending
  closeReq : Bool := false
  crashed : Bool := false       -- an exception escaped `data_received` (asyncio then aborts the transport)
  decodeText : Bool := true
deriving Repr

inductive CEv where
  | data (c : Bytes)
  | lost (exc : Bool)
deriving Repr

def setError (s : CSt) (k : String) : CSt := if s.fut = .pending then { s with fut := .error k } else s

def splitSpace (h : Bytes) : Bytes × Bytes :=
  match h.span (· ≠ 32) with
  | (a, []) => (a, [])
  | (a, _ :: b) => (a, b)

/-- `_parse_header` -/
def parseHeader (env : Env) (s : CSt) (h : Bytes) : CSt :=
  let (tok, m) := splitSpace h
  match env.parseInt tok with
  | none => setError s "badStatus"
  | some st =>
    let s := { s with status := some st, mta := m }
    if 10 ≤ st ∧ st < 70 then s else setError s "statusRange"

def capCheck (s : CSt) : CSt :=
  if s.buf.length > maxBody then { setError s "tooBig" with closeReq := true } else s

/-- `data_received` (repaired: header-length bound) -/
def onData (env : Env) (s : CSt) (c : Bytes) : CSt :=
  if s.closeReq ∨ s.crashed then s else   -- the transport delivers nothing after close()
  let s := { s with buf := s.buf ++ c }
  if !s.headerReceived then
    match findCRLF s.buf with
    | none =>
      if s.buf.length > maxHeader + 1 then { setError s "headerTooLong" with headerReceived := true, closeReq := true }
      else capCheck s
    | some i =>
      if i > maxHeader then { setError s "headerTooLong" with headerReceived := true, closeReq := true }
      else
        let line := s.buf.take i
        if !env.utf8Ok line then { s with crashed := true }
        else
          let s := parseHeader env s line
          let s := { s with buf := s.buf.drop (i + 2), headerReceived := true }
          match s.status with
          | none => { s with closeReq := true }
          | some st => if 20 ≤ st ∧ st < 30 then capCheck s else capCheck { s with closeReq := true }
  else capCheck s

/-- `connection_lost` -/
def onLost (env : Env) (s : CSt) (exc : Bool) : CSt :=
  if s.fut ≠ .pending then s
  else if exc then { s with fut := .error "connection" }
  else if !s.headerReceived then { s with fut := .error "closedEarly" }
  else match s.status with
    | none => { s with fut := .error "internal" }     -- unreachable: status None ⇒ error already set
    | some st =>
      if 20 ≤ st ∧ st < 30 then
        if env.isText s.mta ∧ s.decodeText then
          match env.decodeBody s.mta s.buf with
          | 0 => { s with fut := .response st s.mta (some s.buf) true }
          | 1 => { s with fut := .error "decode" }
          | _ => { s with fut := .error "charset" }
        else { s with fut := .response st s.mta (some s.buf) false }
      else { s with fut := .response st s.mta none false }

def cstep (env : Env) (s : CSt) : CEv → CSt
  | .data c => onData env s c
  | .lost e => onLost env s (e || s.crashed)

def crun (env : Env) (evs : List CEv) : CSt := evs.foldl (cstep env) {}

/-- C13: once the connection is lost, the caller's future is resolved — for every server byte
    stream, every segmentation, every behaviour of the codecs -/
theorem lost_resolves (env : Env) (s : CSt) (e : Bool) : (cstep env s (.lost e)).fut ≠ .pending := by
  simp only [cstep, onLost]
  split
  · assumption
  · split
    · simp
    · split
      · simp
      · split
        · simp
        · split
          · split
            · split <;> simp
            · simp
          · simp

theorem setError_keep (s : CSt) (k : String) (h : s.fut ≠ .pending) : (setError s k).fut = s.fut := by
  unfold setError; rw [if_neg h]

theorem capCheck_keep (s : CSt) (h : s.fut ≠ .pending) : (capCheck s).fut = s.fut := by
  unfold capCheck; split
  · exact setError_keep s _ h
  · rfl

theorem parseHeader_keep (env : Env) (s : CSt) (l : Bytes) (h : s.fut ≠ .pending) :
    (parseHeader env s l).fut = s.fut := by
  unfold parseHeader
  simp only
  split
  · exact setError_keep s _ h
  · split
    · rfl
    · exact setError_keep _ _ h

/-- a resolved future is never touched again -/
theorem fut_stable (env : Env) (s : CSt) (ev : CEv) (h : s.fut ≠ .pending) : (cstep env s ev).fut = s.fut := by
  cases ev with
  | lost e => simp [cstep, onLost, h]
  | data c =>
    simp only [cstep, onData]
    split
    · rfl
    · split
      · split
        · split
          · exact setError_keep { s with buf := s.buf ++ c } _ h
          · exact capCheck_keep { s with buf := s.buf ++ c } h
        · split
          · exact setError_keep { s with buf := s.buf ++ c } _ h
          · rename_i i _ _
            split
            · rfl
            · have hp := parseHeader_keep env { s with buf := s.buf ++ c } ((s.buf ++ c).take i) h
              split
              · exact hp
              · split
                · rw [capCheck_keep _ (by simpa [hp] using h)]; exact hp
                · rw [capCheck_keep _ (by simpa [hp] using h)]; exact hp
      · exact capCheck_keep { s with buf := s.buf ++ c } h

theorem run_stable (env : Env) (s : CSt) (evs : List CEv) (h : s.fut ≠ .pending) :
    (evs.foldl (cstep env) s).fut = s.fut := by
  induction evs generalizing s with
  | nil => rfl
  | cons e es ih =>
    have h1 := fut_stable env s e h
    simp only [List.foldl_cons]
    rw [ih _ (by rw [h1]; exact h), h1]

/-- C13 (termination): in every history that contains a connection loss, the call has a result —
    whatever the server sent, however it was segmented, whatever the codecs do -/
theorem resolves_after_lost (env : Env) (pre post : List CEv) (e : Bool) :
    (crun env (pre ++ [.lost e] ++ post)).fut ≠ .pending := by
  unfold crun
  rw [List.foldl_append, List.foldl_append]
  simp only [List.foldl_cons, List.foldl_nil]
  have h := lost_resolves env (pre.foldl (cstep env) {}) e
  rw [run_stable env _ post h]; exact h

example : (crun ⟨fun _ => true, fun _ => some 20, fun _ => true, fun _ _ => 2⟩
    [.data [50, 48, 32, 120, 13, 10, 104, 105], .lost false]).fut = .error "charset" := by decide
end Cl
