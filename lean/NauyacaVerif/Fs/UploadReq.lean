import NauyacaVerif.Fs.Upload
import NauyacaVerif.Url.Basic

/-! ## From the Titan request line to the upload handler

`TitanRequest.from_line` + `_parse_titan_params` (`protocol/request.py`) and the content slicing of
`GeminiServerProtocol.data_received / _handle_titan_url` (`server/protocol.py`): the handler sees
`buffer[:size]` once `size` bytes have arrived (at once for `size = 0`). -/
namespace Fs

/-- what Python's `str.strip()` removes -/
def isPyWs (c : Char) : Bool :=
  let n := c.toNat
  (9 ≤ n && n ≤ 13) || (28 ≤ n && n ≤ 32) || n == 0x85 || n == 0xa0 || n == 0x1680 ||
  (0x2000 ≤ n && n ≤ 0x200a) || n == 0x2028 || n == 0x2029 || n == 0x202f || n == 0x205f || n == 0x3000

def stripWs (s : List Char) : List Char := ((s.dropWhile isPyWs).reverse.dropWhile isPyWs).reverse

def splitAllAux (c : Char) : List Char → List Char → List (List Char)
  | [], cur => [cur.reverse]
  | x :: xs, cur => if x = c then cur.reverse :: splitAllAux c xs [] else splitAllAux c xs (x :: cur)

/-- `str.split(c)` -/
def splitAll (c : Char) (s : List Char) : List (List Char) := splitAllAux c s []

/-- `_parse_titan_params(params)[name]`: parts without `=` are skipped, keys and values are
    stripped, the last duplicate wins -/
def titanParam (name : List Char) (params : List Char) : Option (List Char) :=
  (splitAll ';' params).foldl (fun acc part =>
    match Url.splitOnce '=' part with
    | some (k, v) => if stripWs k = name then some (stripWs v) else acc
    | none => acc) none

/-- ASCII fragment of Python's `int(str)`: optional sign, digits, single underscores between digits -/
def pyIntDigits : List Char → Bool → Option Nat → Option Nat
  | [], prevDigit, acc => if prevDigit then acc else none
  | c :: cs, prevDigit, acc =>
    if c.isDigit then pyIntDigits cs true (some ((acc.getD 0) * 10 + (c.toNat - 48)))
    else if c = '_' && prevDigit then pyIntDigits cs false acc
    else none

def pyInt (s0 : List Char) : Option Int :=
  match stripWs s0 with
  | '-' :: r => (pyIntDigits r false none).map (fun n => - (n : Int))
  | '+' :: r => (pyIntDigits r false none).map (fun n => (n : Int))
  | r => (pyIntDigits r false none).map (fun n => (n : Int))

def kSize : List Char := ['s', 'i', 'z', 'e']
def kMime : List Char := ['m', 'i', 'm', 'e']
def kToken : List Char := ['t', 'o', 'k', 'e', 'n']
def titanPrefix : List Char := ['t', 'i', 't', 'a', 'n', ':', '/', '/']
def geminiPrefix : List Char := ['g', 'e', 'm', 'i', 'n', 'i', ':', '/', '/']
def textGemini : List Char := ['t', 'e', 'x', 't', '/', 'g', 'e', 'm', 'i', 'n', 'i']

structure TitanLine where
  path : List Char
  size : Nat
  mime : List Char
  token : Option (List Char)
deriving Repr, DecidableEq

/-- `TitanRequest.from_line`: none = it raises (the protocol answers 59) -/
def parseTitan (env : Url.Env) (line : List Char) : Option TitanLine :=
  if !titanPrefix.isPrefixOf line then none
  else match Url.splitOnce ';' line with
    | none => none
    | some (urlPart, params) =>
      match titanParam kSize params with
      | none => none
      | some sz =>
        match pyInt sz with
        | none => none
        | some n =>
          if n < 0 then none
          else match Url.parseUrl env (geminiPrefix ++ urlPart.drop 8) with
            | .error _ => none
            | .ok p => some ⟨p.path, n.toNat, (titanParam kMime params).getD textGemini, titanParam kToken params⟩

/-- `request.path.lstrip("/")` split into components -/
def pathComps (path : List Char) : List Name :=
  (splitAll '/' (path.dropWhile (· = '/'))).map String.ofList

def toReq (t : TitanLine) (content : Bytes) : UReq :=
  { comps := pathComps t.path, size := t.size, mime := String.ofList t.mime, token := t.token.map String.ofList, content := content }

/-- the protocol layer: `none` = nothing dispatched yet (content incomplete), otherwise the
    handler's answer on the first `size` bytes (`raised` is answered with 40 by the protocol) -/
def protoUpload (env : Url.Env) (os : UOS) (c : UCfg) (f : Faults) (line : List Char) (buffer : Bytes) :
    Option (UStatus × List Effect) :=
  match parseTitan env line with
  | none => some (.s59, [])
  | some t =>
    if t.size = 0 then some (handleUpload os c f (toReq t []))
    else if buffer.length < t.size then none
    else some (handleUpload os c f (toReq t buffer))

end Fs
