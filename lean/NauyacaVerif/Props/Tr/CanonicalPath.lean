import NauyacaVerif.Gen.Fn.CanonicalPath
import NauyacaVerif.Fs.Canon

/-! Translated function = hand-written model.  `Gen/Fn/CanonicalPath.lean` is produced on every run by `harness/translate.py` from the Python
AST of the CURRENT source tree; the theorems here prove the generated definition equal to the hand-written model the property theorems
are about.  An edit that changes what the function computes changes the generated definition and breaks the theorem; an edit that
leaves the translator's subset removes the definition and the theorem no longer elaborates.  One file per function, so that a change to
one function touches only the properties that rest on it. -/
namespace NauyacaVerif.Translated
open NauyacaVerif.Gen

theorem intercalate_joinSlash (segs : List (List Nat)) : List.intercalate [47] segs = Fs.Canon.joinSlash segs := by
  induction segs with
  | nil => rfl
  | cons a t ih =>
    cases t with
    | nil => simp [List.intercalate, Fs.Canon.joinSlash]
    | cons b u =>
      have : List.intercalate [47] (a :: b :: u) = a ++ 47 :: List.intercalate [47] (b :: u) := by
        simp [List.intercalate, List.intersperse]
      rw [this, ih]; rfl

/-- the loop body of `canonical_path` (translated) is the model's `Fs.Canon.foldSeg` -/
theorem canonStep_eq (acc : List (List Nat)) (p : List Nat) :
    (if ((p == ([] : List Nat)) || (p == ([46] : List Nat))) then acc
     else if (p == ([46, 46] : List Nat)) then (if (!acc.isEmpty) then acc.dropLast else acc)
     else acc ++ [p]) = Fs.Canon.foldSeg acc p := by
  unfold Fs.Canon.foldSeg Fs.Canon.dot Fs.Canon.dotdot
  by_cases h1 : p = []
  · simp [h1]
  · by_cases h2 : p = [46]
    · simp [h2]
    · by_cases h3 : p = [46, 46]
      · subst h3
        cases acc <;> simp
      · simp [h1, h2, h3]

/-- `canonical_path` (translated; `unquote` and `str.split` are parameters) is the model's rendering of
    `segsOf parts` with the trailing-slash rule -/
theorem canonicalPath_eq (decoded : List Nat) (parts : List (List Nat)) :
    Fn.canonicalPath decoded parts =
      Fs.Canon.render (Fs.Canon.segsOf parts, !(Fs.Canon.segsOf parts).isEmpty && Fs.Canon.dotty (parts.getLast?.getD [])) := by
  have hfold : (parts.foldl (fun segments part =>
      if ((part == ([] : List Nat)) || (part == ([46] : List Nat))) then segments
      else if (part == ([46, 46] : List Nat)) then (if (!segments.isEmpty) then segments.dropLast else segments)
      else segments ++ [part]) []) = Fs.Canon.segsOf parts := by
    unfold Fs.Canon.segsOf
    congr 1
    funext acc p
    exact canonStep_eq acc p
  simp only [Fn.canonicalPath]
  rw [hfold]
  unfold Fs.Canon.render Fs.Canon.dotty Fs.Canon.dot Fs.Canon.dotdot
  simp only [intercalate_joinSlash]
  by_cases h : (!(Fs.Canon.segsOf parts).isEmpty && ((parts.getLast?.getD []) == ([] : List Nat) || (parts.getLast?.getD []) == ([46] : List Nat) || (parts.getLast?.getD []) == ([46, 46] : List Nat))) = true
  · simp only [h, ↓reduceIte]
    have h' : (!(Fs.Canon.segsOf parts).isEmpty && (decide (parts.getLast?.getD [] = []) || decide (parts.getLast?.getD [] = [46]) || decide (parts.getLast?.getD [] = [46, 46]))) = true := by
      simpa using h
    simp [h', List.append_assoc]
  · simp only [h, Bool.false_eq_true, ↓reduceIte]
    have h' : (!(Fs.Canon.segsOf parts).isEmpty && (decide (parts.getLast?.getD [] = []) || decide (parts.getLast?.getD [] = [46]) || decide (parts.getLast?.getD [] = [46, 46]))) = false := by
      simpa using h
    simp [h']

end NauyacaVerif.Translated
