"""SQLite shim for C12 (DESIGN.md §13): a module object substituted for `sqlite3` inside
`nauyaca.security.tofu`.  It delegates to the real sqlite3, records every statement / commit in
execution order (the *script*) and can raise or hard-exit the process at a chosen boundary.

Boundary k = "the first k statements (commits count as statements) have run"; the fault hits when
statement k is about to be executed.  Statements are canonicalised to the tags of the Lean model
(`Misc/TofuTxn.lean`):

    C                     CREATE TABLE IF NOT EXISTS
    S:<host>:<port>       SELECT fingerprint … WHERE hostname = ? AND port = ?
    I:<host>:<port>:<fp>:<first>:<last>
    U:<host>:<port>:<fp>:<now>     UPDATE … SET fingerprint = ?, last_seen = ?
    T:<host>:<port>:<now>          UPDATE … SET last_seen = ?
    D:<host>:<port>       DH:<host>       DA       K (commit)
    Q                     any other read-only SELECT (list_hosts, get_host_info, count)
    ?<sql>                anything else

A `|` separates statements issued on different connections.
"""
from __future__ import annotations

import os
import sqlite3 as real
import types


class Injected(real.OperationalError):
    pass


def _norm(sql: str) -> str:
    return " ".join(sql.split()).upper()


def classify(sql: str, params) -> tuple:
    s = _norm(sql)
    p = tuple(params)
    if s.startswith("CREATE TABLE IF NOT EXISTS KNOWN_HOSTS"):
        return ("C",)
    if s == "SELECT FINGERPRINT FROM KNOWN_HOSTS WHERE HOSTNAME = ? AND PORT = ?":
        return ("S", p[0], p[1])
    if s.startswith("INSERT INTO KNOWN_HOSTS (HOSTNAME, PORT, FINGERPRINT, FIRST_SEEN, LAST_SEEN) VALUES (?, ?, ?, ?, ?)"):
        return ("I",) + p
    if s == "UPDATE KNOWN_HOSTS SET FINGERPRINT = ?, LAST_SEEN = ? WHERE HOSTNAME = ? AND PORT = ?":
        return ("U", p[2], p[3], p[0], p[1])
    if s == "UPDATE KNOWN_HOSTS SET LAST_SEEN = ? WHERE HOSTNAME = ? AND PORT = ?":
        return ("T", p[1], p[2], p[0])
    if s == "DELETE FROM KNOWN_HOSTS WHERE HOSTNAME = ? AND PORT = ?":
        return ("D", p[0], p[1])
    if s == "DELETE FROM KNOWN_HOSTS WHERE HOSTNAME = ?":
        return ("DH", p[0])
    if s == "DELETE FROM KNOWN_HOSTS":
        return ("DA",)
    if s.startswith("SELECT"):
        return ("Q",)
    return ("?" + s[:60],)


class Shim(types.ModuleType):
    def __init__(self):
        super().__init__("sqlite3_shim")
        for name in ("Row", "Error", "IntegrityError", "OperationalError", "DatabaseError", "ProgrammingError", "InterfaceError"):
            setattr(self, name, getattr(real, name))
        self.reset()

    def reset(self, k=None, mode="raise"):
        self.k = k            # boundary at which to fail (None: never)
        self.mode = mode      # raise | exit
        self.n = 0            # statements executed so far
        self.fired = False
        self.script = []      # [(conn id, tag tuple)]
        self.conns = 0

    def boundary(self, conn_id: int, tag: tuple) -> None:
        if self.k is not None and self.n == self.k and not self.fired:
            self.fired = True
            if self.mode == "exit":
                os._exit(9)
            raise Injected(f"injected fault at boundary {self.k}")
        self.n += 1
        self.script.append((conn_id, tag))

    def connect(self, path, *a, **kw):
        shim = self
        conn = real.connect(path, *a, **kw)
        shim.conns += 1
        cid = shim.conns

        class Cur:
            def __init__(s):
                s._c = conn.cursor()

            def execute(s, sql, params=()):
                shim.boundary(cid, classify(sql, params))
                return s._c.execute(sql, params)

            def fetchone(s):
                return s._c.fetchone()

            def fetchall(s):
                return s._c.fetchall()

            @property
            def rowcount(s):
                return s._c.rowcount

            def __getattr__(s, name):          # everything else (lastrowid, description, …) is the real cursor's
                return getattr(s._c, name)

        class Conn:
            def cursor(s):
                return Cur()

            def execute(s, sql, params=()):
                c = Cur()
                c.execute(sql, params)
                return c

            def commit(s):
                shim.boundary(cid, ("K",))
                conn.commit()

            def rollback(s):
                conn.rollback()

            def close(s):
                conn.close()

            def __setattr__(s, k, v):
                setattr(conn, k, v)

            def __getattr__(s, name):          # in_transaction, isolation_level, total_changes, … are the real connection's
                return getattr(conn, name)

            def __enter__(s):
                return s

            def __exit__(s, et, ev, tb):
                # sqlite3's own context manager: commit on success, rollback on exception
                if et is None:
                    s.commit()
                else:
                    conn.rollback()
                return False

        return Conn()
