import NauyacaVerif.Drv.Common
import NauyacaVerif.Url.Basic
import NauyacaVerif.Url.WireModel
namespace NauyacaVerif.Drv.UrlD
open NauyacaVerif.Drv Url

def lowerA (s : Str) : Str := s.map lowerAscii

def mkEnv (ip nf : String) : Env := { ipLiteralOk := fun _ => ip == "1", nfkcOk := fun _ => nf == "1", lowerU := lowerA }

def showParsed (p : Parsed) : String :=
  s!"ok {showCps p.host} {p.port} {showCps p.path} {showCps p.query} {showCps p.normalized}"

def showWireErr : WireErr → String
  | .incomplete => "incomplete"
  | .tooLong => "tooLong"
  | .url e => s!"{repr e}"

/-- `url <cps> <ipLitOk> <nfkcOk>`                      → `ok <host> <port> <path> <query> <normalized>` | `err <kind>`
    `wire <maxReq> <cps> <ipLitOk> <nfkcOk>`            → `ok <request line incl. CRLF> | <server-side parse of it>` | `err <kind>`
    (`wire`: what `GeminiClient.get` writes for the URL and what `GeminiRequest.from_line` makes of it) -/
def handle : List String → Option String
  | ["url", u, ip, nf] =>
    match parseUrl (mkEnv ip nf) (cpsChars u) with
    | .error e => some s!"err {repr e}"
    | .ok p => some (showParsed p)
  | ["wire", mx, u, ip, nf] =>
    match clientWire (mkEnv ip nf) mx.toNat! (cpsChars u) with
    | .error e => some s!"err {showWireErr e}"
    | .ok w =>
      match serverParse (mkEnv ip nf) mx.toNat! w with
      | .error e => some s!"ok {showCps w} | err {showWireErr e}"
      | .ok p => some s!"ok {showCps w} | {showParsed p}"
  | _ => none
end NauyacaVerif.Drv.UrlD
