import NauyacaVerif.Gen.Fn.DataReceived
import NauyacaVerif.Srv.PState
import NauyacaVerif.Srv.SegProof
set_option linter.unusedSimpArgs false
set_option linter.unusedVariables false
/-!
The hand-written connection model `Srv.step` (M-ServerConn: the event `data`) against the TRANSLATION of
`GeminiServerProtocol.data_received` with `_handle_titan_url` inlined (regenerated from the current source on every run).
The translated code runs on the protocol's own attributes (`Srv.PState`); the methods it calls are instantiated with what
the model says they do (`envOf`).  `data_received_refines`: from every state in which the attributes and the model state
are related (`Rel`), on every chunk of bytes, the translated code ends in the state the model's `step … (.data chunk)`
ends in, and the relation holds again — so it holds along every sequence of reads.
-/
namespace NauyacaVerif.Translated
open NauyacaVerif.Gen.Fn Srv

def sendErrModel (m : St) (code : Nat) (msg : List Char) : St :=
  if (['I', 'n', 'v', 'a', 'l', 'i', 'd', ' ', 'T', 'i', 't', 'a', 'n', ' ', 'U', 'R', 'L', ':', ' '] : List Char).isPrefixOf msg
  then respondDyn m code else respond m ⟨code, msg.map Char.toNat, .none⟩

/-- what the model says the called methods do -/
def envOf (cfg : Cfg) (peer : Bool) : DrEnv where
  upload := cfg.upload
  peerCert := peer
  titanFromLine url := match titanParse cfg.env url with | some n => .ok ⟨n, []⟩ | none => .error []
  sendError s code msg := { s with _response_sent := true, timeout_handle := false, m := sendErrModel s.m code msg }
  geminiRequest s url :=
    let m' := if geminiOk cfg.env url then dispatchG cfg s.m else respondDyn s.m 59
    { s with _request_dispatched := geminiOk cfg.env url, _response_sent := m'.sent, m := m' }
  processUpload s :=
    { s with awaiting_titan_content := false, _request_dispatched := true,
             m := if cfg.mw then { s.m with mwcalls := s.m.mwcalls + 1, phase := .mwT } else startUpload s.m }

/-- the model state a protocol state stands for: buffer, declared size and "waiting for Titan content" are attributes -/
def absorb (s : PState) : St :=
  { s.m with buf := s.buffer, size := s.titanSize,
             phase := if s.m.phase = .awaitLine ∧ s.awaiting_titan_content = true then .awaitTitan else s.m.phase }

/-- the ghost `req` (C08's witness of the parsed line) has no counterpart among the attributes -/
def eraseReq (m : St) : St := { m with req := none }

structure Rel (s : PState) : Prop where
  alive : s.m.lost = false
  sent : s._response_sent = s.m.sent
  notTitan : s.m.phase ≠ .awaitTitan
  busy : s.m.phase ≠ .awaitLine → (s._request_dispatched = true ∨ s._response_sent = true)
  disp : s._request_dispatched = true → s.m.phase ≠ .awaitLine
  waiting : s.m.phase = .awaitLine → s._response_sent = false →
    s.timeout_handle = true ∧ s.m.timer = true ∧ s.m.content = [] ∧
    (s.url_line_received = false → s.awaiting_titan_content = false) ∧
    (s.url_line_received = true → s.awaiting_titan_content = true ∧ s.titan_request.isSome = true)
  idle : s.m.phase = .awaitLine → s._response_sent = true → s.awaiting_titan_content = false

theorem data_received_refines (cfg : Cfg) (peer : Bool) (s : PState) (data : Bytes) (h : Rel s) :
    eraseReq (absorb (dataReceived (envOf cfg peer) s data).1) = eraseReq (step cfg (absorb s) (.data data)) := by
  obtain ⟨alive, sent, notTitan, busy, disp, waiting, idle⟩ := h
  by_cases hd : s._request_dispatched = true
  · -- a request was dispatched: further bytes are ignored
    have hp := disp hd
    have : (absorb s).phase = s.m.phase := by simp [absorb, hp]
    unfold dataReceived
    simp only [hd, Bool.true_or, if_true]
    cases hph : s.m.phase <;> simp_all [step, absorb]
  · have hd' : s._request_dispatched = false := by simpa using hd
    by_cases hs : s._response_sent = true
    · -- a response was sent without a dispatch (error, timeout): further bytes are ignored
      have hms : s.m.sent = true := by rw [← sent]; exact hs
      unfold dataReceived
      simp only [hd', hs, Bool.or_true, if_true]
      cases hph : s.m.phase <;> simp_all [step, absorb]
    · have hs' : s._response_sent = false := by simpa using hs
      have hph : s.m.phase = .awaitLine := by
        apply Classical.byContradiction
        intro hne
        rcases busy hne with h1 | h1
        · exact hd h1
        · exact hs h1
      have hms : s.m.sent = false := by rw [← sent]; exact hs'
      obtain ⟨hth, htm, hct, hw0, hw1⟩ := waiting hph hs'
      by_cases hu : s.url_line_received = true
      · -- state 2: waiting for the Titan content
        obtain ⟨haw, hreq⟩ := hw1 hu
        obtain ⟨t, ht⟩ := Option.isSome_iff_exists.mp hreq
        unfold dataReceived
        simp only [hd', hs', Bool.or_self, Bool.false_eq_true, if_false, hu, Bool.not_true]
        by_cases hlen : t.size ≤ s.buffer.length + data.length
        · cases hmw : cfg.mw <;>
            simp [step, absorb, titanStep, dispatchT, startUpload, envOf, PState.titanSize, PState.setContent, PState.cancelTimer,
              eraseReq, alive, hph, haw, ht, hth, hlen, hmw]
        · simp [step, absorb, titanStep, envOf, PState.titanSize, eraseReq, alive, hph, haw, ht, hth, hlen]
      · -- state 1: looking for the request line
        have hu' : s.url_line_received = false := by simpa using hu
        have haw : s.awaiting_titan_content = false := hw0 hu'
        unfold dataReceived
        simp only [hd', hs', Bool.or_self, Bool.false_eq_true, if_false, hu', Bool.not_false, if_true]
        cases hf : findCRLF (s.buffer ++ data) with
        | none =>
          by_cases hlen : maxRequest < s.buffer.length + data.length
          · simp [step, absorb, lineStep, tooLong, respondFixed, envOf, sendErrModel, hasCRLF, eraseReq, alive, hph, haw, hf, hlen, hms, strOf,
              PState.titanSize, respond, respondWith]
          · simp [step, absorb, lineStep, envOf, hasCRLF, eraseReq, alive, hph, haw, hf, hlen, hms, PState.titanSize]
        | some i =>
          have hi := findCRLF_lt hf
          have htake : (List.take i (s.buffer ++ data)).length = i := by simp at hi ⊢; omega
          by_cases hlong : maxRequest < i + 2
          · simp [step, absorb, lineStep, tooLong, respondFixed, envOf, sendErrModel, hasCRLF, cutCRLF, eraseReq, alive, hph, haw, hf, hlong, hms, strOf,
              PState.titanSize, respond, respondWith, htake]
          · cases hdec : decodeUtf8 (List.take i (s.buffer ++ data)) with
            | none =>
              simp [step, absorb, lineStep, onLine, respondFixed, envOf, sendErrModel, hasCRLF, cutCRLF, decodeUtf8E, eraseReq, alive, hph, haw, hf, hlong,
                hms, strOf, PState.titanSize, respond, respondWith, htake, hdec]
            | some url =>
              by_cases htit : titanLit.isPrefixOf url = true
              · have htit' : (['t', 'i', 't', 'a', 'n', ':', '/', '/'] : List Char).isPrefixOf url = true := htit
                cases hup : cfg.upload
                · simp [step, absorb, lineStep, onLine, respondFixed, envOf, sendErrModel, hasCRLF, cutCRLF, decodeUtf8E, eraseReq, alive, hph, haw, hf, hlong,
                    hms, strOf, PState.titanSize, respond, respondWith, htake, hdec, htit, htit', hup]
                · cases hparse : titanParse cfg.env url with
                  | none =>
                    simp [step, absorb, lineStep, onLine, respondDyn, envOf, sendErrModel, hasCRLF, cutCRLF, decodeUtf8E, eraseReq, alive, hph, haw, hf, hlong,
                      hms, PState.titanSize, respondWith, htake, hdec, htit, htit', hup, hparse]
                  | some n =>
                    by_cases hn0 : n = 0
                    · cases hmw : cfg.mw <;> cases peer <;>
                      simp [step, absorb, lineStep, onLine, dispatchT, startUpload, envOf, hasCRLF, cutCRLF, decodeUtf8E, eraseReq, alive, hph, haw, hf, hlong,
                        hms, PState.titanSize, PState.isDelete, PState.cancelTimer, PState.noteCert, htake, hdec, htit, htit', hup, hparse, hn0, hmw, hth, hct]
                    · by_cases hgot : n ≤ s.buffer.length + data.length - (i + 2)
                      · cases hmw : cfg.mw <;> cases peer <;>
                        simp [step, absorb, lineStep, onLine, dispatchT, startUpload, envOf, hasCRLF, cutCRLF, decodeUtf8E, eraseReq, alive, hph, haw, hf, hlong,
                          hms, PState.titanSize, PState.isDelete, PState.cancelTimer, PState.noteCert, PState.setContent, htake, hdec, htit, htit', hup, hparse, hn0,
                          hgot, hmw, hth, hct]
                      · cases peer <;>
                        simp [step, absorb, lineStep, onLine, envOf, hasCRLF, cutCRLF, decodeUtf8E, eraseReq, alive, hph, haw, hf, hlong,
                          hms, PState.titanSize, PState.isDelete, PState.noteCert, htake, hdec, htit, htit', hup, hparse, hn0, hgot, hth, hct]
              · have htit2 : titanLit.isPrefixOf url = false := by cases hh : titanLit.isPrefixOf url <;> simp_all
                have htit' : (['t', 'i', 't', 'a', 'n', ':', '/', '/'] : List Char).isPrefixOf url = false := htit2
                by_cases hok : geminiOk cfg.env url = true
                · cases hmw : cfg.mw
                  · cases hh : cfg.handler <;>
                    simp [step, absorb, lineStep, onLine, dispatchG, route, respondDyn, envOf, hasCRLF, cutCRLF, decodeUtf8E, eraseReq, alive, hph, haw, hf, hlong,
                      hms, PState.titanSize, PState.cancelTimer, respond, respondWith, htake, hdec, htit2, htit', hok, hmw, hth, hh]
                  · simp [step, absorb, lineStep, onLine, dispatchG, envOf, hasCRLF, cutCRLF, decodeUtf8E, eraseReq, alive, hph, haw, hf, hlong,
                      hms, PState.titanSize, PState.cancelTimer, htake, hdec, htit2, htit', hok, hmw, hth]
                · simp [step, absorb, lineStep, onLine, respondDyn, envOf, hasCRLF, cutCRLF, decodeUtf8E, eraseReq, alive, hph, haw, hf, hlong,
                    hms, PState.titanSize, PState.cancelTimer, respondWith, htake, hdec, htit2, htit', hok, hth]
theorem data_received_rel (cfg : Cfg) (peer : Bool) (s : PState) (data : Bytes) (h : Rel s) :
    Rel (dataReceived (envOf cfg peer) s data).1 := by
  have h0 := h
  obtain ⟨alive, sent, notTitan, busy, disp, waiting, idle⟩ := h
  by_cases hd : s._request_dispatched = true
  · -- a request was dispatched: further bytes are ignored
    unfold dataReceived
    simp only [hd, Bool.true_or, if_true]
    exact h0
  · have hd' : s._request_dispatched = false := by simpa using hd
    by_cases hs : s._response_sent = true
    · -- a response was sent without a dispatch (error, timeout): further bytes are ignored
      have hms : s.m.sent = true := by rw [← sent]; exact hs
      unfold dataReceived
      simp only [hd', hs, Bool.or_true, if_true]
      exact h0
    · have hs' : s._response_sent = false := by simpa using hs
      have hph : s.m.phase = .awaitLine := by
        apply Classical.byContradiction
        intro hne
        rcases busy hne with h1 | h1
        · exact hd h1
        · exact hs h1
      have hms : s.m.sent = false := by rw [← sent]; exact hs'
      obtain ⟨hth, htm, hct, hw0, hw1⟩ := waiting hph hs'
      by_cases hu : s.url_line_received = true
      · -- state 2: waiting for the Titan content
        obtain ⟨haw, hreq⟩ := hw1 hu
        obtain ⟨t, ht⟩ := Option.isSome_iff_exists.mp hreq
        unfold dataReceived
        simp only [hd', hs', Bool.or_self, Bool.false_eq_true, if_false, hu, Bool.not_true]
        by_cases hlen : t.size ≤ s.buffer.length + data.length
        · cases hmw : cfg.mw <;>
            (refine ⟨?_, ?_, ?_, ?_, ?_, ?_, ?_⟩ <;> simp [step, absorb, titanStep, dispatchT, startUpload, envOf, PState.titanSize, PState.setContent, PState.cancelTimer,
              eraseReq, alive, hph, haw, ht, hth, hlen, hmw] <;> simp_all)
        · (refine ⟨?_, ?_, ?_, ?_, ?_, ?_, ?_⟩ <;> simp [step, absorb, titanStep, envOf, PState.titanSize, eraseReq, alive, hph, haw, ht, hth, hlen] <;> simp_all)
      · -- state 1: looking for the request line
        have hu' : s.url_line_received = false := by simpa using hu
        have haw : s.awaiting_titan_content = false := hw0 hu'
        unfold dataReceived
        simp only [hd', hs', Bool.or_self, Bool.false_eq_true, if_false, hu', Bool.not_false, if_true]
        cases hf : findCRLF (s.buffer ++ data) with
        | none =>
          by_cases hlen : maxRequest < s.buffer.length + data.length
          · (refine ⟨?_, ?_, ?_, ?_, ?_, ?_, ?_⟩ <;> simp [step, absorb, lineStep, tooLong, respondFixed, envOf, sendErrModel, hasCRLF, eraseReq, alive, hph, haw, hf, hlen, hms, strOf,
              PState.titanSize, respond, respondWith] <;> simp_all)
          · (refine ⟨?_, ?_, ?_, ?_, ?_, ?_, ?_⟩ <;> simp [step, absorb, lineStep, envOf, hasCRLF, eraseReq, alive, hph, haw, hf, hlen, hms, PState.titanSize] <;> simp_all)
        | some i =>
          have hi := findCRLF_lt hf
          have htake : (List.take i (s.buffer ++ data)).length = i := by simp at hi ⊢; omega
          by_cases hlong : maxRequest < i + 2
          · (refine ⟨?_, ?_, ?_, ?_, ?_, ?_, ?_⟩ <;> simp [step, absorb, lineStep, tooLong, respondFixed, envOf, sendErrModel, hasCRLF, cutCRLF, eraseReq, alive, hph, haw, hf, hlong, hms, strOf,
              PState.titanSize, respond, respondWith, htake] <;> simp_all)
          · cases hdec : decodeUtf8 (List.take i (s.buffer ++ data)) with
            | none =>
              (refine ⟨?_, ?_, ?_, ?_, ?_, ?_, ?_⟩ <;> simp [step, absorb, lineStep, onLine, respondFixed, envOf, sendErrModel, hasCRLF, cutCRLF, decodeUtf8E, eraseReq, alive, hph, haw, hf, hlong,
                hms, strOf, PState.titanSize, respond, respondWith, htake, hdec] <;> simp_all)
            | some url =>
              by_cases htit : titanLit.isPrefixOf url = true
              · have htit' : (['t', 'i', 't', 'a', 'n', ':', '/', '/'] : List Char).isPrefixOf url = true := htit
                cases hup : cfg.upload
                · (refine ⟨?_, ?_, ?_, ?_, ?_, ?_, ?_⟩ <;> simp [step, absorb, lineStep, onLine, respondFixed, envOf, sendErrModel, hasCRLF, cutCRLF, decodeUtf8E, eraseReq, alive, hph, haw, hf, hlong,
                    hms, strOf, PState.titanSize, respond, respondWith, htake, hdec, htit, htit', hup] <;> simp_all)
                · cases hparse : titanParse cfg.env url with
                  | none =>
                    (refine ⟨?_, ?_, ?_, ?_, ?_, ?_, ?_⟩ <;> simp [step, absorb, lineStep, onLine, respondDyn, envOf, sendErrModel, hasCRLF, cutCRLF, decodeUtf8E, eraseReq, alive, hph, haw, hf, hlong,
                      hms, PState.titanSize, respondWith, htake, hdec, htit, htit', hup, hparse] <;> simp_all)
                  | some n =>
                    by_cases hn0 : n = 0
                    · cases hmw : cfg.mw <;> cases peer <;>
                      (refine ⟨?_, ?_, ?_, ?_, ?_, ?_, ?_⟩ <;> simp [step, absorb, lineStep, onLine, dispatchT, startUpload, envOf, hasCRLF, cutCRLF, decodeUtf8E, eraseReq, alive, hph, haw, hf, hlong,
                        hms, PState.titanSize, PState.isDelete, PState.cancelTimer, PState.noteCert, htake, hdec, htit, htit', hup, hparse, hn0, hmw, hth, hct] <;> simp_all)
                    · by_cases hgot : n ≤ s.buffer.length + data.length - (i + 2)
                      · cases hmw : cfg.mw <;> cases peer <;>
                        (refine ⟨?_, ?_, ?_, ?_, ?_, ?_, ?_⟩ <;> simp [step, absorb, lineStep, onLine, dispatchT, startUpload, envOf, hasCRLF, cutCRLF, decodeUtf8E, eraseReq, alive, hph, haw, hf, hlong,
                          hms, PState.titanSize, PState.isDelete, PState.cancelTimer, PState.noteCert, PState.setContent, htake, hdec, htit, htit', hup, hparse, hn0,
                          hgot, hmw, hth, hct] <;> simp_all)
                      · cases peer <;>
                        (refine ⟨?_, ?_, ?_, ?_, ?_, ?_, ?_⟩ <;> simp [step, absorb, lineStep, onLine, envOf, hasCRLF, cutCRLF, decodeUtf8E, eraseReq, alive, hph, haw, hf, hlong,
                          hms, PState.titanSize, PState.isDelete, PState.noteCert, htake, hdec, htit, htit', hup, hparse, hn0, hgot, hth, hct] <;> simp_all)
              · have htit2 : titanLit.isPrefixOf url = false := by cases hh : titanLit.isPrefixOf url <;> simp_all
                have htit' : (['t', 'i', 't', 'a', 'n', ':', '/', '/'] : List Char).isPrefixOf url = false := htit2
                by_cases hok : geminiOk cfg.env url = true
                · cases hmw : cfg.mw
                  · cases hh : cfg.handler <;>
                    (refine ⟨?_, ?_, ?_, ?_, ?_, ?_, ?_⟩ <;> simp [step, absorb, lineStep, onLine, dispatchG, route, respondDyn, envOf, hasCRLF, cutCRLF, decodeUtf8E, eraseReq, alive, hph, haw, hf, hlong,
                      hms, PState.titanSize, PState.cancelTimer, respond, respondWith, htake, hdec, htit2, htit', hok, hmw, hth, hh] <;> simp_all)
                  · (refine ⟨?_, ?_, ?_, ?_, ?_, ?_, ?_⟩ <;> simp [step, absorb, lineStep, onLine, dispatchG, envOf, hasCRLF, cutCRLF, decodeUtf8E, eraseReq, alive, hph, haw, hf, hlong,
                      hms, PState.titanSize, PState.cancelTimer, htake, hdec, htit2, htit', hok, hmw, hth] <;> simp_all)
                · (refine ⟨?_, ?_, ?_, ?_, ?_, ?_, ?_⟩ <;> simp [step, absorb, lineStep, onLine, respondDyn, envOf, hasCRLF, cutCRLF, decodeUtf8E, eraseReq, alive, hph, haw, hf, hlong,
                    hms, PState.titanSize, PState.cancelTimer, respondWith, htake, hdec, htit2, htit', hok, hth] <;> simp_all)


/-! the model's `data` step never reads the ghost `req`: every piece of it commutes with erasing it -/
theorem erase_respondWith (s : St) (o : List Out) : eraseReq (respondWith s o) = respondWith (eraseReq s) o := by
  unfold respondWith
  have h1 : (eraseReq s).lost = s.lost := rfl
  have h2 : (eraseReq s).sent = s.sent := rfl
  rw [h1, h2]
  split <;> rfl
theorem erase_respond (s : St) (r : Resp) : eraseReq (respond s r) = respond (eraseReq s) r := by
  simp only [respond]; exact erase_respondWith _ _
theorem erase_respondFixed (s : St) (c : Int) (msg : String) : eraseReq (respondFixed s c msg) = respondFixed (eraseReq s) c msg :=
  erase_respond _ _
theorem erase_respondDyn (s : St) (c : Nat) : eraseReq (respondDyn s c) = respondDyn (eraseReq s) c := erase_respondWith _ _
theorem erase_route (cfg : Cfg) (s : St) : eraseReq (route cfg s) = route cfg (eraseReq s) := by
  simp only [route]
  cases cfg.handler with
  | sync r => exact erase_respond _ _
  | syncRaise => exact erase_respondDyn _ _
  | async => rfl
theorem erase_dispatchG (cfg : Cfg) (s : St) : eraseReq (dispatchG cfg s) = dispatchG cfg (eraseReq s) := by
  simp only [dispatchG]; split
  · rfl
  · exact erase_route _ _
theorem erase_dispatchT (cfg : Cfg) (s : St) : eraseReq (dispatchT cfg s) = dispatchT cfg (eraseReq s) := by
  simp only [dispatchT]; split <;> rfl
theorem erase_onLine (cfg : Cfg) (s : St) (l r : Bytes) : eraseReq (onLine cfg (eraseReq s) l r) = eraseReq (onLine cfg s l r) := by
  simp only [onLine]
  cases decodeUtf8 l with
  | none => simp only [erase_respondFixed]; rfl
  | some line =>
    simp only
    split
    · split
      · simp only [erase_respondFixed]; rfl
      · cases titanParse cfg.env line with
        | none => simp only [erase_respondDyn]; rfl
        | some n =>
          simp only
          split
          · simp only [erase_dispatchT]; rfl
          · rfl
    · split
      · simp only [erase_dispatchG]; rfl
      · simp only [erase_respondDyn]; rfl

theorem step_data_eraseReq (cfg : Cfg) (m : St) (d : Bytes) :
    eraseReq (step cfg (eraseReq m) (.data d)) = eraseReq (step cfg m (.data d)) := by
  simp only [step]
  have e1 : (eraseReq m).lost = m.lost := rfl
  have e2 : (eraseReq m).phase = m.phase := rfl
  have e3 : (eraseReq m).sent = m.sent := rfl
  have e4 : (eraseReq m).buf = m.buf := rfl
  rw [e1, e2, e3, e4]
  split
  · rfl
  · cases m.phase
    case awaitLine =>
      simp only
      split
      · rfl
      · simp only [lineStep]
        cases findCRLF (m.buf ++ d) with
        | none =>
          simp only
          split
          · simp only [tooLong, erase_respondFixed]; rfl
          · rfl
        | some i =>
          simp only
          split
          · simp only [tooLong, erase_respondFixed]; rfl
          · have : ({ eraseReq m with buf := m.buf ++ d } : St) = eraseReq { m with buf := m.buf ++ d } := rfl
            rw [this]; exact erase_onLine cfg _ _ _
    case awaitTitan =>
      simp only [titanStep]
      have e5 : (eraseReq m).size = m.size := rfl
      rw [e5]
      split
      · simp only [erase_dispatchT]; rfl
      · rfl
    all_goals rfl

/-- the protocol's attributes after a sequence of reads -/
def feed (cfg : Cfg) (peer : Bool) (s : PState) (chunks : List Bytes) : PState :=
  chunks.foldl (fun s d => (dataReceived (envOf cfg peer) s d).1) s


theorem feedAll_erase_congr (cfg : Cfg) (ds : List Bytes) (a b : St) (h : eraseReq a = eraseReq b) :
    eraseReq (feedAll cfg a ds) = eraseReq (feedAll cfg b ds) := by
  induction ds generalizing a b with
  | nil => simpa [feedAll] using h
  | cons d ds ih =>
    simp only [feedAll, List.foldl_cons]
    apply ih
    rw [← step_data_eraseReq cfg a d, ← step_data_eraseReq cfg b d, h]

theorem rel_init : Rel ({} : PState) := by
  constructor <;> simp

/-- every sequence of reads: the translated `data_received`, called once per read, ends where the model's `step` does -/
theorem reads_refine (cfg : Cfg) (peer : Bool) (chunks : List Bytes) (s : PState) (h : Rel s) :
    eraseReq (absorb (feed cfg peer s chunks)) = eraseReq (feedAll cfg (absorb s) chunks) ∧ Rel (feed cfg peer s chunks) := by
  induction chunks generalizing s with
  | nil => exact ⟨by simp [feed, feedAll], by simpa [feed] using h⟩
  | cons d ds ih =>
    have h1 := data_received_refines cfg peer s d h
    have h2 := data_received_rel cfg peer s d h
    obtain ⟨i1, i2⟩ := ih _ h2
    refine ⟨?_, by simpa [feed] using i2⟩
    have : feed cfg peer s (d :: ds) = feed cfg peer (dataReceived (envOf cfg peer) s d).1 ds := by simp [feed]
    rw [this, i1]
    have : feedAll cfg (absorb s) (d :: ds) = feedAll cfg (step cfg (absorb s) (.data d)) ds := by simp [feedAll]
    rw [this]
    exact feedAll_erase_congr cfg ds _ _ h1

/-- from a fresh connection -/
theorem reads_refine_init (cfg : Cfg) (peer : Bool) (chunks : List Bytes) :
    eraseReq (absorb (feed cfg peer {} chunks)) = eraseReq (feedAll cfg {} chunks) := by
  have := (reads_refine cfg peer chunks {} rel_init).1
  have h0 : absorb ({} : PState) = ({} : St) := by simp [absorb, PState.titanSize]
  rw [h0] at this; exact this

/-- C07 on the translated code: how the bytes of a connection are split into reads is unobservable — output trace,
    handler / upload / middleware invocation counts, uploaded content and phase are those of a single read -/
theorem tr_seg_indep (cfg : Cfg) (peer : Bool) (c : Bytes) (cs : List Bytes) :
    let a := absorb (feed cfg peer {} (c :: cs))
    let b := absorb (feed cfg peer {} [c ++ cs.flatten])
    a.out = b.out ∧ a.hcalls = b.hcalls ∧ a.ucalls = b.ucalls ∧ a.mwcalls = b.mwcalls ∧ a.content = b.content ∧ a.phase = b.phase := by
  intro a b
  have ha := reads_refine_init cfg peer (c :: cs)
  have hb := reads_refine_init cfg peer [c ++ cs.flatten]
  have hm := Srv.seg_indep_observables cfg c cs
  simp only [feedAll, List.foldl_cons, List.foldl_nil] at hb hm
  have pa : ∀ {x y : St}, eraseReq x = eraseReq y → x.out = y.out ∧ x.hcalls = y.hcalls ∧ x.ucalls = y.ucalls ∧ x.mwcalls = y.mwcalls ∧
      x.content = y.content ∧ x.phase = y.phase := by
    intro x y e
    have h1 : (eraseReq x).out = (eraseReq y).out := by rw [e]
    have h2 : (eraseReq x).hcalls = (eraseReq y).hcalls := by rw [e]
    have h3 : (eraseReq x).ucalls = (eraseReq y).ucalls := by rw [e]
    have h4 : (eraseReq x).mwcalls = (eraseReq y).mwcalls := by rw [e]
    have h5 : (eraseReq x).content = (eraseReq y).content := by rw [e]
    have h6 : (eraseReq x).phase = (eraseReq y).phase := by rw [e]
    exact ⟨h1, h2, h3, h4, h5, h6⟩
  obtain ⟨a1, a2, a3, a4, a5, a6⟩ := pa ha
  obtain ⟨b1, b2, b3, b4, b5, b6⟩ := pa hb
  obtain ⟨m1, m2, m3, m4, m5, m6⟩ := hm
  simp only [feedAll, List.foldl_cons] at a1 a2 a3 a4 a5 a6
  exact ⟨a1.trans (m1.trans b1.symm), a2.trans (m2.trans b2.symm), a3.trans (m3.trans b3.symm), a4.trans (m4.trans b4.symm),
    a5.trans (m5.trans b5.symm), a6.trans (m6.trans b6.symm)⟩

end NauyacaVerif.Translated
