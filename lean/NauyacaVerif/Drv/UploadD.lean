import NauyacaVerif.Drv.Common
import NauyacaVerif.Fs.UploadTree
import NauyacaVerif.Fs.UploadReq
namespace NauyacaVerif.Drv.UploadD
open NauyacaVerif.Drv Fs

/-! Line protocol of M-Upload (TAB separated):

    upload <mode> <tree> <cfg> <line-cps> <content-hex> <fault>   → ok <status> <effects>

  mode    ::= direct | proto        direct: the handler is called with the parsed request (a line
                                    `from_line` rejects gives `badline`); proto: through the
                                    protocol's content slicing (`pending` = not dispatched)
  tree    ::= entries separated by ';' : f:<path>:<id> | d:<path> | l:<path>:<target>   (as `static`);
              the upload directory is `uploads` directly under the tree's root
  cfg     ::= <max>;<types>;<tokens>;<delete 0|1>;<tag>      types/tokens ::= N | E | cps|cps|…
  fault   ::= - | mkdir:<n> | open | write:<k> | rename | unlink
  effects ::= - | e;e;…   e ::= mk:<path> | wt:<path>:<hex>:<ok> | rn:<src>:<dst>:<ok> | ul:<path>:<ok> | rd:<path>
              (paths as the code points of the slash-joined components) -/

def comps (s : String) : Path := if s == "" then [] else s.splitOn "/"

def parseTree (s : String) : Tree :=
  (s.splitOn ";").filterMap (fun e =>
    match e.splitOn ":" with
    | ["f", p, id] => some (comps p, Node.file id.toNat!)
    | ["d", p] => some (comps p, Node.dir)
    | ["l", p, tgt] => some (comps p, Node.link tgt)
    | _ => none)

def strOfCps (s : String) : String := String.ofList (cpsChars s)

def parseList (s : String) : Option (List String) :=
  if s == "N" then none else if s == "E" then some [] else some ((s.splitOn "|").map strOfCps)

def parseCfg (s : String) : Option UCfg :=
  match s.splitOn ";" with
  | [mx, types, tokens, del, tag] =>
    some { dir := ["uploads"], maxSize := mx.toNat!, allowedTypes := parseList types,
           tokens := (parseList tokens).getD [], enableDelete := del == "1", tag := tag }
  | _ => none

def parseFault (s : String) : Option Faults :=
  match s.splitOn ":" with
  | ["-"] => some {}
  | ["mkdir", n] => some { mkdirFailAt := some n.toNat! }
  | ["open"] => some { openOk := false }
  | ["write", k] => some { writeFailAfter := some k.toNat! }
  | ["rename"] => some { renameOk := false }
  | ["unlink"] => some { unlinkOk := false }
  | _ => none

def asciiEnv : Url.Env :=
  { ipLiteralOk := fun _ => true, nfkcOk := fun _ => true, lowerU := fun s => s.map Url.lowerAscii }

def showPath (p : Path) : String := showCps ("/".intercalate p).toList

def showEffect : Effect → String
  | .mkdir p => s!"mk:{showPath p}"
  | .writeTemp p b ok => s!"wt:{showPath p}:{toHex b}:{if ok then 1 else 0}"
  | .rename a b ok => s!"rn:{showPath a}:{showPath b}:{if ok then 1 else 0}"
  | .unlink p ok => s!"ul:{showPath p}:{if ok then 1 else 0}"
  | .rmdir p => s!"rd:{showPath p}"

def showStatus : UStatus → String
  | .s20 => "20" | .s40 => "40" | .s50 => "50" | .s51 => "51" | .s59 => "59" | .s60 => "60" | .raised => "raised"

def showRes (r : UStatus × List Effect) : String :=
  s!"ok {showStatus r.1} " ++ (if r.2.isEmpty then "-" else ";".intercalate (r.2.map showEffect))

def handle : List String → Option String
  | ["upload", mode, ts, cs, line, content, fault] =>
    match parseCfg cs, parseFault fault with
    | some c, some f =>
      let tr := parseTree ts
      let os : UOS := treeUOS tr
      let l := cpsChars line
      let b := unhexS content
      if mode == "direct" then
        match parseTitan asciiEnv l with
        | none => some "ok badline -"
        | some t => some (showRes (handleUpload os c f (toReq t b)))
      else if mode == "proto" then
        match protoUpload asciiEnv os c f l b with
        | none => some "ok pending -"
        | some r => some (showRes r)
      else some "bad-op"
    | _, _ => some "bad-op"
  | _ => none
end NauyacaVerif.Drv.UploadD
