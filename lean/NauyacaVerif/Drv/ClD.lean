import NauyacaVerif.Drv.Common
import NauyacaVerif.Cl.Redirect
import NauyacaVerif.Cl.Client
namespace NauyacaVerif.Drv.ClD
open NauyacaVerif.Drv Cl

/-- graph entry: `<url-cps>=f:<status>` | `<url-cps>=r:<status>:<target-cps>` | `<url-cps>=e` -/
def parseEntry (s : String) : Option (Url × Option Resp) :=
  match s.splitOn "=" with
  | [u, v] =>
    match v.splitOn ":" with
    | ["f", st] => some (cpsChars u, some (.final st.toNat!))
    | ["r", st, t] => some (cpsChars u, some (.redirect st.toNat! (cpsChars t)))
    | ["e"] => some (cpsChars u, none)
    | _ => none
  | _ => none

def showResult : Result → String
  | .ok (.final s) => s!"final:{s}"
  | .ok (.redirect s t) => s!"redirect:{s}:{showCps t}"
  | .loop => "loop" | .tooMany => "toomany" | .missing => "missing" | .fetchErr => "fetcherr"

/-- `follow <max> <start-cps> <entry>*` ; a URL not in the graph raises (fetch = none) -/
def handle : List String → Option String
  | "follow" :: mx :: start :: entries =>
    match entries.mapM parseEntry with
    | some g =>
      let fetch : Url → Option Resp := fun u => match g.find? (·.1 == u) with | some (_, r) => r | none => none
      let (r, conns) := get fetch mx.toNat! (cpsChars start)
      some s!"ok {showResult r} [{" ".intercalate (conns.map showCps)}]"
    | none => some "bad-op"
  | _ => none
end NauyacaVerif.Drv.ClD
