import NauyacaVerif.Gen.Fn.UpstreamUrl
import NauyacaVerif.Url.Proxy

/-! Translated function = hand-written model.  `Gen/Fn/UpstreamUrl.lean` is produced on every run by `harness/translate.py` from the Python
AST of the CURRENT source tree; the theorems here prove the generated definition equal to the hand-written model the property theorems
are about.  An edit that changes what the function computes changes the generated definition and breaks the theorem; an edit that
leaves the translator's subset removes the definition and the theorem no longer elaborates.  One file per function, so that a change to
one function touches only the properties that rest on it. -/
namespace NauyacaVerif.Translated
open NauyacaVerif.Gen

/-- `ProxyHandler._handle_async` up to the upstream URL (translated) is the model's
    `upstream ++ mapPath … path ++ ("?" ++ query if query)` -/
theorem upstreamUrl_eq (strip : Bool) (pre up path query : List Char) :
    Fn.upstreamUrl strip pre up path query = up ++ Url.mapPathRaw pre strip path ++ (if query.isEmpty then [] else '?' :: query) := by
  have hpre : ∀ l : List Char, (['/'] : List Char).isPrefixOf l = (l.head? == some '/') := by
    intro l
    cases l with
    | nil => rfl
    | cons a t =>
      by_cases h : a = '/'
      · subst h; simp [List.isPrefixOf]
      · have h' : ¬ '/' = a := fun hh => h hh.symm
        have e1 : ('/' == a) = false := by simpa using h'
        have e2 : (a == '/') = false := by simpa using h
        simp [List.isPrefixOf, e1, e2]
  have hsuf : (['/'] : List Char).isSuffixOf pre = (pre.getLast? == some '/') := by
    rw [← List.head?_reverse]
    exact hpre pre.reverse
  simp only [Fn.upstreamUrl, Url.mapPathRaw, Url.mapPath, hsuf, hpre]
  by_cases h1 : (strip && pre.isPrefixOf path) = true
  · simp only [h1, ↓reduceIte]
    by_cases h2 : ((pre.getLast? == some '/') || (path.drop pre.length == []) || ((path.drop pre.length).head? == some '/')) = true
    · have h2' : (pre.getLast? = some '/' || (path.drop pre.length).isEmpty || (path.drop pre.length).head? = some '/') = true := by
        simpa [List.isEmpty_iff] using h2
      simp only [h2, h2', ↓reduceIte]
      by_cases h3 : ((path.drop pre.length).head? == some '/') = true
      · have h3' : (path.drop pre.length).head? = some '/' := by simpa using h3
        simp only [h3, h3', Bool.not_true, Bool.false_eq_true, ↓reduceIte]
        by_cases hq : query.isEmpty = true <;> simp [hq, List.append_assoc]
      · have h3' : ¬ (path.drop pre.length).head? = some '/' := by simpa using h3
        simp only [h3, h3', Bool.not_false, ↓reduceIte]
        by_cases hq : query.isEmpty = true <;> simp [hq, List.append_assoc]
    · have h2' : ¬ (pre.getLast? = some '/' || (path.drop pre.length).isEmpty || (path.drop pre.length).head? = some '/') = true := by
        simpa [List.isEmpty_iff] using h2
      simp only [h2, h2', Bool.false_eq_true, ↓reduceIte]
      by_cases hq : query.isEmpty = true <;> simp [hq, List.append_assoc]
  · simp only [h1, Bool.false_eq_true, ↓reduceIte]
    by_cases hq : query.isEmpty = true <;> simp [hq, List.append_assoc]

end NauyacaVerif.Translated
