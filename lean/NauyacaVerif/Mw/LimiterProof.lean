import NauyacaVerif.Mw.BucketProof
namespace Mw

theorem find_set_self (s : Store) (ip : Ip) (b : Bucket) : (s.set ip b).find ip = some b := by
  simp [Store.set, Store.find]

theorem find_filter_ne (s : Store) (ip ip' : Ip) (h : ip ≠ ip') :
    Store.find (s.filter (·.1 != ip)) ip' = Store.find s ip' := by
  induction s with
  | nil => rfl
  | cons p ps ih =>
    simp only [Store.find] at ih ⊢
    by_cases h1 : p.1 = ip
    · have : (p.1 != ip) = false := by simp [h1]
      have h2 : (p.1 == ip') = false := by rw [h1]; simpa [beq_eq_false_iff_ne] using h
      simp only [List.filter_cons, this, Bool.false_eq_true, ↓reduceIte, List.find?_cons, h2]
      exact ih
    · have : (p.1 != ip) = true := by simp [h1]
      simp only [List.filter_cons, this, ↓reduceIte, List.find?_cons]
      cases hq : (p.1 == ip')
      · simpa using ih
      · rfl

theorem find_set_other (s : Store) (ip ip' : Ip) (b : Bucket) (h : ip ≠ ip') :
    (s.set ip b).find ip' = s.find ip' := by
  have hne : (ip == ip') = false := by simpa [beq_eq_false_iff_ne] using h
  simp only [Store.set, Store.find, List.find?_cons, hne]
  exact find_filter_ne s ip ip' h

/-- C10 non-interference: a request from one address leaves every other address's allowance alone -/
theorem request_eff_other (c : LCfg) (s : Store) (ip ip' : Ip) (now t : Rat) (h : ip ≠ ip') :
    eff c (request c s ip now).1 ip' t = eff c s ip' t := by
  unfold request
  simp only [eff]
  rw [find_set_other _ _ _ _ h]

/-- the decision is a function of the allowance alone; admitting costs exactly one token -/
theorem request_decision (c : LCfg) (s : Store) (ip : Ip) (now : Rat) :
    (request c s ip now).2 = decide (eff c s ip now ≥ 1) := by
  unfold request eff consume
  cases hf : s.find ip with
  | none =>
    simp only [Option.getD_none, Bucket.level, sub_self, zero_mul, add_zero, min_self]
    by_cases h : c.cap ≥ 1 <;> simp [h]
  | some b =>
    simp only [Option.getD_some]
    by_cases h : b.level c now ≥ 1 <;> simp [h]

theorem level_getD (c : LCfg) (s : Store) (ip : Ip) (now : Rat) :
    ((s.find ip).getD { tokens := c.cap, last := now }).level c now = eff c s ip now := by
  unfold eff
  cases hf : s.find ip with
  | none => simp [Bucket.level]
  | some b => simp

theorem eff_le_cap (c : LCfg) (s : Store) (ip : Ip) (t : Rat) : eff c s ip t ≤ c.cap := by
  unfold eff; cases s.find ip with
  | none => exact le_refl _
  | some b => exact level_le_cap c b t

theorem request_eff_self (c : LCfg) (s : Store) (ip : Ip) (now : Rat) :
    eff c (request c s ip now).1 ip now =
      (if eff c s ip now ≥ 1 then eff c s ip now - 1 else eff c s ip now) := by
  have hle := eff_le_cap c s ip now
  have hl := level_getD c s ip now
  generalize eff c s ip now = e at hle hl ⊢
  unfold request
  simp only [eff, find_set_self]
  unfold consume
  simp only [hl]
  by_cases h : e ≥ 1
  · simp only [h, ↓reduceIte, Bucket.level, sub_self, zero_mul, add_zero]
    exact min_eq_right (by linarith)
  · simp only [h, ↓reduceIte, Bucket.level, sub_self, zero_mul, add_zero]
    exact min_eq_right hle
end Mw
