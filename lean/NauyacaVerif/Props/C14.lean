import NauyacaVerif.Fs.UploadProof
import NauyacaVerif.Fs.UploadTree

/-! # C14  Titan uploads change only the authorised target, exactly as sent

Model: `Fs.handleUpload` (`Fs/Upload.lean`) mirrors `FileUploadHandler.handle_upload /
_handle_delete / _is_safe_path`: the response status and the list of filesystem effects
(`mkdir p | writeTemp p bytes ok | rename src dst ok | unlink p ok | rmdir p`).  The filesystem is
the abstract `UOS` (`resolve` = `Path.resolve()`, `kind` = what `stat` sees, `lexists` = what
`lstat` sees) — every theorem holds for EVERY such OS, every configuration, every request and
every combination of injected storage faults (`Faults`: the n-th directory creation fails,
creating the temporary file fails, the write fails after k bytes, the rename fails, the unlink
fails).  `Files` is the map from paths to the bytes of the regular file there;
`applyAll` replays an effect list on it.

Assumed, not proved (hence level "partial"): the kernel's side of the contract — an operation on a
fully resolved path whose parent chain consists of real directories touches that path only, and
`resolve` is what the kernel would follow.  The executable symlink-tree instance of `OS` is tied
to the real filesystem by the correspondence run only. -/

namespace NauyacaVerif.C14
open Fs

/-- the effects an upload or delete whose path resolves to `t` may have: remove `t` (delete), or —
    only when `t` is not the upload directory itself — create (and, on failure, remove again)
    missing ancestors of `t` below the upload directory, write the sibling temporary file, rename
    it onto `t`, remove it -/
def Allowed (c : UCfg) (t : Path) (e : Effect) : Prop :=
  (∃ ok, e = .unlink t ok) ∨
  (t ≠ c.dir ∧
    ((∃ q, (e = .mkdir (c.dir ++ q) ∨ e = .rmdir (c.dir ++ q)) ∧ q ≠ [] ∧ c.dir ++ q <+: t.dropLast) ∨
     (∃ b ok, e = .writeTemp (tempPath c t) b ok) ∨
     (∃ ok, e = .rename (tempPath c t) t ok) ∨
     (∃ ok, e = .unlink (tempPath c t) ok)))

/-- every effect concerns the one target the path resolves to, and that target lies inside the
    upload directory -/
theorem upload_effects (os : UOS) (c : UCfg) (f : Faults) (r : UReq) :
    ∀ e ∈ (handleUpload os c f r).2,
      ∃ t, os.resolve (c.dir ++ r.comps) = some t ∧ os.realpath t = some t ∧ inside c.dir t = true ∧ Allowed c t e := by
  intro e he
  rcases handleUpload_cases os c f r with ⟨h, _⟩ | ⟨t, _, _, _, hres, heq⟩ | ⟨t, _, _, hres, hsafe, hne, heq⟩
  · rw [h] at he; simp at he
  · rw [heq] at he
    rcases deleteAt_cases os c f t with ⟨h, _⟩ | ⟨hsafe, _, h | h⟩
    · rw [h] at he; simp at he
    · rw [h] at he; simp at he; exact ⟨t, hres, safePath_fix hsafe, safePath_inside hsafe, Or.inl ⟨true, he⟩⟩
    · rw [h] at he; simp at he; exact ⟨t, hres, safePath_fix hsafe, safePath_inside hsafe, Or.inl ⟨false, he⟩⟩
  · rw [heq] at he
    have hin := safePath_inside hsafe
    refine ⟨t, hres, safePath_fix hsafe, hin, Or.inr ⟨hne, ?_⟩⟩
    have hpath : ∀ p ∈ (mkParents os c f t).2, ∃ q, p = c.dir ++ q ∧ q ≠ [] ∧ c.dir ++ q <+: t.dropLast := by
      intro p hp
      obtain ⟨q, rfl, hq1, hq2⟩ := mkdirWalk_shape os.toOS c f _ _ _ p hp
      refine ⟨q, rfl, hq1, ?_⟩
      have hpre : c.dir <+: t.dropLast := by
        simpa [inside, List.isPrefixOf_iff_prefix] using inside_dropLast hin hne
      have e1 : c.dir ++ t.dropLast.drop c.dir.length = t.dropLast := List.prefix_iff_eq_append.mp hpre
      rw [← e1]
      exact (List.prefix_append_right_inj _).mpr hq2
    have hmk : ∀ e ∈ made os c f t, ∃ q, (e = .mkdir (c.dir ++ q) ∨ e = .rmdir (c.dir ++ q)) ∧ q ≠ [] ∧ c.dir ++ q <+: t.dropLast := by
      intro e he
      simp only [made, List.mem_map] at he
      obtain ⟨p, hp, rfl⟩ := he
      obtain ⟨q, rfl, h1, h2⟩ := hpath p hp
      exact ⟨q, Or.inl rfl, h1, h2⟩
    have hun : ∀ e ∈ undo os c f t, ∃ q, (e = .mkdir (c.dir ++ q) ∨ e = .rmdir (c.dir ++ q)) ∧ q ≠ [] ∧ c.dir ++ q <+: t.dropLast := by
      intro e he
      simp only [undo, List.mem_map, List.mem_reverse] at he
      obtain ⟨p, hp, rfl⟩ := he
      obtain ⟨q, rfl, h1, h2⟩ := hpath p hp
      exact ⟨q, Or.inr rfl, h1, h2⟩
    rcases store_cases os c f t (r.content.take r.size) with h | h | ⟨k, h, _⟩ | ⟨h, _⟩ | ⟨h, _⟩
    · rw [h] at he; simp at he
    · rw [h] at he
      simp only [List.mem_append] at he
      rcases he with he | he
      · exact Or.inl (hmk e he)
      · exact Or.inl (hun e he)
    · rw [h] at he
      simp only [List.mem_append, List.mem_cons, List.not_mem_nil, or_false] at he
      rcases he with (he | rfl | rfl) | he
      · exact Or.inl (hmk e he)
      · exact Or.inr (Or.inl ⟨_, _, rfl⟩)
      · exact Or.inr (Or.inr (Or.inr ⟨_, rfl⟩))
      · exact Or.inl (hun e he)
    · rw [h] at he
      simp only [List.mem_append, List.mem_cons, List.not_mem_nil, or_false] at he
      rcases he with (he | rfl | rfl | rfl) | he
      · exact Or.inl (hmk e he)
      · exact Or.inr (Or.inl ⟨_, _, rfl⟩)
      · exact Or.inr (Or.inr (Or.inl ⟨_, rfl⟩))
      · exact Or.inr (Or.inr (Or.inr ⟨_, rfl⟩))
      · exact Or.inl (hun e he)
    · rw [h] at he
      simp only [List.mem_append, List.mem_cons, List.not_mem_nil, or_false] at he
      rcases he with he | rfl | rfl
      · exact Or.inl (hmk e he)
      · exact Or.inr (Or.inl ⟨_, _, rfl⟩)
      · exact Or.inr (Or.inr (Or.inl ⟨_, rfl⟩))

/-- the target is a fixpoint of `realpath` because the handler CHECKS it (`_is_safe_path`), not
    because `resolve` is assumed to return fully resolved paths: whatever `Path.resolve()` returns,
    nothing is touched unless `os.path.realpath` maps the target to itself -/
theorem upload_target_canonical (os : UOS) (c : UCfg) (f : Faults) (r : UReq)
    (e : Effect) (he : e ∈ (handleUpload os c f r).2) :
    ∃ t, os.realpath t = some t ∧ inside c.dir t = true ∧ Allowed c t e := by
  obtain ⟨t, _, h1, h2, h3⟩ := upload_effects os c f r e he
  exact ⟨t, h1, h2, h3⟩

/-- in the symlink-tree instance the checked fixpoint means what it should: the target of every
    effect has no symlink among its prefixes, and the kernel-style walk of it ends at the target
    itself — the write cannot be led elsewhere.  (Side condition: `realpath` met no loop on the
    target; if it did, the kernel walk of the target fails with ELOOP and nothing is reachable.) -/
theorem tree_target_resolved (tr : Tree) (c : UCfg) (f : Faults) (r : UReq)
    (e : Effect) (he : e ∈ (handleUpload (treeUOS tr) c f r).2) :
    ∃ t, inside c.dir t = true ∧ Allowed c t e ∧
      ((realpath tr t).2 = true → LinkFree tr t ∧ ∀ q n, kstat tr t = some (q, n) → q = t) := by
  obtain ⟨t, h1, h2, h3⟩ := upload_target_canonical (treeUOS tr) c f r e he
  refine ⟨t, h2, h3, fun hok => ?_⟩
  have hlf := treeUOS_fix_linkFree tr t h1 hok
  exact ⟨hlf, fun q n hk => (kstat_linkFree tr t q n hlf hk).1⟩

/-- every path any effect touches lies inside the upload directory (component-wise prefix: a
    sibling such as `uploads-evil` is outside) -/
theorem upload_confined (os : UOS) (c : UCfg) (f : Faults) (r : UReq) :
    ∀ e ∈ (handleUpload os c f r).2, ∀ p ∈ e.paths, inside c.dir p = true := by
  intro e he p hp
  obtain ⟨t, _, _, hin, ha⟩ := upload_effects os c f r e he
  rcases ha with ⟨ok, rfl⟩ | ⟨hne, ha⟩
  · simp [Effect.paths] at hp; subst hp; exact hin
  · have htp := inside_tempPath hin hne
    rcases ha with ⟨q, rfl | rfl, _, _⟩ | ⟨b, ok, rfl⟩ | ⟨ok, rfl⟩ | ⟨ok, rfl⟩
    · simp [Effect.paths] at hp; subst hp
      simp [inside, List.isPrefixOf_iff_prefix]
    · simp [Effect.paths] at hp; subst hp
      simp [inside, List.isPrefixOf_iff_prefix]
    · simp [Effect.paths] at hp; subst hp; exact htp
    · simp [Effect.paths] at hp; rcases hp with rfl | rfl <;> assumption
    · simp [Effect.paths] at hp; subst hp; exact htp

/-- what a completed write put into the file is exactly the declared number of bytes that
    followed the request line (never the whole buffer) -/
theorem upload_content (os : UOS) (c : UCfg) (f : Faults) (r : UReq) (p : Path) (b : Bytes)
    (h : Effect.writeTemp p b true ∈ (handleUpload os c f r).2) : b = r.content.take r.size := by
  rcases handleUpload_cases os c f r with ⟨h0, _⟩ | ⟨t, _, _, _, _, heq⟩ | ⟨t, _, _, _, _, _, heq⟩
  · rw [h0] at h; simp at h
  · rw [heq] at h
    rcases deleteAt_cases os c f t with ⟨h0, _⟩ | ⟨_, _, h0 | h0⟩ <;> rw [h0] at h <;> simp at h
  · rw [heq] at h
    have hmk : Effect.writeTemp p b true ∉ made os c f t := by
      intro hm; have := made_dirOps os c f t _ hm; simp [Effect.isDirOp] at this
    have hun : Effect.writeTemp p b true ∉ undo os c f t := by
      intro hm; have := undo_dirOps os c f t _ hm; simp [Effect.isDirOp] at this
    rcases store_cases os c f t (r.content.take r.size) with h0 | h0 | ⟨k, h0, _⟩ | ⟨h0, _⟩ | ⟨h0, _⟩ <;> rw [h0] at h
    · simp at h
    · simp only [List.mem_append] at h
      rcases h with h | h
      · exact absurd h hmk
      · exact absurd h hun
    · simp only [List.mem_append, List.mem_cons, List.not_mem_nil, or_false] at h
      rcases h with (h | h | h) | h
      · exact absurd h hmk
      · simp at h
      · cases h
      · exact absurd h hun
    · simp only [List.mem_append, List.mem_cons, List.not_mem_nil, or_false] at h
      rcases h with (h | h | h | h) | h
      · exact absurd h hmk
      · simp at h; exact h.2
      · cases h
      · cases h
      · exact absurd h hun
    · simp only [List.mem_append, List.mem_cons, List.not_mem_nil, or_false] at h
      rcases h with h | h | h
      · exact absurd h hmk
      · simp at h; exact h.2
      · cases h

/-- anything at all happens to the filesystem only for a request that passed every guard: valid
    token (when tokens are configured; an empty token never counts), size within the limit,
    media type allowed and, for zero-byte requests, deletion enabled -/
theorem upload_guarded (os : UOS) (c : UCfg) (f : Faults) (r : UReq) (h : (handleUpload os c f r).2 ≠ []) :
    authOk c r = true ∧ r.size ≤ c.maxSize ∧ typeOk c r = true ∧ (r.size = 0 → c.enableDelete = true) := by
  rcases handleUpload_cases os c f r with ⟨h0, _⟩ | ⟨t, hg, _, hd, _, _⟩ | ⟨t, hg, hs, _, _, _, _⟩
  · exact absurd h0 h
  · exact ⟨hg.1, hg.2.1, hg.2.2, fun _ => hd⟩
  · exact ⟨hg.1, hg.2.1, hg.2.2, fun h0 => absurd h0 hs⟩

/-- … and the same guards stand behind every success response -/
theorem success_guarded (os : UOS) (c : UCfg) (f : Faults) (r : UReq) (h : (handleUpload os c f r).1 = .s20) :
    authOk c r = true ∧ r.size ≤ c.maxSize ∧ typeOk c r = true ∧ (r.size = 0 → c.enableDelete = true) := by
  rcases handleUpload_cases os c f r with ⟨_, h0⟩ | ⟨t, hg, _, hd, _, _⟩ | ⟨t, hg, hs, _, _, _, _⟩
  · exact absurd h h0
  · exact ⟨hg.1, hg.2.1, hg.2.2, fun _ => hd⟩
  · exact ⟨hg.1, hg.2.1, hg.2.2, fun h0 => absurd h0 hs⟩

/-- the file map describes the same filesystem as the OS: a path that holds a file has an entry -/
def Consistent (os : UOS) (fs : Files) : Prop := ∀ p b, fs.get p = some b → os.lexists p = true

theorem temp_free {os : UOS} {fs : Files} (hc : Consistent os fs) {p : Path} (h : os.lexists p = false) : fs.get p = none := by
  cases hg : fs.get p with
  | none => rfl
  | some b => rw [hc p b hg] at h; cases h

/-- every request answered with a non-success status — refused by a guard, bad path, missing
    resource, a layout that makes storing impossible (including an existing entry under the
    temporary name: it is never opened), or a storage fault at ANY point (the n-th mkdir, creating
    the temporary file, the write after k bytes, the rename, the unlink) — leaves every existing
    file byte-for-byte unchanged and creates no file -/
theorem nonsuccess_no_change (os : UOS) (c : UCfg) (f : Faults) (r : UReq) (fs : Files)
    (hc : Consistent os fs) (hfail : (handleUpload os c f r).1 ≠ .s20) :
    ∀ p, (applyAll fs (handleUpload os c f r).2).get p = fs.get p := by
  intro p
  rcases handleUpload_cases os c f r with ⟨h0, _⟩ | ⟨t, _, _, _, _, heq⟩ | ⟨t, _, _, _, _, _, heq⟩
  · rw [h0]; rfl
  · rw [heq] at hfail ⊢
    rcases deleteAt_cases os c f t with ⟨h0, _⟩ | ⟨_, _, h0 | h0⟩
    · rw [h0]; rfl
    · rw [h0] at hfail; simp at hfail
    · rw [h0]; rfl
  · rw [heq] at hfail ⊢
    have hmk := made_dirOps os c f t
    have hun := undo_dirOps os c f t
    rcases store_cases os c f t (r.content.take r.size) with h0 | h0 | ⟨k, h0, hl⟩ | ⟨h0, hl⟩ | ⟨h0, _⟩
    · rw [h0]; rfl
    · rw [h0, applyAll_append, applyAll_dirOps fs _ hmk, applyAll_dirOps fs _ hun]
    · rw [h0, applyAll_append, applyAll_append, applyAll_dirOps fs _ hmk, applyAll_dirOps _ _ hun]
      simp only [applyAll, List.foldl_cons, List.foldl_nil, applyEffect, if_true]
      exact get_del_set fs _ _ p (temp_free hc hl)
    · rw [h0, applyAll_append, applyAll_append, applyAll_dirOps fs _ hmk, applyAll_dirOps _ _ hun]
      simp only [applyAll, List.foldl_cons, List.foldl_nil, applyEffect, if_true]
      simp only [Bool.false_eq_true, if_false]
      exact get_del_set fs _ _ p (temp_free hc hl)
    · rw [h0] at hfail; simp at hfail

/-- … and no directory either: whatever was created for the attempt is removed again -/
theorem nonsuccess_no_dirs (os : UOS) (c : UCfg) (f : Faults) (r : UReq)
    (hfail : (handleUpload os c f r).1 ≠ .s20) : dirsAfter [] (handleUpload os c f r).2 = [] := by
  rcases handleUpload_cases os c f r with ⟨h0, _⟩ | ⟨t, _, _, _, _, heq⟩ | ⟨t, _, _, _, _, _, heq⟩
  · rw [h0]; rfl
  · rw [heq] at hfail ⊢
    rcases deleteAt_cases os c f t with ⟨h0, _⟩ | ⟨_, _, h0 | h0⟩
    · rw [h0]; rfl
    · rw [h0] at hfail; simp at hfail
    · rw [h0]; rfl
  · rw [heq] at hfail ⊢
    rcases store_cases os c f t (r.content.take r.size) with h0 | h0 | ⟨k, h0, _⟩ | ⟨h0, _⟩ | ⟨h0, _⟩
    · rw [h0]; rfl
    · rw [h0]
      have := dirsAfter_made_undo (mkParents os c f t).2 [] (by simp)
      simpa [made, undo] using this
    · rw [h0]
      exact dirsAfter_made_undo (mkParents os c f t).2 _ (by intro e he; simp at he; rcases he with rfl | rfl <;> rfl)
    · rw [h0]
      exact dirsAfter_made_undo (mkParents os c f t).2 _ (by intro e he; simp at he; rcases he with rfl | rfl | rfl <;> rfl)
    · rw [h0] at hfail; simp at hfail

/-- a successful upload: afterwards the target holds exactly the declared bytes and every other
    path holds what it held before -/
theorem success_upload (os : UOS) (c : UCfg) (f : Faults) (r : UReq) (fs : Files)
    (hc : Consistent os fs) (hok : (handleUpload os c f r).1 = .s20) (hsz : r.size ≠ 0) :
    ∃ t, os.resolve (c.dir ++ r.comps) = some t ∧ os.realpath t = some t ∧ inside c.dir t = true ∧ t ≠ c.dir ∧
      (applyAll fs (handleUpload os c f r).2).get t = some (r.content.take r.size) ∧
      ∀ p, p ≠ t → (applyAll fs (handleUpload os c f r).2).get p = fs.get p := by
  rcases handleUpload_cases os c f r with ⟨_, h0⟩ | ⟨t, _, hz, _, _, _⟩ | ⟨t, _, _, hres, hsafe, hne, heq⟩
  · exact absurd hok h0
  · exact absurd hz hsz
  · refine ⟨t, hres, safePath_fix hsafe, safePath_inside hsafe, hne, ?_⟩
    rw [heq] at hok ⊢
    have hmk := made_dirOps os c f t
    rcases store_cases os c f t (r.content.take r.size) with h0 | h0 | ⟨k, h0, _⟩ | ⟨h0, _⟩ | ⟨h0, hl⟩
    · rw [h0] at hok; simp at hok
    · rw [h0] at hok; simp at hok
    · rw [h0] at hok; simp at hok
    · rw [h0] at hok; simp at hok
    · have ht := temp_free hc hl
      rw [h0, applyAll_append, applyAll_dirOps fs _ hmk]
      simp only [applyAll, List.foldl_cons, List.foldl_nil, applyEffect, if_true, get_set_self]
      refine ⟨trivial, fun p hp => ?_⟩
      rw [get_set_other _ _ _ _ hp]
      by_cases hpt : p = tempPath c t
      · subst hpt; rw [get_del_self, ht]
      · rw [get_del_other _ _ _ hpt, get_set_other _ _ _ _ hpt]

/-- a successful delete: the file the path resolves to (inside the upload directory, existing) is
    gone and every other path holds what it held before -/
theorem success_delete (os : UOS) (c : UCfg) (f : Faults) (r : UReq) (fs : Files)
    (hok : (handleUpload os c f r).1 = .s20) (hsz : r.size = 0) :
    ∃ t, os.resolve (c.dir ++ r.comps) = some t ∧ os.realpath t = some t ∧ inside c.dir t = true ∧ os.kind t ≠ .missing ∧
      (applyAll fs (handleUpload os c f r).2).get t = none ∧
      ∀ p, p ≠ t → (applyAll fs (handleUpload os c f r).2).get p = fs.get p := by
  rcases handleUpload_cases os c f r with ⟨_, h0⟩ | ⟨t, _, _, _, hres, heq⟩ | ⟨t, _, hnz, _, _, _, _⟩
  · exact absurd hok h0
  · rw [heq] at hok ⊢
    rcases deleteAt_cases os c f t with ⟨_, h0⟩ | ⟨hsafe, hk, h0 | h0⟩
    · exact absurd hok h0
    · refine ⟨t, hres, safePath_fix hsafe, safePath_inside hsafe, hk, ?_⟩
      rw [h0]
      simp only [applyAll, List.foldl_cons, List.foldl_nil, applyEffect, if_true]
      exact ⟨get_del_self _ _, fun p hp => get_del_other _ _ _ hp⟩
    · rw [h0] at hok; simp at hok
  · exact absurd hsz hnz

/-! ## non-vacuity -/

def up : Path := ["uploads"]
def cfg : UCfg :=
  { dir := up
    maxSize := 8
    allowedTypes := some ["text/plain"]
    tokens := ["s3"]
    enableDelete := false
    tag := "7"
    hasNul := fun _ => false }
/-- a tiny OS: `uploads` is a directory, `uploads/a` a file, `uploads/d` a directory, the link
    `uploads/out` resolves to `/etc`, `uploads/taken/.7.upload` is some entry; nothing else exists -/
def os0 : UOS where
  resolve := fun p => if p = ["uploads", "out", "x"] then some ["etc", "x"] else some p
  kind := fun p => if p = ["uploads"] ∨ p = ["uploads", "d"] ∨ p = ["uploads", "taken"] then .dir
    else if p = ["uploads", "a"] then .file else .missing
  size := fun _ => 0
  readText := fun _ => .ioError
  listing := fun _ => none
  realpath := fun p => if p = ["uploads", "pseudo"] then some ["etc"] else some p
  lexists := fun p => p = ["uploads"] ∨ p = ["uploads", "d"] ∨ p = ["uploads", "a"] ∨ p = ["uploads", "out"] ∨
    p = ["uploads", "taken"] ∨ p = ["uploads", "taken", ".7.upload"]
def req (comps : List Name) (size : Nat) (tok : Option String) : UReq :=
  { comps := comps, size := size, mime := "text/plain", token := tok, content := [1, 2, 3, 4, 5] }

-- success: temp file written with exactly `size` bytes, renamed onto the target
example : handleUpload os0 cfg {} (req ["new", "f"] 3 (some "s3")) =
    (.s20, [.mkdir ["uploads", "new"], .writeTemp ["uploads", "new", ".7.upload"] [1, 2, 3] true,
            .rename ["uploads", "new", ".7.upload"] ["uploads", "new", "f"] true]) := by decide +kernel
example : (applyAll [(["uploads", "a"], [9])] (handleUpload os0 cfg {} (req ["a"] 3 (some "s3"))).2).get ["uploads", "a"] = some [1, 2, 3] := by
  decide +kernel
-- a write that fails after one byte leaves the existing file alone and removes what it created
example : (handleUpload os0 cfg { writeFailAfter := some 1 } (req ["a"] 3 (some "s3"))).1 = .s40 := by decide +kernel
example : (applyAll [(["uploads", "a"], [9])] (handleUpload os0 cfg { writeFailAfter := some 1 } (req ["a"] 3 (some "s3"))).2).get ["uploads", "a"] = some [9] := by
  decide +kernel
example : handleUpload os0 cfg { writeFailAfter := some 1 } (req ["n1", "n2", "f"] 3 (some "s3")) =
    (.s40, [.mkdir ["uploads", "n1"], .mkdir ["uploads", "n1", "n2"], .writeTemp ["uploads", "n1", "n2", ".7.upload"] [1] false,
            .unlink ["uploads", "n1", "n2", ".7.upload"] true, .rmdir ["uploads", "n1", "n2"], .rmdir ["uploads", "n1"]]) := by decide +kernel
example : dirsAfter [] (handleUpload os0 cfg { mkdirFailAt := some 1 } (req ["n1", "n2", "f"] 3 (some "s3"))).2 = [] := by decide +kernel
-- an entry that already carries the temporary name is never opened
example : handleUpload os0 cfg {} (req ["taken", "f"] 3 (some "s3")) = (.s40, []) := by decide +kernel
-- guards: wrong token, empty token, no token, oversize, type, delete disabled, outside link, the root itself, a directory
example : handleUpload os0 cfg {} (req ["a"] 3 (some "bad")) = (.s60, []) := by decide +kernel
example : handleUpload os0 { cfg with tokens := ["", "s3"] } {} (req ["a"] 3 (some "")) = (.s60, []) := by decide +kernel
example : handleUpload os0 cfg {} (req ["a"] 3 none) = (.s60, []) := by decide +kernel
example : handleUpload os0 cfg {} (req ["a"] 9 (some "s3")) = (.s50, []) := by decide +kernel
example : handleUpload os0 cfg {} { req ["a"] 3 (some "s3") with mime := "image/png" } = (.s59, []) := by decide +kernel
example : handleUpload os0 cfg {} (req ["a"] 0 (some "s3")) = (.s50, []) := by decide +kernel
example : handleUpload os0 cfg {} (req ["out", "x"] 3 (some "s3")) = (.s59, []) := by decide +kernel
example : handleUpload os0 cfg {} (req [] 3 (some "s3")) = (.s59, []) := by decide +kernel
-- resolve() hands back a path inside the upload directory that realpath does not confirm: refused, upload and delete
example : handleUpload os0 cfg {} (req ["pseudo"] 3 (some "s3")) = (.s59, []) := by decide +kernel
example : handleUpload os0 { cfg with enableDelete := true } {} (req ["pseudo"] 0 (some "s3")) = (.s59, []) := by decide +kernel
example : (handleUpload os0 cfg {} (req ["d"] 3 (some "s3"))).1 = .s40 := by decide +kernel
example : handleUpload os0 { cfg with enableDelete := true } {} (req ["a"] 0 (some "s3")) = (.s20, [.unlink ["uploads", "a"] true]) := by decide +kernel
example : inside ["uploads"] ["uploads-evil", "x"] = false := by decide +kernel

end NauyacaVerif.C14
