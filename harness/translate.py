"""A restricted Python-AST -> Lean translator for a few straight-line decision functions (DESIGN.md §1,
"stretch").  On every run the functions below are read from the CURRENT source tree and written, as Lean
definitions, to lean/NauyacaVerif/Gen/Fn.lean.  `Props/Translated.lean` proves each generated definition
equal to the hand-written model's, so an edit that changes what one of these functions computes changes the
generated definition and breaks that proof (or, if it leaves the supported subset, the definition is not
emitted at all and the proof does not build).

Supported subset (anything else raises Unsupported and the function is skipped):
  statements  x = e | self.f = e | self.f -= e | x += e | if c: … [else: …] | return e | return a, b
              for v in L: if c: return e              (early-return search loop)
              for v in L: a, b = await v.m(…); if not a: return False, b      (first-reject loop)
              try: x = CALL except ValueError: return e   (CALL is an opaque parameter of type Option _)
              expression statements calling logger.* (ignored); docstrings
  expressions names, self.f, self.g.f, numbers, True/False/None, "str" and f"…{x}…" (as List Char),
              + - * (numbers), + (strings), min(a, b), comparisons, and/or/not, x in n (n.contains x),
              s.startswith(t), s.endswith(t), s[len(t):], s == "", truthiness of lists/strings in conditions
"""
from __future__ import annotations

import ast
import copy
from pathlib import Path

from . import core


class Unsupported(Exception):
    pass


def lean_chars(s: str) -> str:
    return "[" + ", ".join("'" + (c if c not in "'\\" else "\\" + c) + "'" for c in s) + "]"


def lean_string(s: str) -> str:
    import json

    return json.dumps(s, ensure_ascii=False)


def lean_nats(s: str) -> str:
    return "([" + ", ".join(str(ord(c)) for c in s) + "] : List Nat)"


class Tr:
    def __init__(self, spec):
        self.spec = spec
        self.types = dict(spec.get("types", {}))     # python name -> 'num' | 'str' | 'list' | 'bool' | 'obj'
        self.rename = dict(spec.get("rename", {}))   # python dotted name -> lean expression
        self.opaque = dict(spec.get("opaque", {}))   # ast.unparse(call) -> lean expression
        self.state = spec.get("state")               # name of the lean state variable when self is mutated
        self.scope = spec.get("_scope")              # (module ast, class ast | None): where private helpers are looked up
        self.helpers = spec.setdefault("_helpers", {})   # lean name -> definition text (shared with nested translations)
        self.helper_types = spec.setdefault("_helper_types", {})

    # ---- expressions -------------------------------------------------------------------------
    def module_const(self, name: str):
        """a module-level `NAME = <str|int literal>` (assigned once, never rebound in the function): its literal"""
        if name in self.types or name in self.rename or not self.scope or name in self.spec.get("_locals", ()):
            return None
        vals = []
        for st in self.scope[0].body:
            tg = st.targets if isinstance(st, ast.Assign) else [st.target] if isinstance(st, ast.AnnAssign) and st.value is not None else []
            if any(isinstance(t, ast.Name) and t.id == name for t in tg):
                vals.append(st.value)
        if len(vals) == 1 and isinstance(vals[0], ast.Constant) and isinstance(vals[0].value, (str, int)) and not isinstance(vals[0].value, bool):
            return vals[0]
        return None

    def class_const(self, name: str):
        """a class-level `NAME = <literal>` of the class being translated"""
        if not self.scope or self.scope[1] is None:
            return None
        vals = [st.value for st in self.scope[1].body if isinstance(st, (ast.Assign, ast.AnnAssign)) and getattr(st, "value", None) is not None
                and any(isinstance(t, ast.Name) and t.id == name for t in (st.targets if isinstance(st, ast.Assign) else [st.target]))]
        return vals[0] if len(vals) == 1 and isinstance(vals[0], ast.Constant) and isinstance(vals[0].value, (str, int)) else None

    def dotted(self, n) -> str | None:
        if isinstance(n, ast.Name):
            return n.id
        if isinstance(n, ast.Attribute):
            b = self.dotted(n.value)
            if b is not None and isinstance(n.value, ast.Name) and b in getattr(self, "alias", {}):
                b = self.alias[b]             # a local name bound to the object stored in an attribute of self
            return None if b is None else b + "." + n.attr
        return None

    @staticmethod
    def _chunk_idiom(g):
        """(b, N) when `g` is `b[i : i + N] for i in range(0, len(b), N)`"""
        if not (len(g.generators) == 1 and not g.generators[0].ifs and isinstance(g.generators[0].target, ast.Name) and isinstance(g.elt, ast.Subscript)
                and isinstance(g.elt.slice, ast.Slice) and g.elt.slice.step is None and g.elt.slice.lower is not None and g.elt.slice.upper is not None):
            return None
        i, it, b = g.generators[0].target.id, g.generators[0].iter, g.elt.value
        lo, up = g.elt.slice.lower, g.elt.slice.upper
        if (isinstance(it, ast.Call) and ast.unparse(it.func) == "range" and len(it.args) == 3 and ast.unparse(it.args[0]) == "0"
                and ast.unparse(it.args[1]) == f"len({ast.unparse(b)})" and ast.unparse(lo) == i and isinstance(up, ast.BinOp) and isinstance(up.op, ast.Add)
                and ast.unparse(up.left) == i and ast.unparse(up.right) == ast.unparse(it.args[2])):
            return b, it.args[2]
        return None

    def field(self, d: str) -> str:
        """the Lean field that stands for the attribute `self.<name>` (spec `fields` maps Python names to the model's)"""
        name = d[5:].replace(".", "_")
        return self.spec.get("fields", {}).get(name, name)

    def canon_src(self, n) -> str:
        """source text of an expression with aliased local names spelled as the attribute of self they stand for"""
        al = getattr(self, "alias", {})
        if not al or not any(isinstance(x, ast.Name) and x.id in al for x in ast.walk(n)):
            return ast.unparse(n)
        import copy

        class A(ast.NodeTransformer):
            def visit_Attribute(self_, node):
                if isinstance(node.value, ast.Name) and node.value.id in al:
                    return ast.Attribute(value=ast.parse(al[node.value.id], mode="eval").body, attr=node.attr, ctx=node.ctx)
                return self_.generic_visit(node)

        return ast.unparse(A().visit(copy.deepcopy(n)))

    def typ(self, n) -> str:
        d = self.dotted(n)
        if d is not None and d in self.types:
            return self.types[d]
        if ast.unparse(n) in self.types:
            return self.types[ast.unparse(n)]
        if isinstance(n, ast.Name) and self.module_const(n.id) is not None:
            return self.typ(self.module_const(n.id))
        if isinstance(n, ast.Subscript) and self.typ(n.value) == "dict":
            return "str"
        if isinstance(n, ast.Call) and isinstance(n.func, ast.Attribute) and n.func.attr == "strip":
            return "str"
        if isinstance(n, ast.Call) and isinstance(n.func, ast.Attribute) and n.func.attr == "get" and self.typ(n.func.value) == "dict":
            return "str" if len(n.args) == 2 else "optstr"
        if isinstance(n, ast.Call) and self._helper_name(n) in self.helper_types:
            return self.helper_types[self._helper_name(n)]
        if isinstance(n, ast.Call) and isinstance(n.func, ast.Attribute) and n.func.attr == "find" and self.spec.get("find_names"):
            return "int"
        if isinstance(n, ast.BinOp) and self.typ(n.left) == "int":
            return "int"
        if isinstance(n, ast.IfExp):
            return self.typ(n.body)
        if isinstance(n, ast.BoolOp):
            return self.typ(n.values[0])
        if isinstance(n, ast.Constant):
            return "str" if isinstance(n.value, str) else "bool" if isinstance(n.value, bool) else "num"
        if isinstance(n, ast.JoinedStr):
            return "str"
        if isinstance(n, ast.Subscript):
            return self.typ(n.value)
        if isinstance(n, ast.BinOp):
            return self.typ(n.left)
        return "?"

    def e(self, n) -> str:
        if self.typ(n) == "optstr" and self.dotted(n) is not None:
            empty = '""' if self.spec.get("str") == "string" else "[]"
            return f"(({self.raw(n)}).getD {empty})"       # Optional[str] used as a string: only behind a truthiness guard
        if self.typ(n) == "optlist" and self.dotted(n) is not None:
            return f"(({self.raw(n)}).getD [])"            # Optional[list] used as a list: only behind a truthiness guard
        return self.raw(n)

    def raw(self, n) -> str:
        src = self.canon_src(n)
        if src in self.opaque:
            return self.opaque[src]
        d = self.dotted(n)
        if d is not None:
            if d in self.rename:
                return self.rename[d]
            if isinstance(n, ast.Attribute) and n.attr in self.spec.get("attrs", {}) and not d.startswith("self."):
                return f"{self.raw(n.value)}.{self.spec['attrs'][n.attr]}"
            if d.startswith("self.") and self.state:
                return f"{self.state}.{self.field(d)}"
            if isinstance(n, ast.Name):
                c = self.module_const(n.id)
                return n.id if c is None else self.e(c)
            if isinstance(n, ast.Attribute) and self.types.get(self.dotted(n.value) or "") == "obj":
                return f"{self.raw(n.value)}.{self.spec.get('attrs', {}).get(n.attr, n.attr)}"      # a field of a local structure value
            raise Unsupported(f"name {d}")
        if isinstance(n, ast.Constant):
            v = n.value
            if isinstance(v, bool):
                return "true" if v else "false"
            if v is None:
                return "none"
            if isinstance(v, (int,)):
                return f"({v} : Rat)" if self.spec.get("numbers") == "Rat" else str(v)
            if isinstance(v, str):
                return lean_nats(v) if self.spec.get("str") == "nat" else lean_string(v) if self.spec.get("str") == "string" else lean_chars(v)
            raise Unsupported(f"constant {v!r}")
        if isinstance(n, ast.JoinedStr):
            parts = []
            for v in n.values:
                if isinstance(v, ast.Constant):
                    parts.append(lean_nats(v.value) if self.spec.get("str") == "nat" else lean_chars(v.value))
                elif isinstance(v, ast.FormattedValue) and v.conversion == -1 and v.format_spec is None:
                    t = self.typ(v.value)
                    if t == "num" and self.spec.get("numfmt"):
                        parts.append(f"({self.spec['numfmt']} {self.e(v.value)})")
                    elif t == "optstr":
                        parts.append(self.e(v.value))
                    elif t != "str":
                        raise Unsupported("f-string of a non-string")
                    else:
                        parts.append(self.e(v.value))
                else:
                    raise Unsupported("f-string conversion")
            return "(" + " ++ ".join(parts) + ")"
        if isinstance(n, ast.BinOp) and isinstance(n.op, ast.Div) and self.spec.get("paths"):
            # pathlib: `dir / name`, `dir / relative_path`
            return f"({self.e(n.left)} ++ {self.e(n.right)})" if self.typ(n.right) == "path" else f"({self.e(n.left)} ++ [{self.e(n.right)}])"
        if isinstance(n, ast.BinOp):
            op = {ast.Add: "+", ast.Sub: "-", ast.Mult: "*"}.get(type(n.op))
            if op is None:
                raise Unsupported(ast.dump(n.op))
            if op == "+" and (self.typ(n.left) in ("str", "list") or isinstance(n.left, ast.List)):
                op = "++"
            return f"({self.e(n.left)} {op} {self.e(n.right)})"
        if isinstance(n, ast.IfExp):
            t = n.test
            if (isinstance(t, ast.Compare) and len(t.ops) == 1 and isinstance(t.ops[0], ast.IsNot) and isinstance(t.comparators[0], ast.Constant)
                    and t.comparators[0].value is None and ast.unparse(t.left) == ast.unparse(n.body)):
                return f"(({self.e(n.body)}).getD {self.e(n.orelse)})"          # `x if x is not None else d`
            return f"(if {self.cond(n.test)} then {self.e(n.body)} else {self.e(n.orelse)})"
        if isinstance(n, ast.UnaryOp) and isinstance(n.op, ast.Not):
            return f"(!{self.cond(n.operand)})"
        if isinstance(n, ast.BoolOp) and isinstance(n.op, ast.Or) and len(n.values) == 2 and self.typ(n.values[0]) == "str" and self.typ(n.values[1]) == "str":
            return f"(if !({self.e(n.values[0])}).isEmpty then {self.e(n.values[0])} else {self.e(n.values[1])})"      # `s or t` as a value
        if isinstance(n, ast.BoolOp):
            op = " && " if isinstance(n.op, ast.And) else " || "
            return "(" + op.join(self.cond(v) for v in n.values) + ")"
        if isinstance(n, ast.Compare) and len(n.ops) == 2 and all(isinstance(o, (ast.Lt, ast.LtE, ast.Gt, ast.GtE)) for o in n.ops) \
                and (self.dotted(n.comparators[0]) is not None or isinstance(n.comparators[0], ast.Constant)):
            # `a <= b < c` with a side-effect-free middle: both comparisons
            first = ast.Compare(left=n.left, ops=[n.ops[0]], comparators=[n.comparators[0]])
            second = ast.Compare(left=n.comparators[0], ops=[n.ops[1]], comparators=[n.comparators[1]])
            return f"({self.e(first)} && {self.e(second)})"
        if isinstance(n, ast.Compare) and len(n.ops) == 1:
            a, b, op = n.left, n.comparators[0], n.ops[0]
            if isinstance(op, ast.In) and isinstance(b, ast.Tuple):
                return "(" + " || ".join(f"({self.e(a)} == {self.e(x)})" for x in b.elts) + ")"
            if isinstance(op, ast.In) and isinstance(a, ast.Constant) and isinstance(a.value, str) and len(a.value) == 1 and self.typ(b) == "str":
                return f"({self.e(b)}).contains '{a.value}'"
            if isinstance(op, (ast.Is, ast.IsNot)) and isinstance(b, ast.Constant) and b.value is None and self.typ(a) == "bool":
                return self.raw(a) if isinstance(op, ast.IsNot) else f"(!{self.raw(a)})"      # an Optional object the spec represents by its presence
            if isinstance(op, (ast.Is, ast.IsNot)) and isinstance(b, ast.Constant) and b.value is None:
                return f"({self.raw(a)}).{'isNone' if isinstance(op, ast.Is) else 'isSome'}"
            if isinstance(op, (ast.In, ast.NotIn)) and isinstance(a, ast.Name) and a.id in self.spec.get("contains_names", {}):
                t = f"({self.spec['contains_names'][a.id]} {self.e(b)})"          # `SEP in data` for a named byte sequence
                return t if isinstance(op, ast.In) else f"(!{t})"
            if isinstance(op, (ast.In, ast.NotIn)) and self.typ(b) == "dict":
                t = f"(dictGet {self.e(b)} {self.e(a)}).isSome"
                return t if isinstance(op, ast.In) else f"(!{t})"
            if isinstance(op, ast.NotIn) and isinstance(a, ast.Constant) and isinstance(a.value, str) and len(a.value) == 1 and self.typ(b) == "str":
                return f"(!({self.e(b)}).contains '{a.value}')"
            if isinstance(op, ast.NotIn):
                return f"(!({self.e(b)}).contains {self.e(a)})"
            if isinstance(op, ast.In):
                return f"({self.e(b)}).contains {self.e(a)}"
            sym = {ast.GtE: "≥", ast.Gt: ">", ast.LtE: "≤", ast.Lt: "<", ast.Eq: "==", ast.NotEq: "!="}.get(type(op))
            if sym is None:
                raise Unsupported(ast.dump(op))
            if sym in ("==", "!="):
                return f"({self.e(a)} {sym} {self.e(b)})"
            return f"decide ({self.e(a)} {sym} {self.e(b)})"
        if isinstance(n, ast.Call) and self.dotted(n.func) in self.spec.get("call_hooks", {}):
            return self.spec["call_hooks"][self.dotted(n.func)](self, n)
        if (isinstance(n, ast.Attribute) and n.attr == "st_size" and isinstance(n.value, ast.Call) and isinstance(n.value.func, ast.Attribute)
                and n.value.func.attr == "stat" and not n.value.args and not n.value.keywords and self.spec.get("stat_size")):
            return f"({self.spec['stat_size']} {self.e(n.value.func.value)})"
        if isinstance(n, ast.Call):
            f = n.func
            if isinstance(f, ast.Name) and f.id == "min" and len(n.args) == 2:
                return f"(min {self.e(n.args[0])} {self.e(n.args[1])})"
            if isinstance(f, ast.Name) and f.id == "bool" and len(n.args) == 1 and not n.keywords:
                return self.cond(n.args[0])          # truthiness
            if isinstance(f, ast.Name) and f.id == "len" and len(n.args) == 1:
                return f"({self.e(n.args[0])}).length"
            if isinstance(f, ast.Attribute) and f.attr == "join" and len(n.args) == 1 and isinstance(f.value, ast.Constant):
                return f"(List.intercalate {self.e(f.value)} {self.e(n.args[0])})"
            if isinstance(f, ast.Attribute) and f.attr == "find" and len(n.args) == 1 and isinstance(n.args[0], ast.Name) \
                    and n.args[0].id in self.spec.get("find_names", {}):
                return f"({self.spec['find_names'][n.args[0].id]} {self.e(f.value)})"        # index of the first occurrence, or -1
            if isinstance(f, ast.Attribute) and f.attr == "startswith" and len(n.args) == 1:
                return f"({self.e(n.args[0])}).isPrefixOf {self.e(f.value)}"
            if isinstance(f, ast.Attribute) and f.attr == "endswith" and len(n.args) == 1:
                return f"({self.e(n.args[0])}).isSuffixOf {self.e(f.value)}"
            if isinstance(f, ast.Name) and f.id in ("any", "all") and len(n.args) == 1 and isinstance(n.args[0], ast.GeneratorExp) \
                    and len(n.args[0].generators) == 1 and isinstance(n.args[0].generators[0].target, ast.Name) and not n.args[0].generators[0].is_async:
                g = n.args[0].generators[0]
                body = self.cond(n.args[0].elt)
                for c in g.ifs:          # `any(e for x in L if c)` = any(c and e); `all(...)` = all(c implies e)
                    body = f"({self.cond(c)} && {body})" if f.id == "any" else f"(!{self.cond(c)} || {body})"
                return f"({self.e(g.iter)}).{f.id} (fun {g.target.id} => {body})"
            if isinstance(f, ast.Name) and f.id == "next" and len(n.args) == 2 and isinstance(n.args[0], ast.GeneratorExp) \
                    and len(n.args[0].generators) == 1 and isinstance(n.args[0].generators[0].target, ast.Name) \
                    and isinstance(n.args[1], ast.Constant) and n.args[1].value is None \
                    and isinstance(n.args[0].elt, ast.Name) and n.args[0].elt.id == n.args[0].generators[0].target.id:
                g = n.args[0].generators[0]
                c = " && ".join(self.cond(x) for x in g.ifs) or "true"
                return f"({self.e(g.iter)}).find? (fun {g.target.id} => {c})"       # an Option: `next((x for x in L if c), None)`
            if isinstance(f, ast.Attribute) and f.attr == "strip" and not n.args and self.spec.get("strip"):
                return f"({self.spec['strip']} {self.e(f.value)})"
            if isinstance(f, ast.Attribute) and f.attr == "get" and self.typ(f.value) == "dict" and len(n.args) in (1, 2):
                look = f"(dictGet {self.e(f.value)} {self.e(n.args[0])})"
                return look if len(n.args) == 1 else f"({look}.getD {self.e(n.args[1])})"
            if isinstance(f, ast.Attribute) and f.attr == "split" and len(n.args) == 1 and isinstance(n.args[0], ast.Constant) and len(n.args[0].value) == 1 \
                    and self.spec.get("splitall"):
                return f"({self.spec['splitall']} '{n.args[0].value}' {self.e(f.value)})"
            if (isinstance(f, ast.Attribute) and f.attr == "geturl" and not n.args and not n.keywords and "urlunparse" in self.spec.get("funcs", {})
                    and isinstance(f.value, ast.Call) and isinstance(f.value.func, ast.Attribute) and f.value.func.attr == "_replace"
                    and isinstance(f.value.func.value, ast.Name) and not f.value.args):
                # `r._replace(a=…).geturl()` of a urlparse result: urlunparse of its six components with the replaced ones
                base = f.value.func.value
                given = {k.arg: k.value for k in f.value.keywords}
                six = ("scheme", "netloc", "path", "params", "query", "fragment")
                if None in given or not set(given) <= set(six):
                    raise Unsupported("_replace(...).geturl() fields")
                comps = [given.get(c, ast.Attribute(value=ast.Name(id=base.id, ctx=ast.Load()), attr=c, ctx=ast.Load())) for c in six]
                return "(" + self.spec["funcs"]["urlunparse"] + " " + " ".join(self.e(c) for c in comps) + ")"
            hn = self._helper_name(n)
            if hn is not None and self.dotted(f) not in self.spec.get("funcs", {}) and self.dotted(f) not in self.spec.get("world_ops", {}):
                inl = self._inline_expr(n, hn)
                if inl is not None:
                    return self.e(inl)
            if hn is not None and self.dotted(f) not in self.spec.get("funcs", {}) and self._ensure_helper(hn):
                return "(" + self._lean_helper(hn) + "".join(" " + self.e(a) for a in n.args) + ")"
            if self.dotted(f) in self.spec.get("funcs", {}):
                args = n.args[0].elts if len(n.args) == 1 and isinstance(n.args[0], ast.Tuple) else n.args
                return "(" + self.spec["funcs"][self.dotted(f)] + " " + " ".join(self.e(a) for a in args) + ")"
            if isinstance(f, ast.Name) and f.id in self.spec.get("ctors", {}) and not n.args:
                self.types[src] = "obj"
                lean, fields, fixed = self.spec["ctors"][f.id][:3]
                ignore = self.spec["ctors"][f.id][3] if len(self.spec["ctors"][f.id]) > 3 else ()
                kws = {k.arg: k.value for k in n.keywords if k.arg not in ignore}
                for k, want in fixed.items():
                    if k not in kws or ast.unparse(kws[k]) != want:
                        raise Unsupported(f"constructor field {k} is not {want}")
                if set(kws) != set(fields) | set(fixed):
                    raise Unsupported(f"constructor fields {sorted(kws)}")
                if lean is None:          # the constructed value is represented by ONE of its fields
                    return self.e(kws[next(iter(fields))])
                return "({ " + ", ".join(f"{fields[k]} := {self.e(kws[k])}" for k in fields) + f" }} : {lean})"
            raise Unsupported(f"call {src}")
        if isinstance(n, ast.Subscript) and isinstance(n.slice, ast.Slice) and n.slice.lower is None and n.slice.step is None and n.slice.upper is not None \
                and self.typ(n.slice.upper) == "num" and self.spec.get("slices"):
            return f"(({self.e(n.value)}).take {self.e(n.slice.upper)})"           # x[:n] for a non-negative n
        if isinstance(n, ast.Subscript) and isinstance(n.slice, ast.Slice) and n.slice.step is None and self.spec.get("slices") \
                and (n.slice.lower is None) != (n.slice.upper is None) and self.typ(n.slice.lower or n.slice.upper) == "int":
            # an index computed from find(): used only behind a `>= 0` test (a negative index would count from the end)
            b = n.slice.lower or n.slice.upper
            return f"(({self.e(n.value)}).{'drop' if n.slice.lower is not None else 'take'} ({self.e(b)}).toNat)"
        if isinstance(n, ast.Subscript) and isinstance(n.slice, ast.Slice) and n.slice.upper is None and n.slice.step is None and n.slice.lower is not None:
            return f"(({self.e(n.value)}).drop {self.e(n.slice.lower)})"
        if isinstance(n, ast.Subscript) and isinstance(n.slice, ast.UnaryOp) and isinstance(n.slice.op, ast.USub) \
                and isinstance(n.slice.operand, ast.Constant) and n.slice.operand.value == 1:
            return f"(({self.e(n.value)}).getLast?.getD [])"
        if (isinstance(n, ast.Subscript) and isinstance(n.slice, ast.Constant) and n.slice.value == 0 and isinstance(n.value, ast.Call)
                and isinstance(n.value.func, ast.Attribute) and n.value.func.attr == "split" and len(n.value.args) == 1
                and isinstance(n.value.args[0], ast.Constant) and len(n.value.args[0].value) == 1):
            return f"(Url.cutAt '{n.value.args[0].value}' {self.e(n.value.func.value)}).1"       # text before the first separator (or all of it)
        if isinstance(n, ast.Subscript) and isinstance(n.slice, ast.Constant) and isinstance(n.slice.value, str) and self.typ(n.value) == "dict":
            return f"((dictGet {self.e(n.value)} {self.e(n.slice)}).getD [])"      # only behind an `in` guard
        if isinstance(n, ast.Subscript) and isinstance(n.slice, ast.Constant) and n.slice.value in self.spec.get("row_fields", ()) and self.typ(n.value) == "obj":
            return self.e(n.value)            # a result row represented by its one selected column
        if isinstance(n, (ast.ListComp, ast.GeneratorExp)) and self.spec.get("chunks_fn") and self._chunk_idiom(n) is not None:
            b, step = self._chunk_idiom(n)
            return f"({self.spec['chunks_fn']} {self.e(step)} {self.e(b)})"
        if isinstance(n, ast.List) and not n.elts:
            return "[]"
        if isinstance(n, ast.List):
            return "[" + ", ".join(self.e(x) for x in n.elts) + "]"
        if isinstance(n, ast.Tuple):
            return "(" + ", ".join(self.e(x) for x in n.elts) + ")"
        raise Unsupported(f"expression {src}")

    def cond(self, n) -> str:
        """an expression in boolean position (Python truthiness of strings/lists)"""
        t = self.typ(n)
        if t == "optlist" and not isinstance(n, (ast.Compare, ast.BoolOp, ast.UnaryOp, ast.Call)):
            return f"(match {self.raw(n)} with | some l => !l.isEmpty | none => false)"
        if t == "optstr" and not isinstance(n, (ast.Compare, ast.BoolOp, ast.UnaryOp, ast.Call)):
            return f"(match {self.raw(n)} with | some s => !s.isEmpty | none => false)"
        if t in ("str", "list") and not isinstance(n, (ast.Compare, ast.BoolOp, ast.UnaryOp, ast.Call)):
            return f"(!({self.e(n)}).isEmpty)"
        if t == "obj" and self.dotted(n) in self.spec.get("truthy_objs", ()):
            return "true"
        if t == "optobj" and self.dotted(n) is not None and self.dotted(n) in self.spec.get("truthy_objs", ()):
            return f"({self.raw(n)}).isSome"          # Optional[instance of a class with neither __bool__ nor __len__]          # an instance of a class with neither __bool__ nor __len__
        return self.e(n)

    # ---- statements --------------------------------------------------------------------------
    def ret(self, n) -> str:
        if self.spec.get("ret_opt"):
            if isinstance(n, ast.Call) and isinstance(n.func, ast.Name) and n.func.id == "next":
                return self.e(n)                      # already an Option
            if n is not None and self.typ(n).startswith("opt"):
                return self.raw(n)
            return "none" if n is None or (isinstance(n, ast.Constant) and n.value is None) else f"some {self.e(n)}"
        rt = self.spec.get("ret_types")
        if rt and isinstance(n, ast.Tuple) and len(n.elts) == len(rt):
            parts = []
            for x, t in zip(n.elts, rt):
                if t.startswith("opt") and not (isinstance(x, ast.Constant) and x.value is None) and not self.typ(x).startswith("opt"):
                    parts.append(f"some {self.e(x)}")
                else:
                    parts.append(self.e(x))
            v = "(" + ", ".join(parts) + ")"
            if self.spec.get("thread") and not self.state and self.spec.get("mode") != "except":
                return f"({self.spec['thread']}, {v})"          # the world as it is now, next to the value returned
            return f".ok {v}" if self.spec.get("mode") == "except" else v
        v = self.e(n) if n is not None else "()"
        if self.spec.get("mode") == "except" and self.spec.get("thread"):
            return f"({self.spec['thread']}, .ok {v if v.startswith('(') or ' ' not in v else '(' + v + ')'})"
        if self.spec.get("mode") == "except":
            return f".ok {v}"
        return f"({self.state}, {v})" if self.state else v

    def error_of(self, exc) -> str:
        cls = ast.unparse(exc.func) if isinstance(exc, ast.Call) else None
        ctor = self.spec.get("error_ctors", {}).get(cls)
        if ctor is not None:          # an exception class carrying values: (lean constructor, indexes of the arguments kept)
            lean, idx = ctor
            if any(i >= len(exc.args) for i in idx) or exc.keywords:
                raise Unsupported(f"raise {ast.unparse(exc)[:40]}")
            return "(" + lean + "".join(" " + self.e(exc.args[i]) for i in idx) + ")"
        if not (cls in self.spec.get("error_classes", ("ValueError",)) and len(exc.args) == 1):
            raise Unsupported(f"raise {ast.unparse(exc)[:40]}")
        a = exc.args[0]
        head = a.value if isinstance(a, ast.Constant) else a.values[0].value if isinstance(a, ast.JoinedStr) and isinstance(a.values[0], ast.Constant) else None
        for pre, lean in self.spec.get("errors", {}).items():
            if isinstance(head, str) and head.startswith(pre):
                return lean
        raise Unsupported(f"unknown error message {head!r}")

    # ---- effects: calls that act on the threaded world state ------------------------------------
    def _world_op(self, s):
        """(entry, call, target) when the statement is `x = [await] op(...)`, `a, b = op(...)` or `op(...)` for a declared world operation"""
        ops = self.spec.get("world_ops")
        if not ops:
            return None
        if isinstance(s, ast.Assign) and len(s.targets) == 1:
            v, tgt = s.value, s.targets[0]
        elif isinstance(s, ast.AnnAssign) and s.value is not None:
            v, tgt = s.value, s.target
        elif isinstance(s, ast.Expr):
            v, tgt = s.value, None
        else:
            return None
        if isinstance(v, ast.Await):
            v = v.value
        if isinstance(v, ast.Call) and self.dotted(v.func) == "cursor.execute" and self.spec.get("sql") is not None:
            # one SQL statement = one operation on the table; the statement text selects it, unknown text is not translated
            if not v.args or not isinstance(v.args[0], ast.Constant) or not isinstance(v.args[0].value, str) or v.keywords or len(v.args) > 2:
                raise Unsupported("cursor.execute without a literal statement")
            text = " ".join(v.args[0].value.split())
            ent = self.spec["sql"].get(text)
            if ent is None:
                raise Unsupported(f"SQL statement {text[:60]!r}")
            given = list(v.args[1].elts) if len(v.args) == 2 and isinstance(v.args[1], ast.Tuple) else [] if len(v.args) == 1 else None
            if given is None or len(given) != ent["nparams"]:
                raise Unsupported(f"parameters of {text[:40]!r}")
            return ent, ast.Call(func=v.func, args=[given[i] for i in ent["params"]], keywords=[]), tgt
        if not isinstance(v, ast.Call) or self.dotted(v.func) not in ops:
            return None
        ent = ops[self.dotted(v.func)]
        if ent.get("src") is not None and ast.unparse(v) != ent["src"]:
            raise Unsupported(f"call {ast.unparse(v)[:60]} is not {ent['src']}")
        return ent, v, tgt

    def world_stmt(self, ent, call, tgt, rest, ind) -> str:
        w = self.spec["thread"]
        if call.keywords and ent.get("args", True):
            raise Unsupported(f"keyword arguments of {ast.unparse(call.func)}")
        pre = ""
        if ent.get("pop0") and len(call.args) == 1 and isinstance(call.args[0], ast.Call) and isinstance(call.args[0].func, ast.Attribute) \
                and call.args[0].func.attr == "pop" and [ast.unparse(a) for a in call.args[0].args] == ["0"] \
                and (self.dotted(call.args[0].func.value) or "").startswith("self.") and self.state:
            # `op(self.L.pop(0))`: the first element is taken off the list, then handed over (the list is non-empty here: the loop test)
            lst = call.args[0].func.value
            self._npop = getattr(self, "_npop", 0) + 1
            v = f"piece_{self._npop}"
            fld = self.field(self.dotted(lst))
            pre = (f"{ind}let {v} := ({self.e(lst)}).headD []\n{ind}let {self.state} := {{ {self.state} with {fld} := ({self.e(lst)}).tail }}\n")
            self.types[v] = "str"
            call = ast.Call(func=call.func, args=[ast.Name(id=v, ctx=ast.Load())], keywords=[])
        if ent.get("error_arg"):
            if len(call.args) != 1:
                raise Unsupported(f"arguments of {ast.unparse(call.func)}")
            args = " " + self.error_of(call.args[0])          # an exception object handed on: its tag
        else:
            args = "".join(" " + (self.raw(a) if ent.get("raw_args") and self.dotted(a) is not None else self.e(a)) for a in call.args) if ent.get("args", True) else ""
        ret = ent.get("ret")
        if tgt is None:
            pat = ent.get("bind", "_")
        elif isinstance(tgt, ast.Name):
            if ret is None or isinstance(ret, (list, tuple)):
                raise Unsupported(f"result of {ast.unparse(call.func)} bound to a name")
            pat = tgt.id
            self.types[tgt.id] = ret
            self.rename.pop(tgt.id, None)
        elif isinstance(tgt, ast.Tuple) and all(isinstance(x, ast.Name) for x in tgt.elts) and isinstance(ret, (list, tuple)) and len(ret) == len(tgt.elts):
            pat = "(" + ", ".join(x.id for x in tgt.elts) + ")"
            for x, t in zip(tgt.elts, ret):
                self.types[x.id] = t
        else:
            raise Unsupported(f"target of {ast.unparse(call.func)}")
        if pre:
            return pre + self.world_stmt({k: v for k, v in ent.items() if k != "pop0"}, call, tgt, rest, ind)
        if ent.get("raises"):
            return (f"{ind}match {ent['fn']} {w}{args} with\n{ind}| ({w}, .error e) => ({w}, .error e)\n{ind}| ({w}, .ok {pat}) =>\n"
                    + self.block(rest, ind + "  "))
        if ret is None:
            return f"{ind}let {w} := {ent['fn']} {w}{args}\n" + self.block(rest, ind)
        return f"{ind}let ({w}, {pat}) := {ent['fn']} {w}{args}\n" + self.block(rest, ind)

    def with_stmt(self, s, rest, ind) -> str:
        """`with <declared context manager> as c: body` as the LAST statement: the body, then the manager's exit operation on the world"""
        w = self.spec.get("thread")
        if not w or rest or len(s.items) != 1 or ast.unparse(s.items[0].context_expr) not in self.spec.get("with_ctx", {}):
            raise Unsupported("with statement")
        fn, method, exit_src = self.spec["with_ctx"][ast.unparse(s.items[0].context_expr)]
        # the manager must still be `try: yield c  finally: <exit_src>` (its exit operation is what the world operation stands for)
        m = find_func(self.scope[0], self.spec["cls"], method) if self.scope else None
        ok = (m is not None and m.body and isinstance(m.body[-1], ast.Try) and not m.body[-1].handlers and not m.body[-1].orelse
              and len(m.body[-1].body) == 1 and isinstance(m.body[-1].body[0], ast.Expr) and isinstance(m.body[-1].body[0].value, ast.Yield)
              and [ast.unparse(x) for x in m.body[-1].finalbody] == [exit_src])
        if not ok:
            raise Unsupported(f"context manager {method} is not `try: yield  finally: {exit_src}`")
        body = self.block(list(s.body), ind + "    ")
        return (f"{ind}match ((\n{body}\n{ind}  ) : {self.spec['ret_type']}) with\n{ind}| ({w}, r) =>\n{ind}  let {w} := {fn} {w}\n{ind}  ({w}, r)")

    def try_stmt(self, s, rest, ind) -> str:
        """`try: body  except C as e: raise C'(...)  finally: ops` as the LAST statement: the body is an expression of type
        W × Except E R (a `return` or an exception ends it), the handlers map its error, the `finally` operations act on the world"""
        w = self.spec.get("thread")
        if not w or rest or s.orelse:
            raise Unsupported("try statement that is not last / without a threaded world")
        body = self.block(list(s.body), ind + "    ")
        out = f"{ind}match ((\n{body}\n{ind}  ) : {self.spec['ret_type']}) with\n{ind}| ({w}, r) =>\n"
        for h in s.handlers:
            pat = self.spec.get("exc_patterns", {}).get(ast.unparse(h.type) if h.type is not None else None)
            if pat is None or len(h.body) != 1 or not isinstance(h.body[0], ast.Raise) or h.body[0].exc is None:
                raise Unsupported("exception handler")
            out += f"{ind}  let r := match r with | .error {pat} => .error {self.error_of(h.body[0].exc)} | r => r\n"
        for f in s.finalbody:
            op = self._world_op(f)
            if op is None or op[2] is not None or op[0].get("raises") or op[0].get("ret") is not None:
                raise Unsupported(f"finally: {ast.unparse(f)[:40]}")
            args = "".join(" " + self.e(a) for a in op[1].args)
            out += f"{ind}  let {w} := {op[0]['fn']} {w}{args}\n"
        return out + f"{ind}  ({w}, r)"

    @staticmethod
    def _evaluates(s, src: str) -> bool:
        """does executing statement `s` evaluate the expression `src` BEFORE any of its nested statements runs?"""
        if isinstance(s, ast.If) or isinstance(s, ast.While):
            return src in ast.unparse(s.test)
        if isinstance(s, ast.For):
            return src in ast.unparse(s.iter)
        if isinstance(s, (ast.Try, ast.With)):
            return False
        return src in ast.unparse(s)

    def block(self, stmts, ind: str) -> str:
        if not stmts:
            if getattr(self, "_loop", None):
                return f"{ind}{self._loop} fuel {self.state}"          # end of the loop body: next iteration
            if getattr(self, "_forloop", None):
                return f"{ind}{self._forloop[0]} rest_ ({', '.join(self._forloop[1])})"
            if self.spec.get("implicit_return"):
                return ind + self.ret(None)
            raise Unsupported("control falls off the end")
        s, rest = stmts[0], stmts[1:]
        if (isinstance(s, ast.Assign) and len(s.targets) == 1 and isinstance(s.targets[0], ast.Name) and isinstance(s.value, ast.Call)
                and isinstance(s.value.func, ast.Attribute) and s.value.func.attr == "_replace" and not s.value.args and self.spec.get("replace_ctor")
                and isinstance(s.value.func.value, ast.Call)):
            # `x = f(...)._replace(a=…, b=…)` on a named tuple: `x = f(...)` then the constructor call with the other fields copied from x
            cname = self.spec["replace_ctor"]
            _, fields, fixed = self.spec["ctors"][cname][:3]
            x = s.targets[0].id
            given = {k.arg: k.value for k in s.value.keywords}
            if None in given or not set(given) <= set(fields) | set(fixed):
                raise Unsupported(f"_replace fields {sorted(k for k in given if k)}")
            kws = [ast.keyword(arg=f, value=given.get(f, ast.Attribute(value=ast.Name(id=x, ctx=ast.Load()), attr=f, ctx=ast.Load()))) for f in list(fixed) + list(fields)]
            first = ast.Assign(targets=[ast.Name(id=x, ctx=ast.Store())], value=s.value.func.value, lineno=0)
            second = ast.Assign(targets=[ast.Name(id=x, ctx=ast.Store())], value=ast.Call(func=ast.Name(id=cname, ctx=ast.Load()), args=[], keywords=kws), lineno=0)
            return self.block([first, second] + list(rest), ind)
        if isinstance(s, ast.Expr) and isinstance(s.value, ast.Call) and ast.unparse(s.value.func).startswith("logger."):
            return self.block(rest, ind)          # logging: no effect on what is modelled (its arguments are not evaluated here)
        if any(ast.unparse(s).startswith(x) for x in self.spec.get("skip_src", ())):
            return self.block(rest, ind)
        if isinstance(s, ast.Pass):
            return self.block(rest, ind)
        if isinstance(s, ast.FunctionDef) and not s.decorator_list and not any(isinstance(x, (ast.Nonlocal, ast.Global)) for x in ast.walk(s)):
            # a nested function: a helper of this function, inlined where it is called (its free names are the enclosing ones)
            self.local_funcs = dict(getattr(self, "local_funcs", {}))
            self.local_funcs[s.name] = s
            return self.block(rest, ind)
        if isinstance(s, ast.If) and self.spec.get("raising_methods") and self._has_raising_method(s.test):
            import copy as _c
            return self.block(self._compile_test(s.test, _c.deepcopy(list(s.body)), _c.deepcopy(list(s.orelse))) + list(rest), ind)
        if (isinstance(s, ast.Assign) and len(s.targets) == 1 and isinstance(s.targets[0], ast.Name) and self._raising_method(s.value)):
            fn = self.spec["raising_methods"][s.value.func.attr]
            x = s.targets[0].id
            self.types[x] = "bool"
            return f"{ind}match {fn} {self.e(s.value.func.value)} with\n{ind}| .error e => .error e\n{ind}| .ok {x} =>\n" + self.block(rest, ind + "  ")
        fl = getattr(self, "_forloop", None)
        if fl and isinstance(s, ast.Continue):
            return f"{ind}{fl[0]} rest_ ({', '.join(fl[1])})"
        if fl and isinstance(s, ast.Break):
            return f"{ind}.ok ({', '.join(fl[1])})"
        if fl and isinstance(s, (ast.Return, ast.Raise)):
            raise Unsupported("return / raise inside a for loop with carried variables")
        if (isinstance(s, ast.For) and self.spec.get("for_loops") and s.orelse and isinstance(s.target, ast.Name)
                and any(isinstance(x, ast.Break) for st in s.body for x in ast.walk(st))):
            # `for … else`: the else suite runs when the loop was not left by `break` - a flag carried by the loop
            self._nfe = getattr(self, "_nfe", 0) + 1
            flag = f"left_{self._nfe}"
            self.types[flag] = "bool"

            class Br(ast.NodeTransformer):
                def visit_Break(self_, node):
                    return [ast.Assign(targets=[ast.Name(id=flag, ctx=ast.Store())], value=ast.Constant(value=True), lineno=0), ast.Break()]

                def visit_For(self_, node):
                    return node             # an inner loop's break is its own

                def visit_While(self_, node):
                    return node
            import copy as _c
            body2 = [x for st in _c.deepcopy(list(s.body)) for x in (lambda r: r if isinstance(r, list) else [r])(Br().visit(st))]
            loop = ast.For(target=s.target, iter=s.iter, body=body2, orelse=[], lineno=0)
            init = ast.Assign(targets=[ast.Name(id=flag, ctx=ast.Store())], value=ast.Constant(value=False), lineno=0)
            after = ast.If(test=ast.UnaryOp(op=ast.Not(), operand=ast.Name(id=flag, ctx=ast.Load())), body=list(s.orelse), orelse=[])
            return self.block([init, loop, after] + list(rest), ind)
        if (isinstance(s, ast.For) and self.spec.get("for_loops") and not s.orelse and isinstance(s.target, ast.Name)
                and any(isinstance(x, ast.Break) for st in s.body for x in ast.walk(st))):
            # `for v in L: body` that re-binds locals and leaves with `break`: recursion over the list, carrying those locals
            assigned = []
            for st in s.body:
                for x in ast.walk(st):
                    if isinstance(x, ast.Name) and isinstance(x.ctx, ast.Store) and x.id in self.types and x.id != s.target.id and x.id not in assigned:
                        assigned.append(x.id)
            # carried: re-bound in the body AND (read after the loop, or read in the body before its first binding there)
            after = {x.id for st in rest for x in ast.walk(st) if isinstance(x, ast.Name) and isinstance(x.ctx, ast.Load)}
            seen_store, early = set(), set()
            for st in s.body:
                tg = {t.id for t in (st.targets if isinstance(st, ast.Assign) else []) if isinstance(t, ast.Name)}
                val = st.value if isinstance(st, ast.Assign) else st
                for x in ast.walk(val):
                    if isinstance(x, ast.Name) and isinstance(x.ctx, ast.Load) and x.id not in seen_store:
                        early.add(x.id)
                if isinstance(st, ast.Assign):
                    seen_store |= tg
                else:
                    seen_store |= set()
            stored = [v for v in assigned if v in after or v in early]
            lt = self.spec["lean_types"]
            if not stored or any(self.types[v] not in lt for v in stored):
                raise Unsupported("for loop: carried variables")
            self._nfor = getattr(self, "_nfor", 0) + 1
            decl, args, elt_t, elt_lean = self.spec["for_loops"]
            loaded = []
            for st in s.body:
                for x in ast.walk(st):
                    if isinstance(x, ast.Name) and isinstance(x.ctx, ast.Load) and x.id not in loaded:
                        loaded.append(x.id)
            free = [v for v in loaded if v in getattr(self, "_bound", set()) and v not in stored and v not in assigned and v != s.target.id
                    and v not in self.rename and self.types.get(v) in lt]
            for v in free:           # read-only locals of the enclosing function that the body uses
                decl += f"({v} : {lt[self.types[v]]}) "
                args = (args + " " + v).strip()
            name = f"{self.spec['name']}_for{self._nfor}"
            carried_t = " × ".join(lt[self.types[v]] for v in stored)
            sub = Tr(self.spec)
            sub.scope, sub.types, sub.rename, sub.opaque = self.scope, dict(self.types), dict(self.rename), dict(self.opaque)
            sub.types[s.target.id] = elt_t
            sub._forloop = (name + (" " + args if args else ""), stored)
            body = sub.block(list(s.body), "    ")
            pat = "(" + ", ".join(stored) + ")"
            for other, text in list(self.helpers.items()):
                if text and other.startswith(f"{self.spec['name']}_for") and text.replace(other, "@") == (
                        f"/-- the `for` loop of `{self.spec['func']}` (recursion over the list; carries {', '.join(stored)}) -/\n"
                        f"def {name} {decl}: List ({elt_lean}) → {carried_t} → Except {self.spec['err_type']} ({carried_t})\n"
                        f"  | [], {pat} => .ok {pat}\n  | {s.target.id} :: rest_, {pat} =>\n{body}\n").replace(name, "@"):
                    # the continuation was duplicated by an `if`: the same loop again - reuse its definition
                    return (f"{ind}match {other}{(' ' + args) if args else ''} {self.e(s.iter)} {pat} with\n{ind}| .error e => .error e\n{ind}| .ok {pat} =>\n"
                            + self.block(rest, ind + "  "))
            self.helpers[name] = (f"/-- the `for` loop of `{self.spec['func']}` (recursion over the list; carries {', '.join(stored)}) -/\n"
                                  f"def {name} {decl}: List ({elt_lean}) → {carried_t} → Except {self.spec['err_type']} ({carried_t})\n"
                                  f"  | [], {pat} => .ok {pat}\n  | {s.target.id} :: rest_, {pat} =>\n{body}\n")
            return (f"{ind}match {name}{(' ' + args) if args else ''} {self.e(s.iter)} {pat} with\n{ind}| .error e => .error e\n{ind}| .ok {pat} =>\n"
                    + self.block(rest, ind + "  "))
        hoisted = self._hoist_test_call(s)
        if hoisted is not None:
            return self.block(hoisted + list(rest), ind)
        # an opaque sub-expression that may raise: evaluated (once) by the first statement that mentions it
        call = self._inline_target(s)
        if call is not None:
            return self.block(self._inline(s, call, rest), ind)
        is_doc = isinstance(s, ast.Expr) and isinstance(s.value, ast.Constant)
        for src, (param, bound) in list(self.spec.get("raising", {}).items()):
            if not is_doc and src not in self.opaque and self._evaluates(s, src):
                saved_opaque = dict(self.opaque)
                self.opaque[src] = bound
                w = self.spec.get("thread")
                err = f"({w}, .error e)" if w and self.spec.get("mode") == "except" else ".error e"
                out = f"{ind}match {param} with\n{ind}| .error e => {err}\n{ind}| .ok {bound} =>\n" + self.block(stmts, ind + "  ")
                self.opaque = saved_opaque          # a sibling branch that reaches the expression evaluates it itself
                return out
        if isinstance(s, ast.Assign) and ast.unparse(s.value) in self.spec.get("skip_assign", ()):
            return self.block(rest, ind)
        if isinstance(s, ast.Raise) and self.spec.get("mode") == "except" and s.exc is not None:
            if self.spec.get("thread"):
                return f"{ind}({self.spec['thread']}, .error {self.error_of(s.exc)})"
            return f"{ind}.error {self.error_of(s.exc)}"
        if isinstance(s, (ast.Import, ast.ImportFrom)):
            return self.block(rest, ind)
        if isinstance(s, ast.Assert) and self.spec.get("assert_error") and self.spec.get("thread"):
            # `assert c`: AssertionError when c is false (assertions are enabled in the interpreter the server/client run in)
            return (f"{ind}if {self.cond(s.test)} then\n{self.block(rest, ind + '  ')}\n{ind}else\n"
                    f"{ind}  ({self.spec['thread']}, .error {self.spec['assert_error']})")
        if any(ast.unparse(s).startswith(x) for x in self.spec.get("skip_src", ())):
            return self.block(rest, ind)
        if (isinstance(s, ast.Expr) and isinstance(s.value, ast.Call) and isinstance(s.value.func, ast.Attribute) and s.value.func.attr == "extend"
                and len(s.value.args) == 1 and isinstance(s.value.args[0], ast.GeneratorExp) and self.spec.get("chunks_fn")
                and (self.dotted(s.value.func.value) or "") in self.spec.get("assign_map", {})):
            # `L.extend(b[i : i + N] for i in range(0, len(b), N))`: the consecutive N-byte pieces of b
            idiom = self._chunk_idiom(s.value.args[0])
            if idiom is None:
                raise Unsupported("extend with a generator that is not the chunking idiom")
            b, step = idiom
            fn, _ = self.spec["assign_map"][self.dotted(s.value.func.value)]
            return (f"{ind}let {self.state} := {fn}Extend {self.state} ({self.spec['chunks_fn']} {self.e(step)} {self.e(b)})\n" + self.block(rest, ind))
        op = self._world_op(s)
        if op is not None:
            return self.world_stmt(op[0], op[1], op[2], rest, ind)
        if isinstance(s, ast.Try) and self.spec.get("world_ops") and s.finalbody:
            return self.try_stmt(s, rest, ind)
        if isinstance(s, (ast.AsyncWith, ast.With)) and self.spec.get("world_ops") and self.spec.get("ctx_finally"):
            # `[async] with self._cm(...) as …: body` where `_cm` is a private (async) context manager of the class that ends in
            # `try: yield …  finally: F`: the block is `try: body  finally: F` (what precedes the yield happened before the block)
            if len(s.items) != 1 or not isinstance(s.items[0].context_expr, ast.Call) or self._helper_name(s.items[0].context_expr) is None:
                raise Unsupported("with statement")
            mname = self._helper_name(s.items[0].context_expr)
            m = next((f for holder in ([self.scope[1]] if self.scope and self.scope[1] is not None else []) + ([self.scope[0]] if self.scope else [])
                      for f in holder.body if isinstance(f, (ast.FunctionDef, ast.AsyncFunctionDef)) and f.name == mname), None)
            deco = [ast.unparse(d).split(".")[-1] for d in m.decorator_list] if m is not None else []
            last = m.body[-1] if m is not None and m.body else None
            if not (m is not None and any(d in ("asynccontextmanager", "contextmanager") for d in deco) and isinstance(last, ast.Try)
                    and not last.handlers and not last.orelse and len(last.body) == 1 and isinstance(last.body[0], ast.Expr)
                    and isinstance(last.body[0].value, ast.Yield)
                    and sum(isinstance(x, (ast.Yield, ast.YieldFrom)) for x in ast.walk(m)) == 1):
                raise Unsupported("context manager shape")
            inner = s.body[0] if len(s.body) == 1 and isinstance(s.body[0], ast.Try) and not s.body[0].finalbody and not s.body[0].orelse else None
            eq = ast.Try(body=list(inner.body) if inner else list(s.body), handlers=list(inner.handlers) if inner else [], orelse=[], finalbody=list(last.finalbody))
            return self.try_stmt(eq, rest, ind)
        if isinstance(s, ast.With) and self.spec.get("with_ctx"):
            return self.with_stmt(s, rest, ind)
        # `x = await f(...)` / `return await f(...)`: the await itself is not modelled (the callee is a parameter or the function itself)
        if isinstance(s, ast.Assign) and isinstance(s.value, ast.Await):
            s = ast.Assign(targets=s.targets, value=s.value.value, lineno=0)
        if isinstance(s, ast.Return) and isinstance(s.value, ast.Await):
            s = ast.Return(value=s.value.value)
        if isinstance(s, ast.Assign) and len(s.targets) == 1 and isinstance(s.targets[0], ast.Name) and isinstance(s.value, ast.Call) \
                and self.dotted(s.value.func) in self.spec.get("opt_raising_funcs", {}):
            fn, err = self.spec["opt_raising_funcs"][self.dotted(s.value.func)]
            x = s.targets[0].id
            self.types[x] = "obj"
            args = " ".join(self.e(a) for a in s.value.args)
            w = self.spec.get("thread")
            if w:   # the callee acts on the threaded world state (here: the log of connections made)
                return f"{ind}match {fn} {w} {args} with\n{ind}| ({w}, none) => ({w}, .error {err})\n{ind}| ({w}, some {x}) =>\n" + self.block(rest, ind + "  ")
            return f"{ind}match {fn} {args} with\n{ind}| none => .error {err}\n{ind}| some {x} =>\n" + self.block(rest, ind + "  ")
        if (isinstance(s, ast.Expr) and isinstance(s.value, ast.Call) and isinstance(s.value.func, ast.Attribute) and s.value.func.attr == "append"
                and isinstance(s.value.func.value, ast.Name) and self.types.get(s.value.func.value.id) == "list" and len(s.value.args) == 1):
            x = s.value.func.value.id
            return f"{ind}let {x} := {x} ++ [{self.e(s.value.args[0])}]\n" + self.block(rest, ind)
        if isinstance(s, ast.Return) and isinstance(s.value, ast.Call) and self.spec.get("recursive") and self.dotted(s.value.func) == self.spec["recursive"][0]:
            # a tail call of the function itself: the Lean definition recurses on `fuel`
            params = self.spec["recursive"][1]
            given = {p: a for p, a in zip(params, s.value.args)}
            given.update({k.arg: k.value for k in s.value.keywords})
            if set(given) != set(params):
                raise Unsupported("recursive call arguments")
            return ind + self.spec["recursive"][2] + (" " + self.spec["thread"] if self.spec.get("thread") else "") + " " + " ".join(self.e(given[p_]) for p_ in params)
        if self.spec.get("stop_src") and any(self._evaluates(s, x) for x in ([self.spec["stop_src"][0]] if isinstance(self.spec["stop_src"][0], str) else self.spec["stop_src"][0])):
            return ind + self.ret(ast.parse(self.spec["stop_src"][1], mode="eval").body)
        stop = self.spec.get("stop_at")
        if stop and isinstance(s, stop[0]):
            return ind + self.ret(ast.parse(stop[1], mode="eval").body)
        if isinstance(s, ast.Expr):
            if isinstance(s.value, ast.Constant) and isinstance(s.value.value, str):
                return self.block(rest, ind)
            if isinstance(s.value, ast.Call) and ast.unparse(s.value.func).startswith("logger."):
                return self.block(rest, ind)
            raise Unsupported(f"statement {ast.unparse(s)[:40]}")
        if isinstance(s, ast.Return):
            return ind + self.ret(s.value)
        if (isinstance(s, ast.Assign) and len(s.targets) == 1 and isinstance(s.targets[0], ast.Tuple) and len(s.targets[0].elts) == 2
                and all(isinstance(x, ast.Name) for x in s.targets[0].elts) and isinstance(s.value, ast.Call) and isinstance(s.value.func, ast.Attribute)
                and s.value.func.attr == "split" and len(s.value.args) == 2 and isinstance(s.value.args[0], ast.Constant) and len(s.value.args[0].value) == 1
                and isinstance(s.value.args[1], ast.Constant) and s.value.args[1].value == 1):
            # `a, b = x.split(c, 1)` (reached only when c occurs in x, else Python raises): the text before / after the first c
            a, b = (x.id for x in s.targets[0].elts)
            self.types[a] = self.types[b] = "str"
            return f"{ind}let ({a}, {b}) := Url.cutAt '{s.value.args[0].value}' {self.e(s.value.func.value)}\n" + self.block(rest, ind)
        if (isinstance(s, ast.Assign) and len(s.targets) == 1 and isinstance(s.targets[0], ast.Tuple) and len(s.targets[0].elts) == 2
                and all(isinstance(x, ast.Name) for x in s.targets[0].elts) and isinstance(s.value, ast.Call) and isinstance(s.value.func, ast.Attribute)
                and s.value.func.attr == "split" and len(s.value.args) == 2 and isinstance(s.value.args[0], ast.Name) and s.value.args[0].id in self.spec.get("split_names", {})
                and isinstance(s.value.args[1], ast.Constant) and s.value.args[1].value == 1):
            # `a, b = x.split(SEP, 1)` behind `SEP in x`: before / after the first occurrence
            a, b = (x.id for x in s.targets[0].elts)
            self.types[a] = self.types[b] = "str"
            return f"{ind}let ({a}, {b}) := {self.spec['split_names'][s.value.args[0].id]} {self.e(s.value.func.value)}\n" + self.block(rest, ind)
        if (isinstance(s, ast.Assign) and len(s.targets) == 1 and isinstance(s.targets[0], ast.Tuple) and all(isinstance(x, ast.Name) for x in s.targets[0].elts)
                and self.canon_src(s.value) in self.opaque and self.spec.get("tuple_types", {}).get(self.canon_src(s.value))):
            # `a, b = <expression the spec maps to a Lean pair>`
            tys = self.spec["tuple_types"][self.canon_src(s.value)]
            if len(tys) != len(s.targets[0].elts):
                raise Unsupported("tuple assignment arity")
            for x, t in zip(s.targets[0].elts, tys):
                self.types[x.id] = t
            return f"{ind}let ({', '.join(x.id for x in s.targets[0].elts)}) := {self.opaque[self.canon_src(s.value)]}\n" + self.block(rest, ind)
        if isinstance(s, ast.Assign) and len(s.targets) == 1 and isinstance(s.value, ast.Call) and self.dotted(s.value.func) in self.spec.get("raising_funcs", {}) \
                and isinstance(s.targets[0], ast.Name):
            fn, wrap = self.spec["raising_funcs"][self.dotted(s.value.func)]
            x = s.targets[0].id
            args = " ".join(self.e(a) for a in s.value.args)
            self.types[x] = "obj"
            return f"{ind}match {fn} {args} with\n{ind}| .error e => .error ({wrap} e)\n{ind}| .ok {x} =>\n" + self.block(rest, ind + "  ")
        if (isinstance(s, ast.Assign) and len(s.targets) == 1 and isinstance(s.targets[0], ast.Tuple) and isinstance(s.value, ast.Tuple)
                and len(s.targets[0].elts) == len(s.value.elts) and all(isinstance(x, ast.Name) for x in s.targets[0].elts)):
            # `a, b = x, y`: Python evaluates the right-hand side first; translated as consecutive bindings when no target occurs on the right
            names = {x.id for x in s.targets[0].elts}
            if any(isinstance(y, ast.Name) and y.id in names for v in s.value.elts for y in ast.walk(v)):
                raise Unsupported("parallel assignment whose right-hand side mentions a target")
            parts = [ast.copy_location(ast.Assign(targets=[x], value=v), s) for x, v in zip(s.targets[0].elts, s.value.elts)]
            return self.block(parts + list(rest), ind)
        if isinstance(s, ast.Assign) and len(s.targets) == 1:
            t = s.targets[0]
            d = self.dotted(t)
            if d is None:
                raise Unsupported("assignment target")
            if (isinstance(t, ast.Name) and self.dotted(s.value) is not None and self.dotted(s.value).startswith("self.") and self.dotted(s.value) in self.rename
                    and self.spec.get("aliases_of_self")):
                # `x = self.attr` for an attribute the spec knows: x is another name for it (never re-bound: checked below)
                if sum(isinstance(y, ast.Name) and y.id == t.id and isinstance(y.ctx, ast.Store) for st in [s] + list(rest) for y in ast.walk(st)) != 1:
                    raise Unsupported(f"alias {t.id} is re-bound")
                src = self.dotted(s.value)
                self.rename[t.id] = self.rename[src]
                if src in self.types:
                    self.types[t.id] = self.types[src]
                self.alias = dict(getattr(self, "alias", {}))
                self.alias[t.id] = src
                return self.block(rest, ind)
            if d in self.spec.get("assign_map", {}):
                fn, keep = self.spec["assign_map"][d]
                return f"{ind}let {self.state} := {fn} {self.state}{(' ' + self.e(s.value)) if keep else ''}\n" + self.block(rest, ind)
            if d.startswith("self."):
                if not self.state or d.count(".") != 1:
                    raise Unsupported("mutation of self")
                val = self.e(s.value)
                if isinstance(s.value, ast.Name) and self.types.get(s.value.id) == "obj" and self.spec.get("aliases"):
                    self.alias = dict(getattr(self, "alias", {}))
                    self.alias[s.value.id] = d
                isnone = isinstance(s.value, ast.Constant) and s.value.value is None
                if self.types.get(d) == "bool" and isnone:
                    val = "false"                       # an Optional attribute the spec represents by its presence
                elif self.types.get(d, "").startswith("opt") and not isnone and not self.typ(s.value).startswith("opt"):
                    val = f"some ({val})"
                return f"{ind}let {self.state} := {{ {self.state} with {self.field(d)} := {val} }}\n" + self.block(rest, ind)
            vt = self.typ(s.value)
            # an Optional value keeps its Option type when it is only bound to a name
            val = self.raw(s.value) if vt.startswith("opt") and self.dotted(s.value) is not None else self.e(s.value)
            if self.types.get(d, "").startswith("opt") and not vt.startswith("opt") and not (isinstance(s.value, ast.Constant) and s.value.value is None):
                val = f"some ({val})"               # a value stored into a name declared Optional
            self.types.setdefault(d, vt)
            self._bound = getattr(self, "_bound", set()) | {d}
            return f"{ind}let {d} := {val}\n" + self.block(rest, ind)
        if isinstance(s, ast.AnnAssign) and isinstance(s.target, ast.Name) and s.value is not None:
            if isinstance(s.value, ast.Dict) and not s.value.keys:
                self.types[s.target.id] = "dict"
                return f"{ind}let {s.target.id} : Dict := []\n" + self.block(rest, ind)
            self.types.setdefault(s.target.id, "list" if isinstance(s.value, ast.List) else self.typ(s.value))
            return f"{ind}let {s.target.id} := {self.e(s.value)}\n" + self.block(rest, ind)
        if isinstance(s, ast.AugAssign):
            d = self.dotted(s.target)
            op = {ast.Add: "+", ast.Sub: "-"}.get(type(s.op))
            if d is None or op is None:
                raise Unsupported("augmented assignment")
            if op == "+" and self.typ(s.target) == "str":
                op = "++"
            if d.startswith("self."):
                return f"{ind}let {self.state} := {{ {self.state} with {self.field(d)} := {self.e(s.target)} {op} {self.e(s.value)} }}\n" + self.block(rest, ind)
            return f"{ind}let {d} := {d} {op} {self.e(s.value)}\n" + self.block(rest, ind)
        if isinstance(s, ast.If) and s.orelse and self._none_test(s.test) is not None:
            # `if x is None: A else: B` (also what inlining makes of `if x is None: …; return`): B sees the value of x
            dn, is_none = self._none_test(s.test)
            nb, sb = (s.body, s.orelse) if is_none else (s.orelse, s.body)

            def falls_(b):
                return not b or not isinstance(b[-1], (ast.Return, ast.Raise))
            saved = (dict(self.rename), dict(self.types))
            none_branch = self.block(list(nb) + (list(rest) if falls_(nb) else []), ind + "  ")
            old, fresh = self._narrow(dn)
            some_branch = self.block(list(sb) + (list(rest) if falls_(sb) else []), ind + "  ")
            self.rename, self.types = saved
            return f"{ind}match {old} with\n{ind}| none =>\n{none_branch}\n{ind}| some {fresh} =>\n{some_branch}"
        if isinstance(s, ast.If) and not s.orelse and self._none_test(s.test) is not None:
            dn, is_none = self._none_test(s.test)
            term = bool(s.body) and isinstance(s.body[-1], (ast.Return, ast.Raise))
            saved = (dict(self.rename), dict(self.types))
            if is_none and term:
                none_branch = self.block(list(s.body), ind + "  ")
                old, fresh = self._narrow(dn)
                some_branch = self.block(rest, ind + "  ")
                self.rename, self.types = saved
                return f"{ind}match {old} with\n{ind}| none =>\n{none_branch}\n{ind}| some {fresh} =>\n{some_branch}"
            if not is_none:
                none_branch = self.block(rest, ind + "  ")
                old, fresh = self._narrow(dn)
                some_branch = self.block(list(s.body) + ([] if term else rest), ind + "  ")
                self.rename, self.types = saved
                return f"{ind}match {old} with\n{ind}| none =>\n{none_branch}\n{ind}| some {fresh} =>\n{some_branch}"
        if isinstance(s, ast.If):
            def falls(b):
                return not b or not isinstance(b[-1], (ast.Return, ast.Raise)) and not (isinstance(b[-1], ast.If) and not falls(b[-1].body) and b[-1].orelse and not falls(b[-1].orelse))
            body = list(s.body) + (rest if falls(s.body) else [])
            orelse = list(s.orelse) + (rest if falls(s.orelse) else [])
            if falls(s.body) and falls(s.orelse) and self._assigns_only(s.body) and not s.orelse:
                # `if c: x = e` with a continuation: turn into a conditional rebinding so the continuation is emitted once
                outs = []
                for a in s.body:
                    if isinstance(a, ast.If):
                        return f"{ind}if {self.cond(s.test)} then\n{self.block(body, ind + '  ')}\n{ind}else\n{self.block(orelse, ind + '  ')}"
                    d = self.dotted(a.targets[0]) if isinstance(a, ast.Assign) else self.dotted(a.target)
                    outs.append((d, a))
                return f"{ind}if {self.cond(s.test)} then\n{self.block(body, ind + '  ')}\n{ind}else\n{self.block(orelse, ind + '  ')}"
            return f"{ind}if {self.cond(s.test)} then\n{self.block(body, ind + '  ')}\n{ind}else\n{self.block(orelse, ind + '  ')}"
        if getattr(self, "_loop", None) and isinstance(s, ast.Continue):
            return f"{ind}{self._loop} fuel {self.state}"
        if getattr(self, "_loop", None) and isinstance(s, ast.Break):
            return f"{ind}{self.state}"
        if getattr(self, "_loop", None) and isinstance(s, (ast.Return, ast.Raise)):
            raise Unsupported("return / raise inside a while loop")
        if isinstance(s, ast.While) and not s.orelse and self.state and self.spec.get("loops"):
            # `while C: body` on the threaded state: a recursive definition on fuel (the spec names a bound that the proofs show sufficient)
            self._nloop = getattr(self, "_nloop", 0) + 1
            decl, args, fuel = self.spec["loops"]
            name = f"{self.spec['name']}_loop{self._nloop}"
            sub = Tr(self.spec)
            sub.scope, sub.types, sub.rename, sub.opaque = self.scope, dict(self.types), dict(self.rename), dict(self.opaque)
            sub._loop = name + (" " + args if args else "")
            cond = sub.cond(s.test)
            body = sub.block(list(s.body), "      ")
            st = self.state
            self.helpers[name] = (f"/-- the `while` loop of `{self.spec['func']}` (recursion on fuel) -/\ndef {name} {decl}: Nat → {self.spec['state_type']} → {self.spec['state_type']}\n"
                                  f"  | 0, {st} => {st}\n  | fuel + 1, {st} =>\n    if {cond} then\n{body}\n    else\n      {st}\n")
            return f"{ind}let {st} := {name}{(' ' + args) if args else ''} ({fuel}) {st}\n" + self.block(rest, ind)
        if isinstance(s, ast.For) and not s.orelse and isinstance(s.target, ast.Name):
            v = s.target.id
            b = s.body
            # early-return search loop
            if len(b) == 1 and isinstance(b[0], ast.If) and not b[0].orelse and len(b[0].body) == 1 and isinstance(b[0].body[0], ast.Return):
                c = self.e(b[0].test)
                rv = b[0].body[0].value
                if rv is not None and any(isinstance(x, ast.Name) and x.id == v for x in ast.walk(rv)):
                    return (f"{ind}match ({self.e(s.iter)}).find? (fun {v} => {c}) with\n{ind}| some {v} => {self.ret(rv)}\n{ind}| none =>\n"
                            + self.block(rest, ind + "  "))
                return f"{ind}if ({self.e(s.iter)}).any (fun {v} => {c}) then\n{ind}  {self.ret(b[0].body[0].value)}\n{ind}else\n{self.block(rest, ind + '  ')}"
            # first-reject loop over awaited components: the component results are the list elements
            if (len(b) == 2 and isinstance(b[0], ast.Assign) and isinstance(b[0].targets[0], ast.Tuple) and isinstance(b[0].value, ast.Await)
                    and isinstance(b[1], ast.If) and isinstance(b[1].test, ast.UnaryOp) and isinstance(b[1].test.op, ast.Not)
                    and len(b[1].body) == 1 and isinstance(b[1].body[0], ast.Return) and not b[1].orelse):
                a0, a1 = (x.id for x in b[0].targets[0].elts)
                if ast.unparse(b[1].test.operand) != a0 or ast.unparse(b[1].body[0].value) != f"(False, {a1})":
                    raise Unsupported("first-reject loop shape")
                return (f"{ind}match ({self.e(s.iter)}).find? (fun r => !r.1) with\n{ind}| some r => (false, r.2)\n{ind}| none =>\n" + self.block(rest, ind + "  "))
            # accumulator loop: the body only appends to / pops from ONE local list and uses `continue`
            acc = self._acc_name(b)
            if acc is not None:
                body = self.accbody(list(b), acc, ind + "    ")
                return (f"{ind}let {acc} := ({self.e(s.iter)}).foldl (fun {acc} {v} =>\n{body}) {acc}\n" + self.block(rest, ind))
            # first-result loop: the body returns for some element or moves on (`continue` / falls off the end)
            if not any(isinstance(x, (ast.Break, ast.For, ast.While, ast.Await, ast.AugAssign)) for st in b for x in ast.walk(st)):
                saved = (dict(self.rename), dict(self.types))
                body = self.optblock(list(b), ind + "    ")
                self.rename, self.types = saved
                return (f"{ind}match ({self.e(s.iter)}).findSome? (fun {v} =>\n{body}) with\n{ind}| some r => r\n{ind}| none =>\n" + self.block(rest, ind + "  "))
            raise Unsupported("for loop shape")
        if isinstance(s, ast.Try) and self.spec.get("quiet_try") and not s.orelse and not s.finalbody and s.handlers \
                and all(ast.unparse(h.type) in self.spec["quiet_try"] for h in s.handlers if h.type is not None) and all(h.type is not None for h in s.handlers):
            # `try: body except E: …` where nothing in the body raises E in the situation the function is called in (the spec says why):
            # the body, then what follows
            def falls_(b):
                return not b or not isinstance(b[-1], (ast.Return, ast.Raise, ast.Continue, ast.Break))
            return self.block(list(s.body) + (list(rest) if falls_(s.body) else []), ind)
        if (self.spec.get("try_calls") and isinstance(s, ast.Try) and not s.orelse and not s.finalbody and s.body and isinstance(s.body[0], ast.Expr)
                and isinstance(s.body[0].value, ast.Call)):
            # `try: f(args)` whose value is not kept: the same as binding it to a name nobody reads
            s = copy.copy(s)
            s.body = [ast.copy_location(ast.Assign(targets=[ast.Name(id="_unused", ctx=ast.Store())], value=s.body[0].value), s.body[0])] + list(s.body[1:])
        if (self.spec.get("try_calls") and isinstance(s, ast.Try) and not s.orelse and not s.finalbody and s.body and isinstance(s.body[0], ast.Assign)
                and len(s.body[0].targets) == 1 and isinstance(s.body[0].value, ast.Call)
                and (isinstance(s.body[0].targets[0], ast.Name) or (isinstance(s.body[0].targets[0], ast.Tuple)
                                                                      and all(isinstance(y, ast.Name) for y in s.body[0].targets[0].elts)))):
            v0 = s.body[0].value
            tgt0 = s.body[0].targets[0]
            x = tgt0.id if isinstance(tgt0, ast.Name) else "(" + ", ".join(y.id for y in tgt0.elts) + ")"
            key = v0.func.attr if isinstance(v0.func, ast.Attribute) and self.dotted(v0.func) not in self.spec["try_calls"] else self.dotted(v0.func)
            ent = self.spec["try_calls"].get(key)
            if ent is None:
                raise Unsupported(f"try around {ast.unparse(v0)[:40]}")
            if {k.arg: ast.unparse(k.value) for k in v0.keywords} != ent.get("kw", {}):
                raise Unsupported(f"keyword arguments of {ast.unparse(v0)[:40]}")
            argv = ([v0.func.value] if ent.get("recv") else []) + [v0.args[i] for i in ent.get("args", [])]
            if len(v0.args) != ent.get("nargs", len(ent.get("args", []))):
                raise Unsupported(f"arguments of {ast.unparse(v0)[:40]}")
            argstr = "".join(" " + self.e(a) for a in argv)
            # the statements after the call inside the try must not be able to raise into the handlers: plain returns / bindings only
            for st in s.body[1:]:
                if self.spec.get("try_rest_any"):
                    # the spec vouches that the operations these statements call do not raise (they contain their own handlers)
                    if self._has_raising_method(st) or any(isinstance(y, ast.Call) and (self.dotted(y.func) in self.spec["try_calls"]
                                                                                        or (isinstance(y.func, ast.Attribute) and y.func.attr in self.spec["try_calls"]))
                                                           for y in ast.walk(st)):
                        raise Unsupported("a second raising call inside the try")
                elif not isinstance(st, (ast.Return, ast.Assign)) or self._has_raising_method(st):
                    raise Unsupported("statements after the guarded call")
            got = [tuple(sorted(ast.unparse(e) for e in h.type.elts)) if isinstance(h.type, ast.Tuple) else (ast.unparse(h.type),) if h.type is not None else ("BaseException",)
                   for h in s.handlers]
            want = [tuple(sorted(t)) for t, _ in ent["handlers"]]
            if got != want:
                raise Unsupported(f"handlers {got} around {ast.unparse(v0)[:30]}")
            saved = (dict(self.rename), dict(self.types), dict(self.opaque))
            arms = []
            for h, (_, pat) in zip(s.handlers, ent["handlers"]):
                self.rename, self.types, self.opaque = dict(saved[0]), dict(saved[1]), dict(saved[2])
                if h.name:
                    self.types[h.name] = "str"
                hb = list(h.body)
                if not hb or not isinstance(hb[-1], (ast.Return, ast.Raise, ast.Continue, ast.Break)):
                    hb = hb + list(rest)
                arms.append(f"{ind}| {pat} =>\n" + self.block(hb, ind + "  "))
            self.rename, self.types, self.opaque = dict(saved[0]), dict(saved[1]), dict(saved[2])
            if isinstance(tgt0, ast.Name):
                self.types[x] = ent["rtype"]
                self._bound = getattr(self, "_bound", set()) | {x}
            else:
                for y, t_ in zip(tgt0.elts, ent["rtype"]):
                    self.types[y.id] = t_
            okb = list(s.body[1:])
            if not okb or not isinstance(okb[-1], (ast.Return, ast.Raise, ast.Continue, ast.Break)):
                okb = okb + list(rest)
            ok = f"{ind}| {ent.get('ok', '.ok')} {x} =>\n" + self.block(okb, ind + "  ")
            self.rename, self.types, self.opaque = saved
            return f"{ind}match {ent['fn']}{argstr} with\n" + "\n".join(arms) + "\n" + ok
        if (self.spec.get("try_except") and isinstance(s, ast.Try) and len(s.body) == 1 and isinstance(s.body[0], ast.Assign) and len(s.body[0].targets) == 1
                and len(s.handlers) == 1 and not s.orelse and not s.finalbody and isinstance(s.body[0].value, ast.Call)):
            # `try: x = f(args)  except E [as e]: <handler that ends the function>` with f a call that may raise E
            v0, tgt, h = s.body[0].value, s.body[0].targets[0], s.handlers[0]
            etype = ast.unparse(h.type) if h.type is not None else None
            if isinstance(v0.func, ast.Attribute) and v0.func.attr == "decode" and [ast.unparse(a) for a in v0.args] == ["'utf-8'"] and not v0.keywords:
                fn, args, want, rtype = self.spec["decode_utf8"], [v0.func.value], "UnicodeDecodeError", "str"
            elif self.dotted(v0.func) in self.spec.get("raising_calls", {}) and not v0.keywords:
                fn, want, rtype = self.spec["raising_calls"][self.dotted(v0.func)]
                args = list(v0.args)
            else:
                raise Unsupported(f"try around {ast.unparse(v0)[:40]}")
            if etype != want:
                raise Unsupported(f"except {etype} around {ast.unparse(v0)[:40]}")
            hb = list(h.body)
            if not hb or not isinstance(hb[-1], (ast.Return, ast.Raise)):
                hb = hb + list(rest)          # a handler that completes continues after the try statement
            saved = (dict(self.rename), dict(self.types))
            if h.name:
                self.types[h.name] = "str"
            err = self.block(hb, ind + "  ")
            self.rename, self.types = saved
            argstr = "".join(" " + self.e(a) for a in args)
            d = self.dotted(tgt)
            if isinstance(tgt, ast.Name):
                self.types[tgt.id] = rtype
                okb = self.block(rest, ind + "  ")
                pat = tgt.id
            elif d is not None and d.startswith("self.") and self.state:
                pat = "v'"
                val = f"some {pat}" if self.types.get(d, "").startswith("opt") else pat
                okb = f"{ind}  let {self.state} := {{ {self.state} with {self.field(d)} := {val} }}\n" + self.block(rest, ind + "  ")
            else:
                raise Unsupported("target of a guarded call")
            return f"{ind}match {fn}{argstr} with\n{ind}| .error {h.name or '_'} =>\n{err}\n{ind}| .ok {pat} =>\n{okb}"
        if isinstance(s, ast.Try) and len(s.body) == 1 and isinstance(s.body[0], ast.Assign) and len(s.handlers) == 1 and not s.orelse and not s.finalbody:
            call = ast.unparse(s.body[0].value)
            v0 = s.body[0].value
            if call not in self.opaque and isinstance(v0, ast.Call) and self.dotted(v0.func) in self.spec.get("optfuncs", {}):
                self.opaque[call] = "(" + self.spec["optfuncs"][self.dotted(v0.func)] + " " + " ".join(self.e(a) for a in v0.args) + ")"
            if call not in self.opaque or ast.unparse(s.handlers[0].type) != "ValueError":
                raise Unsupported(f"try around {call}")
            x = s.body[0].targets[0].id
            h = s.handlers[0].body
            if len(h) == 1 and isinstance(h[0], ast.Raise) and self.spec.get("mode") == "except":
                self.types[x] = "num"
                return f"{ind}match {self.opaque[call]} with\n{ind}| none => .error {self.error_of(h[0].exc)}\n{ind}| some {x} =>\n" + self.block(rest, ind + "  ")
            if len(h) != 1 or not isinstance(h[0], ast.Return):
                raise Unsupported("except body")
            return f"{ind}match {self.opaque[call]} with\n{ind}| none => {self.ret(h[0].value)}\n{ind}| some {x} =>\n" + self.block(rest, ind + "  ")
        raise Unsupported(f"statement {type(s).__name__}: {ast.unparse(s)[:50]}")

    # ---- calls that may raise inside conditions (pathlib queries …): evaluated in Python's order, short-circuit included ----------
    def _raising_method(self, n):
        return (isinstance(n, ast.Call) and isinstance(n.func, ast.Attribute) and n.func.attr in self.spec.get("raising_methods", {})
                and not n.args and not n.keywords)

    def _has_raising_method(self, n) -> bool:
        return any(self._raising_method(x) for x in ast.walk(n))

    def _compile_test(self, t, then, orelse):
        """statements equivalent to `if t: then else: orelse` in which every raising call of `t` is a statement of its own"""
        if isinstance(t, ast.BoolOp) and isinstance(t.op, ast.And):
            rest = t.values[1] if len(t.values) == 2 else ast.BoolOp(op=ast.And(), values=t.values[1:])
            return self._compile_test(t.values[0], self._compile_test(rest, then, orelse), orelse)
        if isinstance(t, ast.BoolOp) and isinstance(t.op, ast.Or):
            rest = t.values[1] if len(t.values) == 2 else ast.BoolOp(op=ast.Or(), values=t.values[1:])
            return self._compile_test(t.values[0], then, self._compile_test(rest, then, orelse))
        if isinstance(t, ast.UnaryOp) and isinstance(t.op, ast.Not):
            return self._compile_test(t.operand, orelse, then)
        if self._raising_method(t):
            self._nq = getattr(self, "_nq", 0) + 1
            tmp = f"q_{self._nq}"
            return [ast.Assign(targets=[ast.Name(id=tmp, ctx=ast.Store())], value=t, lineno=0),
                    ast.If(test=ast.Name(id=tmp, ctx=ast.Load()), body=list(then) or [ast.Pass()], orelse=list(orelse))]
        if self._has_raising_method(t):
            raise Unsupported(f"raising call inside {ast.unparse(t)[:40]}")
        return [ast.If(test=t, body=list(then) or [ast.Pass()], orelse=list(orelse))]

    def _hoist_test_call(self, s):
        """`if A and [not] self._h(...): B [else: C]` with `_h` a private method that can be inlined: the call is evaluated by a
        statement of its own, exactly where Python evaluates it (after A held), so that it can be inlined like any other statement"""
        if not isinstance(s, ast.If) or not self.scope or not self.spec.get("hoist_tests"):
            return None

        def helper_call(e):
            c = e.operand if isinstance(e, ast.UnaryOp) and isinstance(e.op, ast.Not) else e
            if isinstance(c, ast.Call) and self._inline_target(ast.Expr(value=c)) is c:
                return c
            return None

        t = s.test
        self._nh = getattr(self, "_nh", 0)
        if helper_call(t) is not None:
            pre, last = [], t
        elif isinstance(t, ast.BoolOp) and isinstance(t.op, ast.And) and helper_call(t.values[-1]) is not None \
                and not any(helper_call(x) is not None or any(isinstance(y, ast.Call) and self._helper_name(y) for y in ast.walk(x)) for x in t.values[:-1]):
            pre, last = t.values[:-1], t.values[-1]
        else:
            return None
        self._nh += 1
        tmp = f"test_{self._nh}"
        c = helper_call(last)
        cond = ast.Name(id=tmp, ctx=ast.Load())
        if isinstance(last, ast.UnaryOp):
            cond = ast.UnaryOp(op=ast.Not(), operand=cond)
        inner = [ast.Assign(targets=[ast.Name(id=tmp, ctx=ast.Store())], value=c, lineno=0), ast.If(test=cond, body=s.body, orelse=s.orelse)]
        if not pre:
            return inner
        guard = pre[0] if len(pre) == 1 else ast.BoolOp(op=ast.And(), values=list(pre))
        return [ast.If(test=guard, body=inner, orelse=s.orelse)]

    # ---- statement-level inlining of private helpers (a function split into helpers translates to the same definition) --------
    def _inline_target(self, s):
        """the first call of a private helper (same class / module) inside statement `s`, if the statement is one we can re-write"""
        if not self.scope or not isinstance(s, (ast.Return, ast.Assign, ast.AnnAssign, ast.Expr)):
            return None
        if isinstance(s, ast.Expr) and not isinstance(s.value, ast.Call):
            return None
        for n in ast.walk(s):
            if isinstance(n, ast.Call):
                hn = self._helper_name(n)
                banned = (ast.For, ast.While, ast.With, ast.Await) + (() if self.spec.get("inline_try") else (ast.Try,))
                if hn is not None and self.dotted(n.func) not in self.spec.get("funcs", {}) and ast.unparse(n) not in self.opaque \
                        and self.dotted(n.func) not in self.spec.get("world_ops", {}) \
                        and ast.unparse(n) not in self.spec.get("raising", {}) and self._find_helper(hn) is not None \
                        and not any(isinstance(x, banned) for x in ast.walk(self._find_helper(hn))):
                    return n
        return None

    def _splice(self, stmts, cont, tmp):
        """helper body with every `return e` turned into `tmp = e; <cont>` (`return` / falling off the end: `<cont>`)"""
        if not stmts:
            return list(cont)
        st, more = stmts[0], stmts[1:]
        if isinstance(st, ast.Expr) and isinstance(st.value, ast.Constant):
            return self._splice(more, cont, tmp)
        if isinstance(st, ast.Return):
            pre = [ast.Assign(targets=[ast.Name(id=tmp, ctx=ast.Store())], value=st.value, lineno=0)] if tmp and st.value is not None else []
            # nothing follows the call in the caller: returning from the helper ends the caller too (kept explicit, so that a
            # handler / branch ending in it is not mistaken for one that falls through)
            return pre + (list(cont) if cont else [ast.Return(value=None)])
        if isinstance(st, ast.Raise):
            return [st]
        if isinstance(st, ast.If) and any(isinstance(x, ast.Return) for x in ast.walk(st)):
            return [ast.If(test=st.test, body=self._splice(list(st.body) + more, cont, tmp), orelse=self._splice(list(st.orelse) + more, cont, tmp))]
        if isinstance(st, ast.Try) and not st.orelse and not st.finalbody and not any(isinstance(x, ast.Return) for b in st.body for x in ast.walk(b)):
            # a `return` in a handler of the helper continues the caller
            hs = [ast.ExceptHandler(type=h.type, name=h.name, body=self._splice(list(h.body), cont, tmp)) for h in st.handlers]
            return [ast.Try(body=st.body, handlers=hs, orelse=[], finalbody=[])] + self._splice(more, cont, tmp)
        return [st] + self._splice(more, cont, tmp)

    def _inline(self, s, call, rest):
        f = self._find_helper(self._helper_name(call))
        params = [a for a in f.args.args if a.arg not in ("self", "cls")]
        if f.args.vararg or f.args.kwarg or f.args.kwonlyargs or f.args.posonlyargs or len(call.args) > len(params) \
                or any(isinstance(a, ast.Starred) for a in call.args) or any(k.arg is None for k in call.keywords):
            raise Unsupported(f"call of helper {f.name}: argument passing")
        given = {a.arg: v for a, v in zip(params, call.args)}
        for k in call.keywords:
            if k.arg in given or k.arg not in {a.arg for a in params}:
                raise Unsupported(f"call of helper {f.name}: keyword {k.arg}")
            given[k.arg] = k.value
        defaults = dict(zip([a.arg for a in params][len(params) - len(f.args.defaults):], f.args.defaults))
        for a in params:
            if a.arg not in given:
                if a.arg not in defaults or not isinstance(defaults[a.arg], ast.Constant):
                    raise Unsupported(f"call of helper {f.name}: no value for {a.arg}")
                given[a.arg] = defaults[a.arg]
        import copy as _copy

        stored = {n.id for n in ast.walk(f) if isinstance(n, ast.Name) and isinstance(n.ctx, ast.Store)}
        # a parameter that is never re-bound and whose argument is a constant or an attribute chain is substituted
        # (so `status.value` with status=StatusCode.X reads `StatusCode.X.value`, as it did before the extraction)
        subst = {a.arg: given[a.arg] for a in params
                 if a.arg not in stored and (isinstance(given[a.arg], (ast.Constant, ast.JoinedStr)) or (isinstance(given[a.arg], ast.Attribute) and self.dotted(given[a.arg]) is not None)
                                             or (isinstance(given[a.arg], ast.Name) and given[a.arg].id not in stored and given[a.arg].id != a.arg
                                                 and given[a.arg].id not in {p_.arg for p_ in params}))}
        binds = []
        for a, v in ((a, given[a.arg]) for a in params if a.arg not in subst):
            if isinstance(v, ast.Name) and v.id == a.arg:
                continue
            if isinstance(v, ast.Name) and any(k.startswith(v.id + ".") for k in list(self.rename) + list(self.types)):
                # an object known only through its attributes: the parameter is an alias of it
                for table in (self.rename, self.types, self.opaque):
                    for k in [k for k in table if k.startswith(v.id + ".")]:
                        table[a.arg + k[len(v.id):]] = table[k]
                continue
            binds.append(ast.Assign(targets=[ast.Name(id=a.arg, ctx=ast.Store())], value=v, lineno=0))
        import copy

        fbody = copy.deepcopy(list(f.body))
        if subst:
            class Arg(ast.NodeTransformer):
                def visit_Name(self_, node):
                    return _copy.deepcopy(subst[node.id]) if node.id in subst and isinstance(node.ctx, ast.Load) else node

            fbody = [Arg().visit(st) for st in fbody]
        # locals of the helper that would shadow a name the caller's translation already uses (a parameter of the Lean definition
        # or a renamed attribute) get a fresh name
        taken = {v for v in self.rename.values() if v.isidentifier()} | {k for k in self.types if k.isidentifier()}
        locals_ = {t.id for st in ast.walk(ast.Module(body=fbody, type_ignores=[])) if isinstance(st, (ast.Assign, ast.AnnAssign))
                   for t in (st.targets if isinstance(st, ast.Assign) else [st.target]) if isinstance(t, ast.Name)}
        clash = {n: n + "_h" for n in locals_ if n in taken and n not in {a.arg for a in params}}
        if clash:
            class Ren(ast.NodeTransformer):
                def visit_Name(self_, node):
                    return ast.copy_location(ast.Name(id=clash.get(node.id, node.id), ctx=node.ctx), node)

            fbody = [Ren().visit(st) for st in fbody]
        if isinstance(s, ast.Expr) and s.value is call:
            body = self._splice(fbody, rest, None)
        else:
            self._ntmp = getattr(self, "_ntmp", 0) + 1
            tmp = f"{f.name.strip('_')}_{self._ntmp}"
            rann = ast.unparse(f.returns) if f.returns is not None else ""
            if rann.endswith("| None") or rann.startswith("Optional[") or rann.startswith("None |"):
                self.types[tmp] = "optobj"          # the helper's result is Optional: its `return x` is `some x`, `return None` is `none`

            class Sub(ast.NodeTransformer):
                def visit_Call(self_, node):
                    return ast.Name(id=tmp, ctx=ast.Load()) if node is call else self_.generic_visit(node)

            # work on a copy: the statement may be shared by both branches of an `if` whose continuation was duplicated
            idx = next(i for i, n in enumerate(ast.walk(s)) if n is call)
            s = copy.deepcopy(s)
            call = list(ast.walk(s))[idx]
            new_s = Sub().visit(s)
            body = self._splice(fbody, [new_s] + list(rest), tmp)
        return binds + body

    # ---- private helpers of the same class / module, translated on demand ---------------------------------
    def _helper_name(self, call):
        d = self.dotted(call.func)
        if d is None:
            return None
        if d in getattr(self, "local_funcs", {}):
            return d
        name = d[5:] if d.startswith("self.") else d
        return name if name.startswith("_") and "." not in name and not name.startswith("__") else None

    def _inline_expr(self, call, name):
        """a private helper whose body is one `return <expr>`: the expression with the arguments put in place of the parameters
        (arguments that are names, attribute chains or constants only - evaluating them twice or not at all changes nothing)"""
        f = self._find_helper(name)
        if f is None or not self.spec.get("inline_exprs", True):
            return None
        body = [st for st in f.body if not (isinstance(st, ast.Expr) and isinstance(st.value, ast.Constant))]
        if len(body) != 1 or not isinstance(body[0], ast.Return) or body[0].value is None:
            return None
        params = [a.arg for a in f.args.args if a.arg not in ("self", "cls")]
        if f.args.vararg or f.args.kwarg or f.args.kwonlyargs or len(call.args) > len(params) or any(k.arg not in params for k in call.keywords):
            return None
        given = dict(zip(params, call.args))
        given.update({k.arg: k.value for k in call.keywords})
        defaults = dict(zip(params[len(params) - len(f.args.defaults):], f.args.defaults))
        for p_ in params:
            given.setdefault(p_, defaults.get(p_))
        if any(v is None or not (isinstance(v, ast.Constant) or self.dotted(v) is not None) for v in given.values()):
            return None
        import copy

        class A(ast.NodeTransformer):
            def visit_Name(self_, node):
                return copy.deepcopy(given[node.id]) if node.id in given and isinstance(node.ctx, ast.Load) else node

        if any(isinstance(x, ast.Name) and isinstance(x.ctx, ast.Store) for x in ast.walk(body[0].value)):
            return None
        return A().visit(copy.deepcopy(body[0].value))

    def _lean_helper(self, name):
        return self.spec["name"] + "_" + name.strip("_")

    def _find_helper(self, name):
        if name in getattr(self, "local_funcs", {}):
            return self.local_funcs[name]
        if not self.scope:
            return None
        module, cls = self.scope
        for holder in ([cls] if cls is not None else []) + [module]:
            for f in holder.body:
                if isinstance(f, ast.FunctionDef) and f.name == name:
                    return f
        return None

    def _ann(self, a):
        """(translator type, Lean type) of a parameter / return annotation"""
        src = ast.unparse(a) if a is not None else ""
        strl = "List Nat" if self.spec.get("str") == "nat" else "List Char"
        table = {"str": ("str", strl), "bool": ("bool", "Bool"), "str | None": ("optstr", f"Option ({strl})"), "list[str]": ("list", f"List ({strl})")}
        table.update(self.spec.get("pytypes", {}))
        if src not in table:
            raise Unsupported(f"annotation {src!r} of a helper")
        return table[src]

    def _ensure_helper(self, name) -> bool:
        """translate the private helper `name` into its own Lean definition (once); False when there is no such helper"""
        lean = self._lean_helper(name)
        if lean in self.helpers:
            return True
        f = self._find_helper(name)
        if f is None:
            return False
        params = [a for a in f.args.args if a.arg not in ("self", "cls")]
        sub = dict(self.spec)
        sub.pop("mode", None)
        sub.pop("stop_at", None)
        sub.pop("ret_types", None)
        sub["types"] = dict(self.spec.get("types", {}))
        sig = []
        for a in params:
            t, lt = self.spec.get("paramtypes", {}).get(a.arg) or self._ann(a.annotation)
            sub["types"][a.arg] = t
            sig.append(f"({a.arg} : {lt})")
        rt, rlt = self._ann(f.returns)
        sub["ret_opt"] = rt.startswith("opt")
        self.helpers[lean] = None                       # reserve (recursion guard)
        self.helper_types[name] = rt
        tr = Tr(sub)
        tr.scope = self.scope
        body = tr.block(list(f.body), "  ")
        self.helpers[lean] = f"/-- helper `{name}`, translated (simp unfolds it: the proofs do not name helpers) -/\n@[simp] def {lean} {' '.join(sig)} : {rlt} :=\n{body}\n"
        return True

    def _none_test(self, t):
        """(dotted name, is_none?) for `x is None` / `x is not None` on a name declared Optional"""
        if (isinstance(t, ast.Compare) and len(t.ops) == 1 and isinstance(t.ops[0], (ast.Is, ast.IsNot)) and isinstance(t.comparators[0], ast.Constant)
                and t.comparators[0].value is None):
            d = self.dotted(t.left)
            if d is not None and self.typ(t.left).startswith("opt"):
                return (d, t.left), isinstance(t.ops[0], ast.Is)
        return None

    def _narrow(self, dn):
        """inside the `some` branch the name stands for the value"""
        d, node = dn
        fresh = d.replace(".", "_").replace("self_", "") + "'"
        lean_old = self.raw(node)
        self.rename[d] = fresh
        self.types[d] = self.types.get(d, "opt")[3:] or "obj"
        return lean_old, fresh

    def optblock(self, stmts, ind) -> str:
        """a loop body as an expression of type Option result: `return e` is `some e`, moving on to the next element is `none`"""
        if not stmts:
            return ind + "none"
        s, rest = stmts[0], stmts[1:]
        if isinstance(s, ast.Continue):
            return ind + "none"
        if isinstance(s, ast.Return):
            return f"{ind}some {self.ret(s.value)}"
        if isinstance(s, ast.Expr) and isinstance(s.value, ast.Constant):
            return self.optblock(rest, ind)
        if isinstance(s, ast.Assign) and len(s.targets) == 1 and isinstance(s.targets[0], ast.Name):
            x = s.targets[0].id
            val = self.e(s.value)
            self.types.setdefault(x, self.typ(s.value))
            return f"{ind}let {x} := {val}\n" + self.optblock(rest, ind)
        if isinstance(s, ast.If):
            def ends(b):
                return bool(b) and isinstance(b[-1], (ast.Return, ast.Continue))
            nt = self._none_test(s.test)
            saved = (dict(self.rename), dict(self.types))
            if nt is not None and not s.orelse:
                d, is_none = nt
                if is_none and ends(s.body):
                    # `if x is None: <leave>` … rest sees the value
                    none_branch = self.optblock(list(s.body), ind + "  ")
                    old, fresh = self._narrow(d)
                    some_branch = self.optblock(rest, ind + "  ")
                    self.rename, self.types = saved
                    return f"{ind}match {old} with\n{ind}| none =>\n{none_branch}\n{ind}| some {fresh} =>\n{some_branch}"
                if not is_none:
                    # `if x is not None: body` then rest (rest does not see the narrowing)
                    none_branch = self.optblock(rest, ind + "  ")
                    old, fresh = self._narrow(d)
                    some_branch = self.optblock(list(s.body) + ([] if ends(s.body) else rest), ind + "  ")
                    self.rename, self.types = saved
                    return f"{ind}match {old} with\n{ind}| none =>\n{none_branch}\n{ind}| some {fresh} =>\n{some_branch}"
            then = list(s.body) + ([] if ends(s.body) else rest)
            orelse = list(s.orelse) + ([] if ends(s.orelse) else rest)
            return f"{ind}if {self.cond(s.test)} then\n{self.optblock(then, ind + '  ')}\n{ind}else\n{self.optblock(orelse, ind + '  ')}"
        raise Unsupported(f"loop body statement {ast.unparse(s)[:40]}")

    def _acc_name(self, body):
        names = set()
        for n in ast.walk(ast.Module(body=list(body), type_ignores=[])):
            if isinstance(n, ast.Call) and isinstance(n.func, ast.Attribute) and n.func.attr in ("append", "pop") and isinstance(n.func.value, ast.Name):
                names.add(n.func.value.id)
            elif isinstance(n, ast.Assign) and len(n.targets) == 1 and isinstance(n.targets[0], ast.Subscript) and isinstance(n.targets[0].value, ast.Name):
                names.add(n.targets[0].value.id)            # `d[k] = v`
            elif isinstance(n, ast.Assign) and len(n.targets) == 1 and isinstance(n.targets[0], ast.Tuple):
                pass                                        # `a, b = x.split(c, 1)` inside the body
            elif isinstance(n, (ast.Return, ast.Assign, ast.AugAssign, ast.Await, ast.For, ast.While, ast.Break)):
                return None
        return names.pop() if len(names) == 1 else None

    def accbody(self, stmts, acc, ind) -> str:
        """loop body as an expression yielding the new accumulator"""
        if not stmts:
            return ind + acc
        s, rest = stmts[0], stmts[1:]
        if isinstance(s, ast.Continue):
            return ind + acc
        if isinstance(s, ast.Pass) or (isinstance(s, ast.Expr) and isinstance(s.value, ast.Constant)):
            return self.accbody(rest, acc, ind)
        if isinstance(s, ast.If):
            ends = bool(s.body) and isinstance(s.body[-1], ast.Continue)
            ends_else = bool(s.orelse) and isinstance(s.orelse[-1], ast.Continue)
            then = list(s.body) + ([] if ends else rest)
            orelse = list(s.orelse) + ([] if ends_else else rest)       # if / elif / else chains as well as `if …: continue`
            return f"{ind}if {self.cond(s.test)} then\n{self.accbody(then, acc, ind + '  ')}\n{ind}else\n{self.accbody(orelse, acc, ind + '  ')}"
        if (isinstance(s, ast.Assign) and len(s.targets) == 1 and isinstance(s.targets[0], ast.Tuple) and len(s.targets[0].elts) == 2
                and isinstance(s.value, ast.Call) and isinstance(s.value.func, ast.Attribute) and s.value.func.attr == "split" and len(s.value.args) == 2
                and isinstance(s.value.args[0], ast.Constant) and len(s.value.args[0].value) == 1 and getattr(s.value.args[1], "value", None) == 1):
            a, b = (x.id for x in s.targets[0].elts)
            self.types[a] = self.types[b] = "str"
            return f"{ind}let ({a}, {b}) := Url.cutAt '{s.value.args[0].value}' {self.e(s.value.func.value)}\n" + self.accbody(rest, acc, ind)
        if isinstance(s, ast.Assign) and len(s.targets) == 1 and isinstance(s.targets[0], ast.Subscript) and ast.unparse(s.targets[0].value) == acc:
            return f"{ind}let {acc} := dictSet {acc} {self.e(s.targets[0].slice)} {self.e(s.value)}\n" + self.accbody(rest, acc, ind)
        if isinstance(s, ast.Expr) and isinstance(s.value, ast.Call) and isinstance(s.value.func, ast.Attribute) and ast.unparse(s.value.func.value) == acc:
            if s.value.func.attr == "append" and len(s.value.args) == 1:
                return f"{ind}let {acc} := {acc} ++ [{self.e(s.value.args[0])}]\n" + self.accbody(rest, acc, ind)
            if s.value.func.attr == "pop" and not s.value.args:
                return f"{ind}let {acc} := {acc}.dropLast\n" + self.accbody(rest, acc, ind)
        raise Unsupported(f"accumulator loop statement {ast.unparse(s)[:40]}")

    @staticmethod
    def _assigns_only(b):
        return all(isinstance(a, (ast.Assign, ast.AugAssign, ast.If)) for a in b)


def _header_only_response(tr, n):
    """`GeminiResponse(status=self.status, meta=self.meta, body=None, url=…)` of the client protocols' `_deliver_header_only`: the response a
    header line makes up - status and meta as parsed, NO body (the url is for the caller's bookkeeping and is not modelled)"""
    kw = {k.arg: k.value for k in n.keywords}
    if n.args or set(kw) - {"status", "meta", "body", "url"} or ast.unparse(kw.get("status", ast.Constant(0))) != "self.status" \
            or ast.unparse(kw.get("meta", ast.Constant(0))) != "self.meta" or not (isinstance(kw.get("body"), ast.Constant) and kw["body"].value is None):
        raise Unsupported("header-only response must be GeminiResponse(status=self.status, meta=self.meta, body=None, url=...)")
    return "(Cl.headerResponse s)"


def _rejection_response(tr, n):
    """`GeminiResponse(status=status, meta=meta)` of `_send_middleware_rejection`: a response without body"""
    kw = {k.arg: k.value for k in n.keywords}
    if n.args or set(kw) != {"status", "meta"}:
        raise Unsupported("rejection response must be GeminiResponse(status=..., meta=...)")
    return f"(Srv.mkResp {tr.e(kw['status'])} {tr.e(kw['meta'])})"


def _static_response(tr, n):
    """`GeminiResponse(status=…, meta=…[, body=…])` of StaticFileHandler.handle as a constructor of Fs.SResp"""
    kw = {k.arg: k.value for k in n.keywords}
    if isinstance(kw.get("body"), ast.Constant) and kw["body"].value is None:
        del kw["body"]
    if n.args or set(kw) - {"status", "meta", "body"} or "status" not in kw or "meta" not in kw:
        raise Unsupported("response construction")
    status = ast.unparse(kw["status"])
    meta = kw["meta"]
    if isinstance(meta, ast.Name) and tr.module_const(meta.id) is not None:
        meta = tr.module_const(meta.id)
    if isinstance(meta, ast.Attribute) and isinstance(meta.value, ast.Name) and meta.value.id in ("self", "cls") and tr.class_const(meta.attr) is not None:
        meta = tr.class_const(meta.attr)
    mtext = meta.value if isinstance(meta, ast.Constant) else None
    mpre = (meta.values[0].value if isinstance(meta, ast.JoinedStr) and len(meta.values) == 2 and isinstance(meta.values[0], ast.Constant)
            and isinstance(meta.values[1], ast.FormattedValue) and ast.unparse(meta.values[1].value) in ("str(e)", "e") else None)
    table = {("StatusCode.NOT_FOUND.value", "Not found"): ".notFound",
             ("StatusCode.PERMANENT_FAILURE.value", "File too large - use alternative protocol"): ".tooLarge",
             ("StatusCode.TEMPORARY_FAILURE.value", "File encoding error (not UTF-8)"): "(.tempFail .notUtf8)",
             ("StatusCode.TEMPORARY_FAILURE.value", "Permission denied"): "(.tempFail .denied)"}
    pre = {("StatusCode.TEMPORARY_FAILURE.value", "Server error: "): "(.tempFail .ioError)",
           ("StatusCode.TEMPORARY_FAILURE.value", "Error generating directory listing: "): "(.tempFail .listing)"}
    if "body" not in kw and (status, mtext) in table:
        return table[(status, mtext)]
    if "body" not in kw and (status, mpre) in pre:
        return pre[(status, mpre)]
    if status == "StatusCode.SUCCESS.value" and "body" in kw and isinstance(kw["body"], ast.Name):
        b = kw["body"].id
        if tr.types.get(b) == "content" and ast.unparse(meta) == "mime_type":
            return f"(.file {tr.e(ast.Name(id='file_path', ctx=ast.Load()))} {b})"
        if tr.types.get(b) == "listing" and ast.unparse(meta) == "MIME_TYPE_GEMTEXT":
            return f"(.listing {tr.e(ast.Name(id='file_path', ctx=ast.Load()))} {b})"
    raise Unsupported(f"response {ast.unparse(n)[:60]}")


SQL_TOFU = {
    "SELECT fingerprint FROM known_hosts WHERE hostname = ? AND port = ?": dict(fn="D.selectFp", nparams=2, params=[0, 1], ret="optobj", bind="cur"),
    "INSERT INTO known_hosts (hostname, port, fingerprint, first_seen, last_seen) VALUES (?, ?, ?, ?, ?)":
        dict(fn="D.insert", nparams=5, params=[0, 1, 2], raises=True, ret=None),
    "UPDATE known_hosts SET fingerprint = ?, last_seen = ? WHERE hostname = ? AND port = ?": dict(fn="D.updateFp", nparams=4, params=[0, 2, 3], ret=None),
    "UPDATE known_hosts SET last_seen = ? WHERE hostname = ? AND port = ?": dict(fn="D.touch", nparams=3, params=[1, 2], ret=None),
    "DELETE FROM known_hosts WHERE hostname = ? AND port = ?": dict(fn="D.delete", nparams=2, params=[0, 1], ret="num", bind="cur"),
    "DELETE FROM known_hosts WHERE hostname = ?": dict(fn="D.deleteHost", nparams=1, params=[0], ret="num", bind="cur"),
    "DELETE FROM known_hosts": dict(fn="D.deleteAll", nparams=0, params=[], ret="num", bind="cur"),
}


def _tofu_spec(name, func, header, ret_type, **kw):
    base = dict(name=name, file="security/tofu.py", cls="TOFUDatabase", func=func, mode="except", thread="w", header=header, ret_type=ret_type,
                sql=SQL_TOFU, with_ctx={"self._connection()": ("D.close", "_connection", "conn.close()")},
                world_ops={"conn.commit": dict(fn="D.commit", ret=None)},
                skip_src=("cursor = conn.cursor()", "now = "),
                funcs={"get_certificate_fingerprint": "fpOf"}, row_fields=("fingerprint",),
                opaque={"cursor.fetchone()": "cur", "cursor.rowcount": "cur"},
                types={"hostname": "num", "port": "num", "fingerprint": "num", "cert": "num", "cursor.fetchone()": "optobj", "row": "optobj",
                       "cursor.rowcount": "num", "stored_fingerprint": "num"})
    base.update(kw)
    return base


# `_parse_header` of the client protocols works on the decoded header text; the model works on the bytes it was decoded from.  What is
# ASSUMED about Python here (and nothing else): `t.split(" ", 1)` is the cut at the first space (`Cl.splitSpace`, `Cl.hasSep`);
# `len(t) == 2 and t.isascii() and t.isdigit()` holds exactly for two ASCII digits and `int(t)` is then their value (`Cl.statusOf`).
_PARSE_HEADER = dict(
    fields={"status": "status", "meta": "mta"},
    skip_src=("parts = header_line.split(' ', 1)", "status_text = parts[0]"),
    opaque={"len(parts) < 1": "false", "len(parts) > 1": "(Cl.hasSep header_line)", "len(parts) < 2": "(!Cl.hasSep header_line)",
            "parts[0]": "(Cl.splitSpace header_line).1", "parts[1]": "(Cl.splitSpace header_line).2", "status_text": "(Cl.splitSpace header_line).1",
            "len(status_text) == 2 and status_text.isascii() and status_text.isdigit()": "(Cl.twoDigits (Cl.splitSpace header_line).1)",
            "int(status_text)": "(Cl.intOf (Cl.splitSpace header_line).1)", "''": "([] : List Nat)",
            "'\\r' in meta_": "(meta_.contains 13)", "'\\n' in meta_": "(meta_.contains 10)",
            "10 <= self.status < 70": "(decide (10 ≤ Cl.intOf (Cl.splitSpace header_line).1) && decide (Cl.intOf (Cl.splitSpace header_line).1 < 70))"},
    types={"len(parts) < 1": "bool", "len(parts) > 1": "bool", "len(parts) < 2": "bool", "parts[0]": "str", "parts[1]": "str", "status_text": "str", "meta_": "str",
           "len(status_text) == 2 and status_text.isascii() and status_text.isdigit()": "bool", "int(status_text)": "num", "''": "str",
           "'\\r' in meta_": "bool", "'\\n' in meta_": "bool", "10 <= self.status < 70": "bool", "self.status": "optnum", "self.meta": "str", "header_line": "str"},
    errors={"Invalid response header: missing status": "\"badStatus\"", "Invalid status code": "\"badStatus\"", "Invalid response header": "\"badHeader\"",
            "Status code out of range": "\"statusRange\""},
    pytypes={"str": ("str", "List Nat")}, rename_reserved=True,
    world_ops={"self._set_error": dict(fn="Cl.setError", ret=None, error_arg=True)})


SPECS = [
    dict(name="consume", file="server/middleware.py", cls="TokenBucket", func="consume", state="s", numbers="Rat",
         header="def consume (s : BucketSt) (now tokens : Rat) : BucketSt × Bool :=",
         opaque={"time.monotonic()": "now"}, types={"tokens": "num"}),
    dict(name="isAllowed", file="server/middleware.py", cls="AccessControl", func="_is_allowed",
         header="def isAllowed (deny_networks allow_networks : List Mw.Net) (default_allow : Bool) (addr : Option Mw.Addr) : Bool :=",
         opaque={"ip_address(ip)": "addr"},
         rename={"self.deny_networks": "deny_networks", "self.allow_networks": "allow_networks", "self.config.default_allow": "default_allow"},
         types={"self.allow_networks": "list", "self.deny_networks": "list"}),
    dict(name="chain", file="server/middleware.py", cls="MiddlewareChain", func="process_request",
         header="def chain (results : List (Bool × Option (List Char))) : Bool × Option (List Char) :=",
         rename={"self.middlewares": "results"}, types={"self.middlewares": "list"}),
    dict(name="upstreamUrl", file="server/proxy.py", cls="ProxyHandler", func="_handle_async",
         header="def upstreamUrl (strip_prefix : Bool) (pre upstream path0 query : List Char) : List Char :=",
         rename={"self.strip_prefix": "strip_prefix", "self.prefix": "pre", "self.upstream": "upstream", "request.path": "path0", "request.query": "query"},
         types={"self.prefix": "str", "self.upstream": "str", "request.path": "str", "request.query": "str", "path": "str", "remaining": "str", "upstream_url": "str",
                "self.strip_prefix": "bool", "prefix_ends_with_slash": "bool", "is_valid_match": "bool"},
         stop_at=(ast.Try, "upstream_url"), stop_src=(("self._client.get(", "(upstream_url)"), "upstream_url")),
    dict(name="canonicalPath", file="utils/url.py", cls=None, func="canonical_path", str="nat",
         header="def canonicalPath (decoded : List Nat) (parts : List (List Nat)) : List Nat :=",
         opaque={"unquote(path)": "decoded", "decoded.split('/')": "parts"},
         types={"decoded": "str", "parts": "list", "segments": "list", "part": "str", "canonical": "str"}),
    dict(name="findRule", file="server/middleware.py", cls="CertificateAuth", func="_find_matching_rule", str="nat",
         header="def findRule (rules : List Mw.Cert.Rule) (path : List Nat) : Option Mw.Cert.Rule :=",
         rename={"self.config.path_rules": "rules"}, attrs={"prefix": "pre"}, ret_opt=True,
         types={"self.config.path_rules": "list", "path": "str", "rule.prefix": "str"}),
    dict(name="certProcess", file="server/middleware.py", cls="CertificateAuth", func="process_request", str="nat",
         header=("def certProcess (find : List Nat → Option Mw.Cert.Rule) (path0 : List Nat) (client_cert_fingerprint : Option Mw.Cert.Fp) :\n"
                 "    Bool × Option (List Nat) :="),
         opaque={"self._extract_path(request_url)": "path0"},
         funcs={"self._find_matching_rule": "find"},
         attrs={"require_cert": "requireCert", "allowed_fingerprints": "allowed"},
         pytypes={"CertificateAuthPathRule": ("obj", "Mw.Cert.Rule"), "str | None": ("optstr", "Option (List Nat)")},
         paramtypes={"client_cert_fingerprint": ("optfp", "Option Mw.Cert.Fp")},
         ret_types=["bool", "optstr"],
         types={"path": "str", "candidates": "list", "candidate": "str", "rule": "optobj", "self._find_matching_rule(candidate)": "optobj",
                "client_cert_fingerprint": "optfp", "rule.allowed_fingerprints": "optlist", "rule.require_cert": "bool"}),
    dict(name="titanParams", file="protocol/request.py", cls=None, func="_parse_titan_params", strip="Srv.stripWs", splitall="Srv.splitAll",
         header="def titanParams (params_str : List Char) : Dict :=",
         types={"params_str": "str", "params": "dict", "part": "str", "key": "str", "value": "str"}),
    dict(name="titanFromLine", file="protocol/request.py", cls="TitanRequest", func="from_line", mode="except",
         header=("def titanFromLine (paramsOf : List Char → Dict) (parse : List Char → Except Url.Err Url.Parsed) (line : List Char) :\n"
                 "    Except TErr TitanReq :="),
         funcs={"_parse_titan_params": "paramsOf"}, optfuncs={"int": "Srv.pyInt"}, raising_funcs={"parse_url": ("parse", "TErr.url")},
         ctors={"ParsedURL": ("Url.Parsed", {"hostname": "host", "port": "port", "path": "path", "query": "query", "normalized": "normalized"},
                              {"scheme": "'titan'", "fragment": "parsed.fragment"}),
                "cls": ("TitanReq", {"raw_url": "raw", "parsed_url": "parsed", "size": "size", "mime_type": "mime", "token": "token"}, {})},
         attrs={"hostname": "host"}, replace_ctor="ParsedURL",
         errors={"Titan URL must start with": ".notTitan", "Titan URL must contain parameters": ".noParams", "Titan URL must contain size": ".noSize",
                 "Invalid size parameter": ".badSize", "Size must be non-negative": ".negSize"},
         types={"line": "str", "url_part": "str", "params_str": "str", "params": "dict", "_parse_titan_params(params_str)": "dict", "size": "num", "gemini_url": "str",
                "parsed": "obj", "parsed.hostname": "str", "parsed.path": "str", "parsed.query": "str", "parsed.normalized": "str", "parsed.port": "num"}),
    dict(name="uploadGate", file="server/handler.py", cls="FileUploadHandler", func="handle_upload", str="string", ret_opt=True, hoist_tests=True,
         header=("def uploadGate (auth_tokens : List String) (max_size : Nat) (allowed_types : Option (List String)) (token : Option String)\n"
                 "    (size : Nat) (mime_type : String) : Option Nat :="),
         opaque={"isinstance(request, TitanRequest)": "true"},
         rename={"self.auth_tokens": "auth_tokens", "self.max_size": "max_size", "self.allowed_types": "allowed_types", "request.token": "token",
                 "request.size": "size", "request.mime_type": "mime_type", "StatusCode.BAD_REQUEST.value": "59", "StatusCode.CLIENT_CERT_REQUIRED.value": "60",
                 "StatusCode.PERMANENT_FAILURE.value": "50"},
         ctors={"GeminiResponse": (None, {"status": "status"}, {}, ("meta", "body"))},
         stop_src=("request.is_delete()", "None"),
         types={"self.auth_tokens": "list", "self.allowed_types": "optlist", "request.token": "optstr", "request.mime_type": "str", "request.size": "num", "self.max_size": "num"}),
    dict(name="followRedirects", file="client/session.py", cls="GeminiClient", func="_get_with_redirects", mode="except", fuel="(w, .error .fuel)", thread="w",
         header=("def followRedirects {W : Type} (fetch : W → List Char → W × Option Cl.Resp) (fuel : Nat) (w : W) (url : List Char) (max_redirects : Nat)\n"
                 "    (redirect_chain : List (List Char)) : W × Except Cl.RErr Cl.Resp :="),
         skip_src=("if redirect_chain is None",),
         opt_raising_funcs={"self._get_single": ("fetch", ".fetchErr")},
         funcs={"is_redirect": "Cl.isRedirectStatus"},
         attrs={"redirect_url": "redirectUrl"},
         recursive=("self._get_with_redirects", ["url", "max_redirects", "redirect_chain"], "followRedirects fetch fuel"),
         errors={"Redirect loop detected": ".loop", "Maximum redirects": ".tooMany", "Redirect response missing URL": ".missing"},
         types={"url": "str", "redirect_chain": "list", "max_redirects": "num", "response": "obj", "response.status": "num", "response.redirect_url": "optstr",
                "redirect_url": "optstr", "response.meta": "str"}),
    dict(name="getSingleTail", file="client/session.py", cls="GeminiClient", func="_get_single", mode="except", thread="w", start="last_try",
         header=("def getSingleTail {W C R : Type} (E : Cl.TofuEnv W C R) (tofu : Bool) (host port : Nat) (w : W) : W × Except Cl.CErr R :="), ret_type="W × Except Cl.CErr R",
         rename={"self.tofu_db": "tofu", "parsed.hostname": "host", "parsed.port": "port"},
         types={"self.tofu_db": "bool", "parsed.hostname": "num", "parsed.port": "num", "is_valid": "bool", "message": "str"},
         truthy_objs=("cert",),
         world_ops={
             "protocol.get_peer_certificate": dict(fn="E.peerCert", ret="optobj"),
             "self.tofu_db.verify": dict(fn="E.verify", raises=True, ret=("bool", "str")),
             "self.tofu_db.get_host_info": dict(fn="E.hostInfo", raises=True, ret="optobj"),
             "self.tofu_db.trust": dict(fn="E.trust", raises=True, ret=None),
             "protocol.send_request": dict(fn="E.sendRequest", ret=None),
             "asyncio.wait_for": dict(fn="E.awaitResponse", raises=True, ret="obj", args=False, src="asyncio.wait_for(response_future, timeout=self.timeout)"),
             "transport.close": dict(fn="E.close", ret=None),
         },
         opaque={"old_info['fingerprint'] if old_info else 'unknown'": "old_info"},
         funcs={"get_certificate_fingerprint": "E.fp"},
         error_classes=("ConnectionError", "TimeoutError"),
         errors={"Peer certificate of ": ".unreadable", "Request timeout": ".timeout"},
         error_ctors={"CertificateChangedError": (".changed", [2, 3])},
         exc_patterns={"TimeoutError": ".timeout"}, assert_error=".assertion", ctx_finally=True, aliases_of_self=True),
    dict(name="uploadTail", file="client/session.py", cls="GeminiClient", func="upload", mode="except", thread="w", start="last_try",
         header=("def uploadTail {W C R : Type} (E : Cl.TofuEnv W C R) (tofu : Bool) (host port : Nat) (w : W) : W × Except Cl.CErr R :="), ret_type="W × Except Cl.CErr R",
         rename={"self.tofu_db": "tofu", "parsed.hostname": "host", "parsed.port": "port"},
         types={"self.tofu_db": "bool", "parsed.hostname": "num", "parsed.port": "num", "is_valid": "bool", "message": "str"},
         truthy_objs=("cert",),
         world_ops={
             "protocol.get_peer_certificate": dict(fn="E.peerCert", ret="optobj"),
             "self.tofu_db.verify": dict(fn="E.verify", raises=True, ret=("bool", "str")),
             "self.tofu_db.get_host_info": dict(fn="E.hostInfo", raises=True, ret="optobj"),
             "self.tofu_db.trust": dict(fn="E.trust", raises=True, ret=None),
             "protocol.send_request": dict(fn="E.sendRequest", ret=None),
             "asyncio.wait_for": dict(fn="E.awaitResponse", raises=True, ret="obj", args=False, src="asyncio.wait_for(response_future, timeout=self.timeout)"),
             "transport.close": dict(fn="E.close", ret=None),
         },
         opaque={"old_info['fingerprint'] if old_info else 'unknown'": "old_info"},
         funcs={"get_certificate_fingerprint": "E.fp"},
         error_classes=("ConnectionError", "TimeoutError"),
         errors={"Peer certificate of ": ".unreadable", "Upload timeout": ".timeout"},
         error_ctors={"CertificateChangedError": (".changed", [2, 3])},
         exc_patterns={"TimeoutError": ".timeout"}, assert_error=".assertion", ctx_finally=True, aliases_of_self=True),
    _tofu_spec("tofuVerify", "verify", "def tofuVerify {W H : Type} (D : Misc.SqlEnv W H) (fpOf : Nat → Nat) (w : W) (hostname : H) (port cert : Nat) : W × Except Misc.DbErr (Bool × List Char) :=",
               "W × Except Misc.DbErr (Bool × List Char)"),
    _tofu_spec("tofuTrust", "trust", "def tofuTrust {W H : Type} (D : Misc.SqlEnv W H) (fpOf : Nat → Nat) (w : W) (hostname : H) (port cert : Nat) : W × Except Misc.DbErr Unit :=",
               "W × Except Misc.DbErr Unit", implicit_return=True),
    _tofu_spec("tofuRevoke", "revoke", "def tofuRevoke {W H : Type} (D : Misc.SqlEnv W H) (w : W) (hostname : H) (port : Nat) : W × Except Misc.DbErr Bool :=", "W × Except Misc.DbErr Bool"),
    _tofu_spec("tofuRevokeHost", "revoke_by_hostname", "def tofuRevokeHost {W H : Type} (D : Misc.SqlEnv W H) (w : W) (hostname : H) : W × Except Misc.DbErr Nat :=", "W × Except Misc.DbErr Nat"),
    _tofu_spec("tofuClear", "clear", "def tofuClear {W H : Type} (D : Misc.SqlEnv W H) (w : W) : W × Except Misc.DbErr Nat :=", "W × Except Misc.DbErr Nat"),
    dict(name="dataReceived", file="server/protocol.py", cls="GeminiServerProtocol", func="data_received", state="s", thread="s", implicit_return=True,
         header="def dataReceived (E : Srv.DrEnv) (s : Srv.PState) (data : List Nat) : Srv.PState × Unit :=",
         inline_try=True, try_except=True, slices=True, aliases=True, decode_utf8="Srv.decodeUtf8E",
         raising_calls={"TitanRequest.from_line": ("E.titanFromLine", "ValueError", "obj")},
         contains_names={"CRLF": "Srv.hasCRLF"}, split_names={"CRLF": "Srv.cutCRLF"},
         rename={"MAX_REQUEST_SIZE": "Srv.maxRequest", "self.titan_request.size": "(Srv.PState.titanSize s)", "self.upload_handler": "E.upload",
                 "StatusCode.BAD_REQUEST": "59", "StatusCode.PERMANENT_FAILURE": "50"},
         types={"self.buffer": "str", "data": "str", "self.url_line_received": "bool", "self._request_dispatched": "bool", "self._response_sent": "bool",
                "self.awaiting_titan_content": "bool", "self.titan_request": "optobj", "self.timeout_handle": "bool", "self.titan_request.size": "num",
                "self.upload_handler": "bool", "MAX_REQUEST_SIZE": "num", "url": "str", "url_line": "str", "remaining": "str", "client_cert": "bool", "client_cert_h": "bool"},
         truthy_objs=("self.titan_request",),
         opaque={"self.titan_request.is_delete()": "(Srv.PState.isDelete s)", "self.get_peer_certificate()": "E.peerCert"},
         funcs={"get_certificate_fingerprint": "Srv.fpStub"},
         assign_map={"self.titan_request.content": ("Srv.PState.setContent", True), "self.titan_request.client_cert": ("Srv.PState.noteCert", False),
                     "self.titan_request.client_cert_fingerprint": ("Srv.PState.noteCert", False)},
         world_ops={"self._send_error_response": dict(fn="E.sendError", ret=None), "self._handle_gemini_request": dict(fn="E.geminiRequest", ret=None),
                    "self._process_titan_upload": dict(fn="E.processUpload", ret=None), "self.timeout_handle.cancel": dict(fn="Srv.PState.cancelTimer", ret=None)}),
    dict(name="clientDataReceived", file="client/protocol.py", cls="GeminiClientProtocol", func="data_received", mode="except", state="s", thread="s",
         implicit_return=True, header="def clientDataReceived (env : Cl.Env) (s : Cl.CSt) (data : List Nat) : Cl.CSt × Except Unit Unit :=",
         ret_type="Cl.CSt × Except Unit Unit",
         fields={"buffer": "buf", "header_received": "headerReceived"},
         contains_names={"CRLF": "Cl.hasCRLF"}, split_names={"CRLF": "Cl.cutCRLF"},
         rename={"MAX_RESPONSE_HEADER_SIZE": "(Cl.maxHeader : Int)", "MAX_RESPONSE_BODY_SIZE": "Cl.maxBody", "self.transport": "true", "CRLF": "Cl.crlf"},
         types={"self.buffer": "str", "data": "str", "self.header_received": "bool", "self.status": "optnum", "header_end": "int", "header_line": "str", "body": "str",
                "self.transport": "bool", "MAX_RESPONSE_HEADER_SIZE": "num", "MAX_RESPONSE_BODY_SIZE": "num"},
         find_names={"CRLF": "Cl.findInt"}, hoist_tests=True, pytypes={"bytes": ("str", "List Nat")}, slices=True,
         raising={"header_line.decode('utf-8')": ("Cl.decodeE env header_line", "text")},
         error_classes=("ValueError", "Exception"),
         errors={"Response header too long": "\"headerTooLong\"", "Response body exceeds maximum size": "\"tooBig\""},
         world_ops={"self._set_error": dict(fn="Cl.setError", ret=None, error_arg=True), "self.transport.close": dict(fn="Cl.closeTransport", ret=None),
                    "self._parse_header": dict(fn="Cl.parseHeader", ret=None),
                    "self._deliver_header_only": dict(fn="Cl.deliverHeader", ret=None)}),
    dict(name="deliverHeaderOnly", file="client/protocol.py", cls="GeminiClientProtocol", func="_deliver_header_only", state="s", thread="s", implicit_return=True,
         header="def deliverHeaderOnly (s : Cl.CSt) : Cl.CSt × Unit :=", state_type="Cl.CSt",
         opaque={"self.response_future.done()": "(s.fut != .pending)"}, types={"self.response_future.done()": "bool"},
         call_hooks={"GeminiResponse": _header_only_response},
         world_ops={"self.response_future.set_result": dict(fn="Cl.setResult", ret=None)}),
    dict(name="titanDeliverHeaderOnly", file="client/protocol.py", cls="TitanClientProtocol", func="_deliver_header_only", state="s", thread="s", implicit_return=True,
         header="def titanDeliverHeaderOnly (s : Cl.CSt) : Cl.CSt × Unit :=", state_type="Cl.CSt",
         opaque={"self.response_future.done()": "(s.fut != .pending)"}, types={"self.response_future.done()": "bool"},
         call_hooks={"GeminiResponse": _header_only_response},
         world_ops={"self.response_future.set_result": dict(fn="Cl.setResult", ret=None)}),
    dict(name="clientParseHeader", file="client/protocol.py", cls="GeminiClientProtocol", func="_parse_header", state="s", thread="s", implicit_return=True,
         header="def clientParseHeader (s : Cl.CSt) (header_line : List Nat) : Cl.CSt × Unit :=", state_type="Cl.CSt", **_PARSE_HEADER),
    dict(name="titanClientParseHeader", file="client/protocol.py", cls="TitanClientProtocol", func="_parse_header", state="s", thread="s", implicit_return=True,
         header="def titanClientParseHeader (s : Cl.CSt) (header_line : List Nat) : Cl.CSt × Unit :=", state_type="Cl.CSt", **_PARSE_HEADER),
    dict(name="titanClientDataReceived", file="client/protocol.py", cls="TitanClientProtocol", func="data_received", mode="except", state="s", thread="s",
         implicit_return=True, header="def titanClientDataReceived (env : Cl.Env) (s : Cl.CSt) (data : List Nat) : Cl.CSt × Except Unit Unit :=",
         ret_type="Cl.CSt × Except Unit Unit",
         fields={"buffer": "buf", "header_received": "headerReceived"},
         contains_names={"CRLF": "Cl.hasCRLF"}, split_names={"CRLF": "Cl.cutCRLF"},
         rename={"MAX_RESPONSE_HEADER_SIZE": "(Cl.maxHeader : Int)", "MAX_RESPONSE_BODY_SIZE": "Cl.maxBody", "self.transport": "true", "CRLF": "Cl.crlf"},
         types={"self.buffer": "str", "data": "str", "self.header_received": "bool", "self.status": "optnum", "header_end": "int", "header_line": "str", "body": "str",
                "self.transport": "bool", "MAX_RESPONSE_HEADER_SIZE": "num", "MAX_RESPONSE_BODY_SIZE": "num"},
         find_names={"CRLF": "Cl.findInt"}, hoist_tests=True, pytypes={"bytes": ("str", "List Nat")}, slices=True,
         raising={"header_line.decode('utf-8')": ("Cl.decodeE env header_line", "text")},
         error_classes=("ValueError", "Exception"),
         errors={"Response header too long": "\"headerTooLong\"", "Response body exceeds maximum size": "\"tooBig\""},
         world_ops={"self._set_error": dict(fn="Cl.setError", ret=None, error_arg=True), "self.transport.close": dict(fn="Cl.closeTransport", ret=None),
                    "self._parse_header": dict(fn="Cl.parseHeader", ret=None),
                    "self._deliver_header_only": dict(fn="Cl.deliverHeader", ret=None)}),
    dict(name="handleGeminiRequest", file="server/protocol.py", cls="GeminiServerProtocol", func="_handle_gemini_request", state="s", thread="s", implicit_return=True,
         header="def handleGeminiRequest (E : Srv.DispEnv) (s : Srv.PState) (url : List Char) : Srv.PState × Unit :=", state_type="Srv.PState",
         try_except=True, decode_utf8="-", raising_calls={"GeminiRequest.from_line": ("E.geminiFromLine", "ValueError", "obj")},
         # `asyncio.create_task` raises RuntimeError only without a running loop; protocol callbacks run inside the loop
         quiet_try=("RuntimeError",),
         skip_src=("client_cert = ", "client_cert_fingerprint", "if client_cert:", "request.client_cert", "client_ip = ", "task.add_done_callback("),
         rename={"self.middleware": "E.mw", "StatusCode.BAD_REQUEST": "59"},
         types={"self.middleware": "bool", "self._request_dispatched": "bool", "url": "str", "e": "str"},
         funcs={"str": ""},
         world_ops={"self._send_error_response": dict(fn="E.sendError", ret=None), "self._route_request": dict(fn="E.route", ret=None, args=False),
                    "asyncio.create_task": dict(fn="E.startMwG", ret="obj", args=False)}),
    dict(name="processTitanUpload", file="server/protocol.py", cls="GeminiServerProtocol", func="_process_titan_upload", state="s", thread="s", implicit_return=True,
         header="def processTitanUpload (E : Srv.DispEnv) (s : Srv.PState) : Srv.PState × Unit :=", state_type="Srv.PState",
         quiet_try=("RuntimeError",),
         skip_src=("client_ip = ", "request = self.titan_request", "task.add_done_callback("),
         rename={"self.middleware": "E.mw", "self.upload_handler": "E.upload", "StatusCode.TEMPORARY_FAILURE": "40"},
         types={"self.middleware": "bool", "self.upload_handler": "bool", "self._request_dispatched": "bool", "self.awaiting_titan_content": "bool",
                "self.titan_request": "optobj"},
         truthy_objs=("self.titan_request",),
         world_ops={"self._send_error_response": dict(fn="E.sendError", ret=None), "self._start_titan_upload": dict(fn="E.startUpload", ret=None, args=False),
                    "asyncio.create_task": dict(fn="E.startMwT", ret="obj", args=False)}),
    dict(name="sendMwRejection", file="server/protocol.py", cls="GeminiServerProtocol", func="_send_middleware_rejection", state="s", thread="s", implicit_return=True,
         header="def sendMwRejection (E : Srv.RejEnv) (error_response : Option (List Char)) (s : Srv.PState) : Srv.PState × Unit :=", state_type="Srv.PState",
         # assumed about Python and nothing else: str.removesuffix / str.partition(" ") (`Srv.dropCRLF`, `Srv.part`), and `len(t) == 2 and t.isascii() and
         # t.isdigit()` / `int(t)` on the status token (`Srv.twoDigits`, `Srv.intOf`)
         skip_src=("code, _, text = line.partition(' ')",), rename_reserved=True,
         opaque={"isinstance(error_response, str)": "error_response.isSome",
                 "error_response.removesuffix('\\r\\n')": "(Srv.dropCRLF (error_response.getD []))",
                 "code": "(Srv.part line).1", "text": "(Srv.part line).2",
                 "len(code) == 2 and code.isascii() and code.isdigit()": "(Srv.twoDigits (Srv.part line).1)",
                 "int(code)": "(Srv.intOf (Srv.part line).1)",
                 "20 <= int(code) <= 29": "(decide (20 ≤ Srv.intOf (Srv.part line).1) && decide (Srv.intOf (Srv.part line).1 ≤ 29))",
                 "StatusCode.TEMPORARY_FAILURE.value": "40", "'Request refused'": "Srv.refusedText"},
         types={"isinstance(error_response, str)": "bool", "error_response.removesuffix('\\r\\n')": "str", "code": "str", "text": "str", "line": "str",
                "len(code) == 2 and code.isascii() and code.isdigit()": "bool", "int(code)": "num", "20 <= int(code) <= 29": "bool",
                "StatusCode.TEMPORARY_FAILURE.value": "num", "'Request refused'": "str", "status": "num", "meta_": "str", "error_response": "optstr"},
         call_hooks={"GeminiResponse": _rejection_response},
         world_ops={"self._send_response": dict(fn="E.sendResponse", ret=None)}),
    dict(name="handleMwResult", file="server/protocol.py", cls="GeminiServerProtocol", func="_handle_middleware_result", state="s", thread="s", implicit_return=True,
         header="def handleMwResult (E : Srv.MwEnv) (titan : Bool) (s : Srv.PState) : Srv.PState × Unit :=", state_type="Srv.PState",
         try_calls={"result": dict(fn="E.taskResult", nargs=0, handlers=[(("Exception", "asyncio.CancelledError"), ".error _")], rtype=("bool", "optstr"))},
         try_rest_any=True,
         opaque={"isinstance(request, TitanRequest)": "titan"}, types={"isinstance(request, TitanRequest)": "bool"},
         rename={"StatusCode.TEMPORARY_FAILURE": "40"},
         world_ops={"self._send_error_response": dict(fn="E.sendError", ret=None), "self._route_request": dict(fn="E.route", ret=None, args=False),
                    "self._start_titan_upload": dict(fn="E.startUpload", ret=None, args=False),
                    "self._send_middleware_rejection": dict(fn="E.reject", ret=None, raw_args=True)}),
    dict(name="handleHandlerResult", file="server/protocol.py", cls="GeminiServerProtocol", func="_handle_async_handler_result", state="s", thread="s", implicit_return=True,
         header="def handleHandlerResult (E : Srv.ResEnv) (s : Srv.PState) : Srv.PState × Unit :=", state_type="Srv.PState",
         try_calls={"result": dict(fn="E.taskResult", nargs=0, handlers=[(("Exception", "asyncio.CancelledError"), ".error e")], rtype="obj")},
         try_rest_any=True, skip_src=("if not response.url",),
         rename={"StatusCode.TEMPORARY_FAILURE": "40"}, opaque={"str(e)": "e"}, types={"e": "str", "str(e)": "str"},
         world_ops={"self._send_error_response": dict(fn="E.sendError", ret=None), "self._send_response": dict(fn="E.sendResponse", ret=None)}),
    dict(name="handleUploadResult", file="server/protocol.py", cls="GeminiServerProtocol", func="_handle_titan_upload_result", state="s", thread="s", implicit_return=True,
         header="def handleUploadResult (E : Srv.ResEnv) (s : Srv.PState) : Srv.PState × Unit :=", state_type="Srv.PState",
         try_calls={"result": dict(fn="E.taskResult", nargs=0, handlers=[(("Exception", "asyncio.CancelledError"), ".error e")], rtype="obj")},
         try_rest_any=True, skip_src=("if not response.url",),
         rename={"StatusCode.TEMPORARY_FAILURE": "40"}, opaque={"str(e)": "e"}, types={"e": "str", "str(e)": "str"},
         world_ops={"self._send_error_response": dict(fn="E.sendError", ret=None), "self._send_response": dict(fn="E.sendResponse", ret=None)}),
    dict(name="pumpResponse", file="server/protocol.py", cls="GeminiServerProtocol", func="_pump_response", state="s", thread="s", implicit_return=True,
         header="def pumpResponse (s : Srv.Flow.FSt) : Srv.Flow.FSt × Unit :=", state_type="Srv.Flow.FSt",
         loops=("", "", "s.unsent.length"),
         fields={"_unsent": "unsent", "_write_paused": "paused", "_response_sent": "started"},
         rename={"self.transport": "(!s.lost)"},
         types={"self._unsent": "list", "self._write_paused": "bool", "self._response_sent": "bool", "self.transport": "bool"},
         world_ops={"self.transport.write": dict(fn="Srv.Flow.pyWrite", ret=None, pop0=True), "self.transport.close": dict(fn="Srv.Flow.pyClose", ret=None)}),
    dict(name="resumeWriting", file="server/protocol.py", cls="GeminiServerProtocol", func="resume_writing", state="s", thread="s", implicit_return=True,
         header="def resumeWriting (s : Srv.Flow.FSt) : Srv.Flow.FSt × Unit :=", state_type="Srv.Flow.FSt",
         fields={"_unsent": "unsent", "_write_paused": "paused", "_response_sent": "started"},
         types={"self._unsent": "list", "self._write_paused": "bool", "self._response_sent": "bool"},
         world_ops={"self._pump_response": dict(fn="(fun s => (pumpResponse s).1)", ret=None)}),
    dict(name="connectionLost", file="server/protocol.py", cls="GeminiServerProtocol", func="connection_lost", state="s", thread="s", implicit_return=True,
         header="def connectionLost (s : Srv.Flow.FSt) : Srv.Flow.FSt × Unit :=", state_type="Srv.Flow.FSt",
         fields={"timeout_handle": "timer"}, truthy_objs=("self.timeout_handle",),
         types={"self.timeout_handle": "optobj"},
         assign_map={"self.transport": ("Srv.Flow.pyLost", False)},
         world_ops={"self.timeout_handle.cancel": dict(fn="Srv.Flow.pyCancel", ret=None)}),
    dict(name="sendResponse", file="server/protocol.py", cls="GeminiServerProtocol", func="_send_response", state="s", thread="s", implicit_return=True,
         header="def sendResponse (r : Srv.Resp) (s : Srv.Flow.FSt) : Srv.Flow.FSt × Unit :=", state_type="Srv.Flow.FSt",
         fields={"_unsent": "unsent", "_write_paused": "paused", "_response_sent": "started", "timeout_handle": "timer"},
         truthy_objs=("self.timeout_handle",), rename={"self.transport": "(!s.lost)", "WRITE_CHUNK_SIZE": "Srv.Flow.writeChunk"},
         types={"self._unsent": "list", "self._write_paused": "bool", "self._response_sent": "bool", "self.transport": "bool", "self.timeout_handle": "optobj",
                "WRITE_CHUNK_SIZE": "num"},
         # the response object's attributes are read into locals first (getattr with a default: an object without them is rendered as the
         # model renders an invalid status); the model's `r` stands for that triple
         opaque={"_encode_response(response.status, response.meta, response.body)": "(Srv.render r)", "_encode_response(status, meta, payload)": "(Srv.render r)"},
         tuple_types={"_encode_response(response.status, response.meta, response.body)": ("str", "str"), "_encode_response(status, meta, payload)": ("str", "str")},
         skip_src=("duration_ms = 0.0", "if self.request_start_time:", "status = getattr(response, 'status', None)", "meta = getattr(response, 'meta', None)",
                   "payload = getattr(response, 'body', None)", "url = getattr(response, 'url', None)"),
         assign_map={"self._unsent": ("Srv.Flow.pySetUnsent", True)}, chunks_fn="Srv.Flow.chunk",
         pytypes={"bytes": ("str", "List Nat"), "list[bytes]": ("list", "List (List Nat)")},
         world_ops={"self.timeout_handle.cancel": dict(fn="Srv.Flow.pyCancel", ret=None), "self._pump_response": dict(fn="(fun s => (pumpResponse s).1)", ret=None)}),
    dict(name="pauseWriting", file="server/protocol.py", cls="GeminiServerProtocol", func="pause_writing", state="s", thread="s", implicit_return=True,
         header="def pauseWriting (s : Srv.Flow.FSt) : Srv.Flow.FSt × Unit :=", state_type="Srv.Flow.FSt",
         fields={"_unsent": "unsent", "_write_paused": "paused", "_response_sent": "started"},
         types={"self._write_paused": "bool"}),
    dict(name="aclProcessRequest", file="server/middleware.py", cls="AccessControl", func="process_request", str="nat",
         header="def aclProcessRequest (isAllowed : Bool) : Bool × Option (List Nat) :=",
         opaque={"self._is_allowed(client_ip)": "isAllowed"}, ret_types=["bool", "optstr"],
         types={"self._is_allowed(client_ip)": "bool", "response": "str"}),
    dict(name="bucketInit", file="server/middleware.py", cls="TokenBucket", func="__init__", state="s", numbers="Rat", implicit_return=True,
         header="def bucketInit (s : BucketSt) (now capacity refill_rate : Rat) : BucketSt × Unit :=",
         opaque={"time.monotonic()": "now", "float(capacity)": "capacity"}, types={"capacity": "num", "refill_rate": "num"}),
    dict(name="limiterRequest", file="server/middleware.py", cls="RateLimiter", func="process_request", thread="w", str="nat", numfmt="Mw.intDigits",
         header=("def limiterRequest (capacity refill_rate : Rat) (retry_after : Int) (now : Rat) (w : Mw.PyStore) (client_ip : Nat) :\n"
                 "    Mw.PyStore × (Bool × Option (List Nat)) :="),
         store_idiom=("self.buckets", "TokenBucket", "consume"),
         ret_types=["bool", "optstr"],
         rename={"self.config.capacity": "capacity", "self.config.refill_rate": "refill_rate", "self.config.retry_after": "retry_after"},
         opaque={"self._store_has(client_ip)": "(Mw.pyHas w client_ip)"},
         world_ops={"self._store_put": dict(fn="Mw.pyPut now", ret=None), "self._store_at": dict(fn="Mw.pyConsumeAt now", ret="bool")},
         types={"self.config.capacity": "num", "self.config.refill_rate": "num", "self.config.retry_after": "num", "retry_after": "num", "response": "str",
                "self._store_has(client_ip)": "bool"}),
    dict(name="evictable", file="server/middleware.py", cls="RateLimiter", func="_cleanup_loop", numbers="Rat",
         header="def evictable (bucket : BucketSt) (now : Rat) : Bool :=",
         comp_cond=("(ip, bucket)", "self.buckets.items()"), opaque={"time.monotonic()": "now"},
         types={"bucket": "obj", "now": "num", "bucket.last_update": "num", "bucket.tokens": "num", "bucket.refill_rate": "num", "bucket.capacity": "num"}),
    # the status-class predicates and the response accessor that the client translations (followRedirects, clientParseHeader) took as given
    dict(name="isRedirect", file="protocol/status.py", cls=None, func="is_redirect",
         header="def isRedirect (status : Nat) : Bool :=", types={"status": "num"}),
    dict(name="isSuccess", file="protocol/status.py", cls=None, func="is_success",
         header="def isSuccess (status : Nat) : Bool :=", types={"status": "num"}),
    dict(name="respIsRedirect", file="protocol/response.py", cls="GeminiResponse", func="is_redirect",
         header="def respIsRedirect (isRedirect : Nat → Bool) (status : Nat) : Bool :=",
         rename={"self.status": "status"}, funcs={"is_redirect": "isRedirect"}, types={"self.status": "num"}),
    dict(name="respRedirectUrl", file="protocol/response.py", cls="GeminiResponse", func="redirect_url", ret_opt=True,
         header="def respRedirectUrl (selfIsRedirect : Bool) (meta_ : List Char) : Option (List Char) :=",
         opaque={"self.is_redirect()": "selfIsRedirect"}, rename={"self.meta": "meta_"}, types={"self.meta": "str"}),
    dict(name="isSafePath", file="server/handler.py", cls="StaticFileHandler", func="_is_safe_path",
         header="def isSafePath (root : Fs.Path) (file_path : Fs.Path) : Bool :=",
         rename={"self.document_root": "root"}, types={"file_path": "path", "self.document_root": "path"}, paths=True,
         lean_types={"path": "Fs.Path", "bool": "Bool"}, pytypes={"Path": ("path", "Fs.Path"), "bool": ("bool", "Bool")},
         # assumed about Python and nothing else: PurePath.relative_to(other) raises ValueError exactly when `other` is not a prefix of the
         # path, component by component (`Fs.relativeToE`)
         try_calls={"relative_to": dict(fn="Fs.relativeToE", recv=True, args=[0], nargs=1, handlers=[(("ValueError",), ".error _")], rtype="path")}),
    dict(name="staticHandle", file="server/handler.py", cls="StaticFileHandler", func="handle", mode="except", hoist_tests=True,
         header="def staticHandle (os : Fs.OS) (cfg : Fs.SCfg) (comps : Fs.Path) (trailing : Bool) : Except Unit Fs.SResp :=",
         err_type="Unit", paths=True, stat_size="os.size", for_loops=("(os : Fs.OS) (cfg : Fs.SCfg) ", "os cfg", "name", "Fs.Name"),
         lean_types={"path": "Fs.Path", "bool": "Bool"},
         skip_src=("requested_path = ", "mime_type = "),
         rename={"self.document_root": "cfg.root", "requested_path": "comps", "self.default_indices": "cfg.indices", "self.enable_directory_listing": "cfg.listingOn",
                 "self.max_file_size": "cfg.maxSize"},
         opaque={"requested_path.endswith('/')": "trailing"},
         types={"requested_path": "path", "self.document_root": "path", "file_path": "path", "index_path": "path", "index_found": "bool", "self.default_indices": "list",
                "self.enable_directory_listing": "bool", "self.max_file_size": "num", "file_size": "num", "requested_path.endswith('/')": "bool"},
         funcs={"self._is_safe_path": "Fs.inside cfg.root"},
         raising_methods={"is_dir": "Fs.isDirE os", "exists": "Fs.existsE os", "is_file": "Fs.isFileE os"},
         try_calls={"resolve": dict(fn="Fs.resolveE os", recv=True, kw={"strict": "True"}, nargs=0, handlers=[(("OSError", "RuntimeError", "ValueError"), ".error _")], rtype="path"),
                    "generate_directory_listing": dict(fn="Fs.listingE os", args=[0], nargs=2, handlers=[(("Exception",), ".error _")], rtype="listing"),
                    "read_text": dict(fn="os.readText", recv=True, kw={"encoding": "'utf-8'"}, nargs=0, ok=".ok", rtype="content",
                                      handlers=[(("UnicodeDecodeError",), ".notUtf8"), (("PermissionError",), ".denied"), (("Exception",), ".ioError")])},
         pytypes={"Path": ("path", "Fs.Path"), "bool": ("bool", "Bool")},
         call_hooks={"GeminiResponse": _static_response}),
    dict(name="parseUrl", file="utils/url.py", cls=None, func="parse_url", mode="except", numfmt="Url.natToStr",
         header=("def parseUrl (url scheme : Url.Str) (hostname username password : Option Url.Str) (fragment : Url.Str) (splitR : Except Url.Err Unit)\n"
                 "    (portR : Except Url.Err (Option Nat)) (path netloc query : Url.Str) : Except Url.Err Url.Parsed :="),
         rename={"parsed.scheme": "scheme", "parsed.hostname": "hostname", "parsed.username": "username", "parsed.password": "password",
                 "parsed.fragment": "fragment", "parsed.path": "path", "parsed.netloc": "netloc", "parsed.query": "query", "parsed.params": "([] : Url.Str)",
                 "DEFAULT_PORT": "Gen.defaultPort"},
         # `urlparse(url)` and the `.port` property may raise ValueError: parameters of type Except; `.rpartition('@')[2]` is the model's hostPart
         raising={"urlparse(url)": ("splitR", "_split"), "parsed.port": ("portR", "port?")},
         skip_assign=("urlparse(url)",),
         opaque={"parsed.netloc.rpartition('@')[2]": "(Url.hostPart netloc)", "parsed.netloc.rsplit('@', 1)[-1]": "(Url.hostPart netloc)"},
         funcs={"urlunparse": "Url.unparse6"},
         ctors={"ParsedURL": ("Url.Parsed", {"hostname": "host", "port": "port", "path": "path", "query": "query", "normalized": "normalized"},
                              {"scheme": "'gemini'", "fragment": "parsed.fragment or ''"})},
         errors={"URL cannot be empty": ".empty", "URL missing scheme": ".noScheme", "Invalid scheme": ".badScheme", "URL missing hostname": ".noHost",
                 "URL must not contain userinfo": ".userinfo", "URL must not contain fragment": ".fragment"},
         types={"url": "str", "parsed.scheme": "str", "parsed.hostname": "optstr", "parsed.username": "optstr", "parsed.password": "optstr", "parsed.fragment": "str",
                "parsed.path": "str", "parsed.netloc": "str", "parsed.query": "str", "parsed.params": "str", "parsed.port": "optnum", "DEFAULT_PORT": "num",
                "parsed.netloc.rpartition('@')[2]": "str", "parsed.netloc.rsplit('@', 1)[-1]": "str", "port": "num", "path": "str", "host": "str", "bracketed": "bool", "normalized": "str"}),
]


def store_idiom(f, attr: str, ctor: str, method: str):
    """`self.<attr>` is a dictionary of mutable objects used in the one way the rate limiter uses it:

        if K not in self.<attr>: self.<attr>[K] = <ctor>(a, b)
        x = self.<attr>[K]
        if x.<method>(): ...

    What Python does here - the dictionary holds a REFERENCE, so the method call on `x` changes the object the dictionary holds under K -
    is written out as operations on the store: `self._store_has(K)`, `self._store_put(K, a, b)`, `ok = self._store_at(K)`.  Every other
    use of the dictionary or of `x` (a second alias, a copy, a deletion, a rebinding of K) is outside the idiom and not translated."""
    alias: dict[str, str] = {}
    counter = [0]

    def is_store(n):
        return ast.unparse(n) == attr

    def rewrite(stmts):
        out = []
        for st in stmts:
            if (isinstance(st, ast.If) and isinstance(st.test, ast.Compare) and len(st.test.ops) == 1 and isinstance(st.test.ops[0], ast.NotIn)
                    and is_store(st.test.comparators[0]) and isinstance(st.test.left, ast.Name) and not st.orelse and len(st.body) == 1
                    and isinstance(st.body[0], ast.Assign) and len(st.body[0].targets) == 1 and isinstance(st.body[0].targets[0], ast.Subscript)
                    and is_store(st.body[0].targets[0].value) and ast.unparse(st.body[0].targets[0].slice) == st.test.left.id
                    and isinstance(st.body[0].value, ast.Call) and ast.unparse(st.body[0].value.func) == ctor and not st.body[0].value.keywords):
                k = st.test.left
                has = ast.Call(func=ast.Attribute(value=ast.Name(id="self", ctx=ast.Load()), attr="_store_has", ctx=ast.Load()), args=[k], keywords=[])
                put = ast.Call(func=ast.Attribute(value=ast.Name(id="self", ctx=ast.Load()), attr="_store_put", ctx=ast.Load()),
                               args=[k] + list(st.body[0].value.args), keywords=[])
                out.append(ast.copy_location(ast.If(test=ast.UnaryOp(op=ast.Not(), operand=has), body=[ast.copy_location(ast.Expr(value=put), st)], orelse=[]), st))
                continue
            if (isinstance(st, ast.Assign) and len(st.targets) == 1 and isinstance(st.targets[0], ast.Name) and isinstance(st.value, ast.Subscript)
                    and is_store(st.value.value) and isinstance(st.value.slice, ast.Name)):
                if st.targets[0].id in alias:
                    raise Unsupported("a second binding of the store alias")
                alias[st.targets[0].id] = st.value.slice.id
                continue
            if (isinstance(st, ast.If) and isinstance(st.test, ast.Call) and isinstance(st.test.func, ast.Attribute) and st.test.func.attr == method
                    and isinstance(st.test.func.value, ast.Name) and st.test.func.value.id in alias and not st.test.args and not st.test.keywords):
                counter[0] += 1
                tmp = f"admitted_{counter[0]}"
                call = ast.Call(func=ast.Attribute(value=ast.Name(id="self", ctx=ast.Load()), attr="_store_at", ctx=ast.Load()),
                                args=[ast.Name(id=alias[st.test.func.value.id], ctx=ast.Load())], keywords=[])
                out.append(ast.copy_location(ast.Assign(targets=[ast.Name(id=tmp, ctx=ast.Store())], value=call), st))
                out.append(ast.copy_location(ast.If(test=ast.Name(id=tmp, ctx=ast.Load()), body=rewrite(st.body), orelse=rewrite(st.orelse)), st))
                continue
            if isinstance(st, ast.If):
                st = ast.copy_location(ast.If(test=st.test, body=rewrite(st.body), orelse=rewrite(st.orelse)), st)
            out.append(st)
        return out

    body = rewrite([x for x in f.body if not (isinstance(x, ast.Expr) and isinstance(x.value, ast.Constant) and isinstance(x.value.value, str))])
    keys = set(alias.values())
    for st in body:
        for n in ast.walk(st):
            if is_store(n) if isinstance(n, ast.Attribute) else False:
                raise Unsupported(f"use of {attr} outside the get-or-create idiom")
            if isinstance(n, ast.Name) and n.id in alias:
                raise Unsupported(f"use of the store alias {n.id} outside the idiom")
            if isinstance(n, ast.Name) and n.id in keys and isinstance(n.ctx, ast.Store):
                raise Unsupported(f"the key {n.id} is re-bound")
    if len(alias) != 1 or counter[0] != 1:
        raise Unsupported("the get-or-create idiom was not found exactly once")
    return body


def find_func(tree, cls, func):
    if cls is None:
        for n in tree.body:
            if isinstance(n, (ast.FunctionDef, ast.AsyncFunctionDef)) and n.name == func:
                return n
        return None
    for n in ast.walk(tree):
        if isinstance(n, ast.ClassDef) and n.name == cls:
            for f in n.body:
                if isinstance(f, (ast.FunctionDef, ast.AsyncFunctionDef)) and f.name == func:
                    return f
    return None


# a Python dict with string keys: Misc/PyDict.lean (association list; assignment appends, lookup takes the LAST binding)
DICT_PRELUDE = ["open Py", ""]

PRELUDE = {
    "consume": (["NauyacaVerif.Mw.Acl"], ["structure BucketSt where", "  capacity : Rat", "  refill_rate : Rat", "  tokens : Rat", "  last_update : Rat", ""]),
    "isAllowed": (["NauyacaVerif.Mw.Acl"], []),
    "chain": ([], []),
    "upstreamUrl": ([], []),
    "canonicalPath": ([], []),
    "parseUrl": (["NauyacaVerif.Url.Basic", "NauyacaVerif.Gen.Params"], []),
    "findRule": (["NauyacaVerif.Mw.Cert"], []),
    "uploadGate": ([], []),
    "followRedirects": (["NauyacaVerif.Cl.Redirect"], []),
    "dataReceived": (["NauyacaVerif.Srv.PState"], []),
    "handleMwResult": (["NauyacaVerif.Srv.PState"], []), "sendMwRejection": (["NauyacaVerif.Srv.PState"], []), "handleHandlerResult": (["NauyacaVerif.Srv.PState"], []), "handleUploadResult": (["NauyacaVerif.Srv.PState"], []),
    "handleGeminiRequest": (["NauyacaVerif.Srv.PState"], []), "processTitanUpload": (["NauyacaVerif.Srv.PState"], []),
    "evictable": (["NauyacaVerif.Gen.Fn.Consume"], []), "bucketInit": (["NauyacaVerif.Gen.Fn.Consume"], []), "limiterRequest": (["NauyacaVerif.Mw.StorePy"], []),
    "staticHandle": (["NauyacaVerif.Fs.StaticPy"], []), "isSafePath": (["NauyacaVerif.Fs.StaticPy"], []),
    "pumpResponse": (["NauyacaVerif.Srv.FlowPy"], []), "resumeWriting": (["NauyacaVerif.Srv.FlowPy", "NauyacaVerif.Gen.Fn.PumpResponse"], []),
    "pauseWriting": (["NauyacaVerif.Srv.FlowPy"], []), "sendResponse": (["NauyacaVerif.Srv.FlowPy", "NauyacaVerif.Gen.Fn.PumpResponse"], []), "connectionLost": (["NauyacaVerif.Srv.FlowPy"], []),
    "clientDataReceived": (["NauyacaVerif.Cl.PyClient"], []), "titanClientDataReceived": (["NauyacaVerif.Cl.PyClient"], []),
    "clientParseHeader": (["NauyacaVerif.Cl.PyClient"], []), "titanClientParseHeader": (["NauyacaVerif.Cl.PyClient"], []),
    "deliverHeaderOnly": (["NauyacaVerif.Cl.PyClient"], []), "titanDeliverHeaderOnly": (["NauyacaVerif.Cl.PyClient"], []),
    "getSingleTail": (["NauyacaVerif.Cl.TofuEnv"], []), "uploadTail": (["NauyacaVerif.Cl.TofuEnv"], []),
    "tofuVerify": (["NauyacaVerif.Misc.SqlEnv"], []), "tofuTrust": (["NauyacaVerif.Misc.SqlEnv"], []), "tofuRevoke": (["NauyacaVerif.Misc.SqlEnv"], []),
    "tofuRevokeHost": (["NauyacaVerif.Misc.SqlEnv"], []), "tofuClear": (["NauyacaVerif.Misc.SqlEnv"], []),
    "titanParams": (["NauyacaVerif.Srv.Conn", "NauyacaVerif.Misc.PyDict"], DICT_PRELUDE),
    "titanFromLine": (["NauyacaVerif.Srv.Conn", "NauyacaVerif.Misc.PyDict"], DICT_PRELUDE + [
        "inductive TErr where", "  | notTitan | noParams | noSize | badSize | negSize | url (e : Url.Err)", "deriving Repr, DecidableEq", "",
        "structure TitanReq where", "  raw : List Char", "  parsed : Url.Parsed", "  size : Int", "  mime : List Char", "  token : Option (List Char)", "deriving Repr", ""]),
    "certProcess": (["NauyacaVerif.Mw.Cert"], []),
}


LEAN_RESERVED = {"meta", "end", "from", "at", "open", "in", "do", "then", "fun", "show", "have", "local", "private", "instance", "section", "namespace",
                 "variable", "universe", "macro", "syntax", "prefix", "where", "deriving", "mutual", "import", "export", "theorem", "def", "match", "with", "let", "by", "calc"}


def cap(name: str) -> str:
    return name[0].upper() + name[1:]


def translate_all() -> tuple[dict[str, str], dict[str, str]]:
    """one Lean file per function (so that a change to one function touches only the properties resting on it)"""
    src = core.REPO / "src" / "nauyaca"
    files: dict[str, str] = {}
    status: dict[str, str] = {}
    for spec in SPECS:
        imports, prelude = PRELUDE.get(spec["name"], ([], []))
        out = ["-- GENERATED by harness/translate.py from the current source tree on every run — do not edit"] + [f"import {i}" for i in imports] + \
              ["namespace NauyacaVerif.Gen.Fn", ""] + prelude
        try:
            module = ast.parse((src / spec["file"]).read_text())
            f = find_func(module, spec["cls"], spec["func"])
            if f is None:
                raise Unsupported("function not found")
            spec = dict(spec)
            if spec.get("rename_reserved"):
                # local names of the Python function that are keywords of Lean (`meta`, `end`, `from` ...) get a trailing underscore
                for n in ast.walk(f):
                    if isinstance(n, ast.Name) and n.id in LEAN_RESERVED:
                        n.id += "_"
                    elif isinstance(n, ast.arg) and n.arg in LEAN_RESERVED:
                        n.arg += "_"
            spec["_locals"] = {a.arg for a in f.args.args + f.args.kwonlyargs} | {n.id for n in ast.walk(f) if isinstance(n, ast.Name) and isinstance(n.ctx, ast.Store)}
            spec["_scope"] = (module, next((n for n in ast.walk(module) if isinstance(n, ast.ClassDef) and n.name == spec["cls"]), None) if spec["cls"] else None)
            spec["_helpers"], spec["_helper_types"] = {}, {}
            stmts = list(f.body)
            if spec.get("start") == "last_try":
                tries = [i for i, x in enumerate(stmts) if isinstance(x, ast.Try) or (isinstance(x, (ast.AsyncWith, ast.With)) and spec.get("ctx_finally"))]
                if not tries:
                    raise Unsupported("no try statement")
                stmts = stmts[tries[-1]:]
            if spec.get("store_idiom"):
                stmts = store_idiom(f, *spec["store_idiom"])
            if spec.get("comp_cond"):
                # the function's ONE list comprehension `[x for … in … if c1 if c2]`: what is translated is its filter `c1 and c2`
                comps = [n for n in ast.walk(f) if isinstance(n, (ast.ListComp, ast.SetComp, ast.GeneratorExp, ast.DictComp))]
                if len(comps) != 1 or len(comps[0].generators) != 1 or not comps[0].generators[0].ifs or comps[0].generators[0].is_async:
                    raise Unsupported("expected exactly one comprehension with one generator and a filter")
                gen = comps[0].generators[0]
                if ast.unparse(gen.target) != spec["comp_cond"][0] or ast.unparse(gen.iter) != spec["comp_cond"][1]:
                    raise Unsupported(f"comprehension ranges over {ast.unparse(gen.target)} in {ast.unparse(gen.iter)}")
                # every statement between the top of the loop body and the comprehension that binds a name the filter reads must be one the spec names
                binds = {ast.unparse(n.targets[0]): ast.unparse(n.value) for n in ast.walk(f) if isinstance(n, ast.Assign) and len(n.targets) == 1 and isinstance(n.targets[0], ast.Name)}
                for name in {n.id for c in gen.ifs for n in ast.walk(c) if isinstance(n, ast.Name)}:
                    if name in binds and spec.get("opaque", {}).get(binds[name]) != name:
                        raise Unsupported(f"the filter reads {name} = {binds[name]}")
                cond = gen.ifs[0] if len(gen.ifs) == 1 else ast.BoolOp(op=ast.And(), values=list(gen.ifs))
                stmts = [ast.copy_location(ast.Return(value=cond), comps[0])]
            if spec.get("fuel"):
                body = "  match fuel with\n  | 0 => " + spec["fuel"] + "\n  | fuel + 1 =>\n" + Tr(spec).block(stmts, "    ")
            else:
                body = Tr(spec).block(stmts, "  ")
            out += [h for h in spec["_helpers"].values() if h]
            out += [f"/-- `{(spec['cls'] + '.') if spec['cls'] else ''}{spec['func']}` ({spec['file']}), translated -/", spec["header"], body, ""]
            status[spec["name"]] = "ok"
        except Unsupported as e:
            msg = " ".join(str(e).split())
            out += [f"-- {spec['name']}: NOT TRANSLATED ({msg})", ""]
            status[spec["name"]] = f"unsupported: {msg}"
        except Exception as e:  # noqa: BLE001
            out += [f"-- {spec['name']}: NOT TRANSLATED ({type(e).__name__}: {' '.join(str(e).split())})", ""]
            status[spec["name"]] = f"error: {e}"
        out.append("end NauyacaVerif.Gen.Fn")
        files[cap(spec["name"])] = "\n".join(out) + "\n"
    return files, status


def regenerate() -> dict[str, str]:
    files, status = translate_all()
    d = core.LEAN / "NauyacaVerif" / "Gen" / "Fn"
    d.mkdir(parents=True, exist_ok=True)
    old = core.LEAN / "NauyacaVerif" / "Gen" / "Fn.lean"
    if old.exists():
        old.unlink()
    for name, text in files.items():
        f = d / f"{name}.lean"
        if not f.exists() or f.read_text() != text:
            f.write_text(text)
    return status


if __name__ == "__main__":
    core.setup_import_path()
    files, status = translate_all()
    for text in files.values():
        print(text)
    print(status)
