"""C04, family `wiring`: the chain and the handlers the REAL start_server assembles from a configuration file.

Generated TOML (rate limit on/off with a small burst capacity, access-control lists, certificate_auth path rules with
require_cert on/off and fingerprint lists present / EMPTY / absent, [server] require_client_cert, [[locations]], [titan])
goes through `nauyaca serve --config` -> ServerConfig.from_toml -> the glue in __main__.serve -> start_server with
`loop.create_server` stubbed (harness/sim/mw_wiring.py): the probe then holds the protocol factory the server would
listen with — on whichever TLS backend start_server chose — and drives sequences of Gemini and Titan requests from
admitted and refused peers, with and without a client certificate, into it on a fake transport.  Every protocol's
request handler (the router) and upload handler are wrapped by a counting spy; the chain's process_request by a
recording one.

Direct oracle (no Lean line): every component the configuration file asks for is evaluated ON ITS OWN as a reference
(the real CertificateAuth and AccessControl built from the written values; the rate limiter, at the frozen instant
of the run, as a per-peer count of the requests that reached it) in the order start_server documents — certificate
auth, access control, rate limiter (extraction item `chainOrder`, theorem C09.chain_order_tie).  A handler may run
only if all of them admit the request; otherwise the client must receive the first rejecting component's status, and
the chain must have been consulted with the real peer address, normalised URL and certificate fingerprint.
"""
from __future__ import annotations

import asyncio
import random

from ..core import Family

PEERS = ["192.0.2.7", "192.0.2.66", "198.51.100.9", "2001:db8::5", "::ffff:192.0.2.7"]
GEMINI_PATHS = ["/", "/index.gmi", "/app/x.gmi", "/app/", "/app", "/locked/a.gmi", "/locked/", "/pub/a.gmi", "/pub/", "/nope.gmi", "/app/../index.gmi", "/APP/x.gmi", "/app/x.gmi?q=1"]
TITAN_TARGETS = ["/app/f.txt;size=3;mime=text/plain", "/up/g.txt;size=3", "/locked/h.txt;size=0"]
RULE_PREFIXES = ["/app/", "/locked/", "/", "/pub/", "/app/x"]
FILES = {"app/x.gmi": "# app\n", "app/index.gmi": "# app index\n", "locked/a.gmi": "# locked\n", "locked/index.gmi": "# locked index\n",
         "pub/a.gmi": "# pub\n", "pubroot/a.gmi": "# pub via location\n", "pubroot/index.gmi": "# pubroot\n"}


class Wiring(Family):
    """configuration file -> the real start_server wiring (both backend choices) -> request sequences on the captured
    protocol factory; a handler runs only if every configured component, evaluated on its own, admits the request"""

    name = "wiring"
    quick_n = 1200
    thorough_n = 20000

    # ------------------------------------------------------------------------------------------
    def setup(self):
        from ..sim import mw_clock, mw_wiring
        from ..sim import srv as sim

        self.W, self.clock, self.sim = mw_wiring, mw_clock, sim
        self.capture = mw_wiring.Capture()
        self.ref_loop = asyncio.new_event_loop()

    FIXED = [
        # a rule whose only restriction is an EMPTY fingerprint list admits nobody (seed C04-s2w2)
        {"rl": None, "acl": None, "rcc": False, "locations": False, "titan": False,
         "rules": [{"prefix": "/locked/", "require": False, "fps": []}],
         "reqs": [["192.0.2.7", "g/locked/a.gmi", None], ["192.0.2.7", "g/locked/a.gmi", 0], ["192.0.2.7", "g/index.gmi", None]]},
        # a refused peer keeps getting 53 however many requests it sends; an admitted one runs into the limiter (seed C09-s3w2)
        {"rl": {"cap": 2}, "acl": {"allow": None, "deny": ["192.0.2.66"], "default": True}, "rcc": False, "locations": False, "titan": False, "rules": [],
         "reqs": [["192.0.2.66", "g/", None]] * 4 + [["192.0.2.7", "g/", None]] * 4},
        # certificate rule, access control and limiter together, PyOpenSSL backend, certificates presented
        {"rl": {"cap": 1}, "acl": {"allow": ["192.0.2.0/24"], "deny": None, "default": False}, "rcc": False, "locations": True, "titan": True,
         "rules": [{"prefix": "/app/", "require": True, "fps": [0]}],
         "reqs": [["192.0.2.7", "g/app/x.gmi", 0], ["192.0.2.7", "g/app/x.gmi", 0], ["192.0.2.7", "g/app/x.gmi", 3], ["192.0.2.7", "g/app/x.gmi", None],
                  ["198.51.100.9", "g/app/x.gmi", 0], ["198.51.100.9", "g/pub/a.gmi", None], ["192.0.2.7", "t/app/f.txt;size=3;mime=text/plain", 0]]},
    ]

    def gen(self, rng: random.Random, n: int):
        k = 0
        for c in self.share(self.FIXED):
            k += 1
            yield c
        while k < n:
            k += 1
            r = rng.random()
            rl = None if r < 0.35 else {"cap": rng.choice((0, 1, 1, 2, 3))}
            r = rng.random()
            if r < 0.35:
                acl = None
            else:
                acl = {"allow": rng.choice((None, None, [], ["192.0.2.0/24"], ["192.0.2.7", "2001:db8::/32"])),
                       "deny": rng.choice((None, None, [], ["192.0.2.66"], ["198.51.100.0/24", "192.0.2.66/32"])),
                       "default": rng.random() < 0.6}
                if rng.random() < 0.1:
                    acl["enabled"] = False
            rules = []
            if rng.random() < 0.7:
                for _ in range(rng.choice((1, 1, 2, 3))):
                    rules.append({"prefix": rng.choice(RULE_PREFIXES), "require": rng.random() < 0.5,
                                  "fps": rng.choice((None, None, [], [], [0], [1, 2], [0, 3]))})
            case = {"rl": rl, "acl": acl, "rules": rules, "rcc": rng.random() < 0.2, "locations": rng.random() < 0.3, "titan": rng.random() < 0.3}
            # requests: a few peers, each sending a short sequence (longer than a small burst capacity)
            reqs = []
            hot = [p["prefix"].rstrip("/") or "/" for p in rules]
            for _ in range(rng.randint(2, 4)):
                peer = rng.choice(PEERS)
                cert = rng.choice((None, None, 0, 1, 3))
                base = rng.choice(GEMINI_PATHS + [h + "/a.gmi" for h in hot if h != "/"])
                for _ in range(rng.choice((1, 2, (rl or {"cap": 1})["cap"] + 2))):
                    q = rng.random()
                    if q < 0.12:
                        reqs.append([peer, "t" + rng.choice(TITAN_TARGETS), cert])
                    elif q < 0.3:
                        reqs.append([peer, "g" + rng.choice(GEMINI_PATHS), rng.choice((cert, None))])
                    else:
                        reqs.append([peer, "g" + base, cert])
            case["reqs"] = reqs[:14]
            yield case

    # ------------------------------------------------------------------------------------------
    def toml(self, case):
        tv = self.W.toml_value
        fps = self.sim.cert_pool()
        lines = []
        if case["rl"] is not None:
            lines += ["[rate_limit]", "enabled = true", f"capacity = {case['rl']['cap']}", "refill_rate = 0.0009765625", "retry_after = 9", ""]
        else:
            lines += ["[rate_limit]", "enabled = false", ""]
        acl = case["acl"]
        if acl is not None:
            lines.append("[access_control]")
            if "enabled" in acl:
                lines.append(f"enabled = {tv(acl['enabled'])}")
            if acl["allow"] is not None:
                lines.append(f"allow_list = {tv(acl['allow'])}")
            if acl["deny"] is not None:
                lines.append(f"deny_list = {tv(acl['deny'])}")
            lines += [f"default_allow = {tv(acl['default'])}", ""]
        if case["rules"]:
            lines.append("[certificate_auth]")
            items = []
            for ru in case["rules"]:
                d = {"prefix": ru["prefix"]}
                if ru["require"] or ru.get("require_written"):
                    d["require_cert"] = ru["require"]
                if ru["fps"] is not None:
                    d["allowed_fingerprints"] = [fps[i][1] for i in ru["fps"]]
                items.append(tv(d))
            lines += ["paths = [" + ", ".join(items) + "]", ""]
        if case.get("titan"):
            lines += ["[titan]", "enabled = true", 'upload_dir = "{ROOT}/uploads"', ""]
        if case.get("locations"):
            lines += ["[[locations]]", 'prefix = "/pub/"', 'handler = "static"', 'document_root = "{ROOT}/pubroot"', "",
                      "[[locations]]", 'prefix = "/"', 'handler = "static"', 'document_root = "{ROOT}"', ""]
        return "\n".join(lines) + "\n", ("require_client_cert = true" if case.get("rcc") else "")

    @staticmethod
    def wire_bytes(line: str) -> bytes:
        if line[0] == "g":
            return f"gemini://localhost{line[1:]}\r\n".encode()
        return f"titan://localhost{line[1:]}\r\n".encode() + (b"abc" if "size=3" in line else b"")

    @staticmethod
    def normalized(line: str) -> str:
        from nauyaca.protocol.request import GeminiRequest, TitanRequest

        if line[0] == "g":
            return GeminiRequest.from_line(f"gemini://localhost{line[1:]}").normalized_url
        return TitanRequest.from_line(f"titan://localhost{line[1:]}").normalized_url

    def impl(self, case):
        out: dict = {}
        certs = self.sim.cert_pool()

        async def probe(factory):
            p0 = factory()
            tls = type(p0).__name__ == "TLSServerProtocol"
            inner = p0.inner_protocol_factory if tls else factory
            out["backend"] = "pyopenssl" if tls else "stdlib"
            first = inner()
            chain = getattr(first, "middleware", None)
            out["chain"] = [type(m).__name__ for m in getattr(chain, "middlewares", [])] if chain is not None else []
            out["up"] = getattr(first, "upload_handler", None) is not None
            consults: list = []
            if chain is not None:
                orig = chain.process_request

                async def recording(url, ip, fp=None):
                    consults.append([url, ip, fp])
                    return await orig(url, ip, fp)

                chain.process_request = recording
            res = []
            for peer, line, cert in case["reqs"]:
                # the stdlib backend is only chosen when no client certificate is requested: a peer's certificate never
                # reaches the application there
                der = certs[cert][0] if (cert is not None and tls) else None
                pr = inner()
                log = {"h": 0, "u": 0}
                rh = pr.request_handler

                def spy_h(req, rh=rh, log=log):
                    log["h"] += 1
                    return rh(req)

                pr.request_handler = spy_h
                if getattr(pr, "upload_handler", None) is not None:
                    uh = pr.upload_handler

                    class SpyU:
                        def __getattr__(self, k, uh=uh):
                            return getattr(uh, k)

                        def handle_upload(self, *a, uh=uh, log=log, **kw):
                            log["u"] += 1
                            return uh.handle_upload(*a, **kw)

                    pr.upload_handler = SpyU()
                t = self.sim.FakeTransport(peer=(peer, 4711) if ":" not in peer else (peer, 4711, 0, 0), cert_der=der)
                m0 = len(consults)
                pr.connection_made(t)
                pr.data_received(self.wire_bytes(line))
                for _ in range(80):
                    if t.closed:
                        break
                    await asyncio.sleep(0)
                raw = b"".join(bytes.fromhex(a[1]) for a in t.acts if a[0] == "w")
                try:
                    pr.connection_lost(None)
                except Exception:  # noqa: BLE001
                    pass
                res.append({"st": raw[:2].decode("latin1"), "h": log["h"], "u": log["u"], "m": len(consults) - m0, "args": consults[m0:][:1]})
            out["reqs"] = res

        toml, server_extra = self.toml(case)
        with self.clock.patched_time(lambda: 5000.0):
            started, cli = self.capture.run(toml, probe, server_extra=server_extra, files=FILES)
        if not started:
            return {"start": "failed", "out": cli[-300:]}
        out["start"] = "ok"
        return out

    # ------------------------------------------------------------------------------------------
    def reference(self, case, obs):
        """per request: (verdict, component, line) with verdict 'admit' | 'reject' | 'n/a' — every configured component
        evaluated on its own, in the documented order certificate auth, access control, rate limiter"""
        from nauyaca.server.middleware import (AccessControl, AccessControlConfig, CertificateAuth, CertificateAuthConfig,
                                               CertificateAuthPathRule)

        certs = self.sim.cert_pool()
        loop = self.ref_loop
        cert_ref = None
        if case["rules"]:
            cert_ref = CertificateAuth(CertificateAuthConfig(path_rules=[
                CertificateAuthPathRule(prefix=r["prefix"], require_cert=r["require"],
                                        allowed_fingerprints=None if r["fps"] is None else {certs[i][1] for i in r["fps"]}) for r in case["rules"]]))
        acl, acl_ref = case["acl"], None
        if acl is not None and acl.get("enabled", True):
            acl_ref = AccessControl(AccessControlConfig(allow_list=acl["allow"], deny_list=acl["deny"], default_allow=acl["default"]))
        cap = case["rl"]["cap"] if case["rl"] is not None else None
        admitted_by_limiter: dict = {}
        outv = []
        for peer, line, cert in case["reqs"]:
            if line[0] == "t" and not obs.get("up"):
                outv.append(("n/a", "no upload handler configured: answered before the chain", None))
                continue
            url = self.normalized(line)
            fp = certs[cert][1] if (cert is not None and obs["backend"] == "pyopenssl") else None
            verdict = ("admit", None, None)
            for name, comp in (("CertificateAuth", cert_ref), ("AccessControl", acl_ref)):
                if comp is None:
                    continue
                ok, resp = loop.run_until_complete(comp.process_request(url, peer, fp))
                if not ok:
                    verdict = ("reject", name, resp)
                    break
            if verdict[0] == "admit" and cap is not None:
                k = admitted_by_limiter.get(peer, 0)
                if k >= cap:
                    verdict = ("reject", "RateLimiter", "44")
                else:
                    admitted_by_limiter[peer] = k + 1
            outv.append(verdict + (url, fp))
        return outv

    def oracle(self, case, obs):
        if obs["start"] != "ok":
            return ("no-start", f"a valid configuration prevented start-up: {obs.get('out')}")
        ref = self.reference(case, obs)
        for i, ((peer, line, cert), r, v) in enumerate(zip(case["reqs"], obs["reqs"], ref)):
            what = f"request #{i} ({'titan' if line[0] == 't' else 'gemini'} {line[1:]!r} from {peer}, certificate {cert if obs['backend'] == 'pyopenssl' else None}, backend {obs['backend']}, chain {obs['chain']})"
            if v[0] == "n/a":
                if r["h"] or r["u"]:
                    return ("handler-ungated", f"{what}: a handler ran for a Titan request on a server without upload handler")
                continue
            if v[0] == "reject":
                if r["h"] or r["u"]:
                    return ("handler-ungated", f"{what}: the configured {v[1]} refuses it ({str(v[2])[:40]!r}) yet the handler ran (handler={r['h']} upload={r['u']}, client got {r['st']!r})")
                if r["st"] != str(v[2])[:2]:
                    return ("wrong-rejection", f"{what}: the first rejecting component is {v[1]} ({str(v[2])[:40]!r}) but the client received status {r['st']!r}")
            if obs["chain"] and r["m"] != 1:
                return ("mw-not-consulted", f"{what}: the chain was consulted {r['m']} times")
            if r["args"]:
                got = r["args"][0]
                if got[0] != v[3] or got[1] != peer or (got[2] or None) != v[4]:
                    return ("mw-args", f"{what}: chain consulted with {got}, expected url={v[3]!r} ip={peer!r} fingerprint={v[4]!r}")
        return None

    def key(self, case, obs):
        if obs["start"] != "ok":
            return "no-start"
        ini = "".join({"CertificateAuth": "C", "AccessControl": "A", "RateLimiter": "R"}.get(n, "?") for n in obs["chain"]) or "-"
        refused = any(r["st"] in ("44", "53", "60", "61") for r in obs["reqs"])
        empty_fp = any(r["fps"] == [] for r in case["rules"])
        return f"{obs['backend']}|chain={ini}|{'emptyfps|' if empty_fp else ''}{'some-refused' if refused else 'none-refused'}"
