#!/venv/bin/python
"""Run, for every fix: commit of /repo, the property's check against the tree with that fix reverted
(seeded/fixrevert-<c>/patch.diff, or the revision <c>^ when the revert conflicts with later fixes) and
record in meta.json whether and how it is detected."""
import json, os, re, subprocess, sys
V = "/verif"
only = sys.argv[1:] 
for d in sorted(os.listdir(f"{V}/seeded")):
    if not d.startswith("fixrevert-"):
        continue
    c = d.split("-", 1)[1]
    if only and c not in only:
        continue
    mp = f"{V}/seeded/{d}/meta.json"
    subj = subprocess.run(["git", "-C", "/repo", "log", "-1", "--format=%s", c], capture_output=True, text=True).stdout.strip()
    meta = json.load(open(mp)) if os.path.exists(mp) else {"kind": "revert of a fix: commit (a defect of the pinned snapshot, or of an earlier repair)", "commit": c}
    meta["subject"] = subj
    prop = meta.get("breaks")
    if not prop:
        m = re.search(r"property=(C\d+) " + c, open(f"{V}/known_findings.json").read())
        prop = m.group(1) if m else None
        if not prop:
            for line in json.load(open(f"{V}/known_findings.json"))["fixed"]:
                if c in line:
                    prop = re.search(r"property=(C\d+)", line).group(1)
        meta["breaks"] = prop
    patch = f"{V}/seeded/{d}/patch.diff"
    what = patch if os.path.exists(patch) else f"{c}^"
    name = f"rv{c}"
    subprocess.run(f"git -C /repo worktree remove --force /tmp/nvm-{name}/repo; rm -rf /tmp/nvm-{name}", shell=True, capture_output=True)
    r = subprocess.run(f"cd {V} && tools/mutant.sh {name} {what} {prop} --tier quick", shell=True, capture_output=True, text=True)
    out = r.stdout + r.stderr
    viol = [l for l in out.splitlines() if l.startswith("VIOLATION")]
    sig = [l for l in out.splitlines() if "failing input (" in l][:1]
    meta["how_to_run"] = f"tools/mutant.sh {name} {'seeded/' + d + '/patch.diff' if os.path.exists(patch) else c + '^'} {prop} --tier quick"
    meta["detected_by"] = (f"./check {prop}: " + (sig[0].split('] ', 1)[1][:200] if sig else viol[0] if viol else "")) if r.returncode == 1 and viol else None
    meta["check_rc"] = r.returncode
    json.dump(meta, open(mp, "w"), indent=1)
    subprocess.run(f"git -C /repo worktree remove --force /tmp/nvm-{name}/repo; rm -rf /tmp/nvm-{name}", shell=True, capture_output=True)
    print(c, prop, r.returncode, (meta["detected_by"] or "NOT DETECTED")[:160], flush=True)
