import NauyacaVerif.Srv.PumpProof
import NauyacaVerif.Srv.SegProof

/-! Segmentation independence at the pump level (C07): how the TLS items (handshake records, application
    records, close-notify, garbage) are grouped into TCP reads does not change what the peer receives nor
    what is invoked. -/
namespace Srv

/-- what can be observed of a pump state from outside: TCP close, and of the inner protocol its output trace,
    invocation counts and uploaded content -/
def PSt.obs (p : PSt) : Bool × Bool × Option (List Out × Nat × Nat × Nat × Bytes) :=
  (p.tcpClosed, p.hsDone, p.inner.map (fun i => (i.out, i.hcalls, i.ucalls, i.mwcalls, i.content)))

def Item.isApp : Item → Bool
  | .app _ => true
  | _ => false

/-- `appLoop` stops at the first item that is not application data -/
theorem appLoop_append (cfg : Cfg) (a b : List Item) (p : PSt) :
    appLoop cfg p (a ++ b) = if a.all Item.isApp then appLoop cfg (appLoop cfg p a) b else appLoop cfg p a := by
  induction a generalizing p with
  | nil => simp [appLoop]
  | cons it rest ih =>
    cases it with
    | app d => simp only [List.cons_append, appLoop, List.all_cons, Item.isApp, Bool.true_and]; exact ih _
    | closeNotify => simp [appLoop, Item.isApp]
    | hs => simp [appLoop, Item.isApp]
    | hsFinal => simp [appLoop, Item.isApp]
    | bad => simp [appLoop, Item.isApp]

theorem appLoop_term_closed (cfg : Cfg) (a : List Item) (p : PSt) (h : a.all Item.isApp = false) :
    (appLoop cfg p a).tcpClosed = true := by
  induction a generalizing p with
  | nil => simp at h
  | cons it rest ih =>
    cases it with
    | app d => simp only [List.all_cons, Item.isApp, Bool.true_and] at h; simp only [appLoop]; exact ih _ h
    | closeNotify => simp [appLoop]
    | hs => simp [appLoop]
    | hsFinal => simp [appLoop]
    | bad => simp [appLoop]

theorem appLoop_lost (cfg : Cfg) (a : List Item) (p : PSt) : (appLoop cfg p a).lost = p.lost := by
  induction a generalizing p with
  | nil => rfl
  | cons it rest ih =>
    cases it with
    | app d =>
      simp only [appLoop]; rw [ih]
      split
      · unfold syncClosed; simp only; split <;> (try split) <;> rfl
      · rfl
    | closeNotify => simp [appLoop]
    | hs => simp [appLoop]
    | hsFinal => simp [appLoop]
    | bad => simp [appLoop]

theorem appLoop_hsDone (cfg : Cfg) (a : List Item) (p : PSt) : (appLoop cfg p a).hsDone = p.hsDone := by
  induction a generalizing p with
  | nil => rfl
  | cons it rest ih =>
    cases it with
    | app d =>
      simp only [appLoop]; rw [ih]
      split
      · unfold syncClosed; simp only; split <;> (try split) <;> rfl
      · rfl
    | closeNotify => simp [appLoop]
    | hs => simp [appLoop]
    | hsFinal => simp [appLoop]
    | bad => simp [appLoop]

/-- feeding data to an inner protocol that has already answered changes nothing -/
theorem innerFeed_sent (cfg : Cfg) (i : St) (d : Bytes) (hi : Inv cfg i) (hs : i.sent = true) : innerFeed cfg i d = i := by
  unfold innerFeed
  have hd : Dead i := Or.inr (by have := hi.sentDone hs; simp [this])
  generalize chunks recvSize d = cs
  induction cs with
  | nil => rfl
  | cons c cs ih => simp only [List.foldl_cons]; rw [dead_data cfg i c hd]; exact ih

/-- a closed pump whose inner protocol has answered: further items change nothing observable -/
theorem appLoop_after_sent (cfg : Cfg) (b : List Item) (p : PSt) (i : St) (hin : p.inner = some i) (hi : Inv cfg i)
    (hs : i.sent = true) (hc : p.tcpClosed = true) : (appLoop cfg p b).obs = p.obs := by
  induction b generalizing p i with
  | nil => rfl
  | cons it rest ih =>
    cases it with
    | app d =>
      simp only [appLoop, hin]
      rw [innerFeed_sent cfg i d hi hs]
      have : syncClosed { p with inner := some i } = p := by
        unfold syncClosed; simp only [hs, ↓reduceIte]
        obtain ⟨a1, a2, a3, a4, a5⟩ := p
        simp only at hin hc; subst hin; subst hc; rfl
      rw [this]; exact ih p i hin hi hs hc
    | closeNotify =>
      simp only [appLoop, PSt.obs, hin, Option.map_some, hc]
      have hl := lost_silent cfg i .lost (by simp [step] : (step cfg i .lost).lost = true → True) |> fun _ => (rfl : (step cfg i .lost).out = i.out)
      simp [step]
    | hs => simp [appLoop, PSt.obs, hc]
    | hsFinal => simp [appLoop, PSt.obs, hc]
    | bad => simp [appLoop, PSt.obs, hc]
end Srv
