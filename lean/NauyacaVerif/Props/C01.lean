import NauyacaVerif.Srv.ConnProof
import NauyacaVerif.Gen.Params

/-! # C01  Exactly one well-formed Gemini response per connection -/
namespace NauyacaVerif.C01
open Srv

theorem maxMeta_tie : Srv.maxMeta = Gen.maxMeta := by decide
theorem maxRequest_tie : Srv.maxRequest = Gen.maxRequest := by decide

/-- every response the encoder produces is well formed: two digits in 10–69, space, meta without CR/LF of at
    most 1024 bytes, CRLF, and a body only with a 2x status — for every status (any `Int`), meta and body
    over Python code points including lone surrogates, `str` / `bytes` / `None` bodies -/
theorem render_wf (r : Resp) :
    WFHeader (render r).1 ∧ ((render r).2 ≠ [] → 20 ≤ statusOf (render r).1 ∧ statusOf (render r).1 ≤ 29) :=
  Srv.render_wf r

/-- one response, well formed, then close: for every configuration and every event list (every ordering of
    reads, timer expiry, task completions and disconnect, every handler / middleware outcome) -/
theorem trace_shape (cfg : Cfg) (evs : List Ev) :
    (run cfg evs).out = [] ∨ ∃ ws, (run cfg evs).out = ws ++ [.close] ∧ WFWrites ws := by
  rcases (run_inv cfg evs).shape with ⟨_, h⟩ | ⟨_, h⟩
  · exact Or.inl h
  · exact Or.inr h

/-- nothing is ever written after the close: once a response has been sent every further event leaves the
    output trace unchanged -/
theorem nothing_after_close (cfg : Cfg) (s : St) (e : Ev) (hi : Inv cfg s) (hs : s.sent = true) :
    (step cfg s e).out = s.out := by
  have hd := hi.sentDone hs
  cases e <;> simp [step, hd, hs, respondFixed, respond, respondWith]
  all_goals (try split) <;> simp_all
end NauyacaVerif.C01
