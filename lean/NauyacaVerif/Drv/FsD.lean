import NauyacaVerif.Drv.Common
import NauyacaVerif.Fs.Tree
import NauyacaVerif.Fs.TreeOS
namespace NauyacaVerif.Drv.FsD
open NauyacaVerif.Drv Fs

/-! Line protocol of the filesystem models (TAB-separated fields).

A *name* is a Python `str` given as comma-separated hex code points (`-` = empty); the harness
maps the lone surrogates of undecodable file names injectively into U+F780…U+F7FF first.
A *path* is names joined by `/` (`-` alone = the root).  A tree-spec is entries joined by `;`:
`f|<path>|<id>`, `d|<path>`, `l|<path>|<target as one str>`. -/

def nameOf (s : String) : Name := toName (cpsNat s)
def comps (s : String) : Path := if s == "-" || s == "" then [] else (s.splitOn "/").map nameOf
def showName (n : Name) : String := showCpsNat (ofName n)
def showPath (p : Path) : String := if p.isEmpty then "-" else "/".intercalate (p.map showName)

def parseTree (s : String) : Tree :=
  (s.splitOn ";").filterMap (fun e =>
    match e.splitOn "|" with
    | ["f", p, id] => some (comps p, Node.file id.toNat!)
    | ["d", p] => some (comps p, Node.dir)
    | ["l", p, tgt] => some (comps p, Node.link (nameOf tgt))
    | _ => none)

def parseMetas (ms : String) : List FileMeta :=
  (ms.splitOn ";").filterMap (fun e => match e.splitOn ":" with
    | [id, u, sz] => some ⟨id.toNat!, u == "1", sz.toNat!⟩
    | _ => none)

def showResp : SResp → String
  | .file p id => s!"20 file{id} {if mimeGem (p.getLast?.getD "") then "gem" else "plain"} {showPath p}"
  | .listing p names => s!"20 listing {showPath p} " ++ " ".intercalate ((names.map showName).mergeSort (· ≤ ·))
  | .notFound => "51"
  | .tooLarge => "50"
  | .tempFail .notUtf8 => "40 notutf8"
  | .tempFail .denied => "40 denied"
  | .tempFail .ioError => "40 ioerror"
  | .tempFail .listing => "40 listing"
  | .raised => "raised"

def showCanon (sp : List Canon.Cps × Bool) : String :=
  showCpsNat (Canon.render sp)

/-- One long-lived handler over a document tree that changes between requests: the word `T` followed by
    `<spec> <metas>` replaces the tree, every other word is a raw request path (`!` = refused line)
    answered on the tree as it is at that moment.  The model keeps no state between requests: each
    answer is `Fs.handle` on the current tree. -/
def seqGo (one : OS → String → String) : Option OS → List String → List String
  | _, [] => []
  | _, "T" :: ts :: ms :: rest => seqGo one (some (treeOS (parseTree ts) (parseMetas ms))) rest
  | some os, raw :: rest => one os raw :: seqGo one (some os) rest
  | none, _ :: rest => "no-tree" :: seqGo one none rest

/-- `tree <spec> <path>` : realpath port and kernel walk;
    `canon <raw>` : `canonical_path`;
    `static <spec> <metas> <listing 0|1> <indices path> <maxSize> <raw>…` : the static handler on the
    document root `root` (first component) of the tree, one result per raw request path (`!` = refused line);
    `seq <listing 0|1> <indices path> <maxSize> (T <spec> <metas> | <raw>)…` : the same handler over a tree that
    is replaced between requests (see `seqGo`) -/
def handle : List String → Option String
  | ["tree", ts, p] =>
    let t := parseTree ts
    let (r, ok) := realpath t (comps p)
    let st := match statFollow t (comps p) with
      | some (q, .file id) => s!"file{id}@{showPath q}"
      | some (q, .dir) => s!"dir@{showPath q}"
      | _ => "none"
    some s!"ok {showPath r} {ok} {st}"
  | ["canon", raw] =>
    let sp := Canon.canonSegs (cpsNat raw)
    some s!"ok {showCanon sp} {showPath (sp.1.map toName)} {sp.2}"
  | "static" :: ts :: ms :: listing :: idx :: mx :: raws =>
    let t := parseTree ts
    let os := treeOS t (parseMetas ms)
    let cfg : SCfg := { root := [toName [114, 111, 111, 116]], indices := comps idx, listingOn := listing == "1", maxSize := mx.toNat! }
    let one (raw : String) : String :=
      if raw == "!" then "reject"        -- the request line was refused before any handler ran
      else
        let sp := canonSegs (cpsNat raw)
        showResp (Fs.handle os cfg sp.1 sp.2)
    some ("ok " ++ " | ".intercalate (raws.map one))
  | "seq" :: listing :: idx :: mx :: rest =>
    let cfg : SCfg := { root := [toName [114, 111, 111, 116]], indices := comps idx, listingOn := listing == "1", maxSize := mx.toNat! }
    let one (os : OS) (raw : String) : String :=
      if raw == "!" then "reject"
      else
        let sp := canonSegs (cpsNat raw)
        showResp (Fs.handle os cfg sp.1 sp.2)
    some ("ok " ++ " | ".intercalate (seqGo one none rest))
  | "tree" :: _ => some "bad-op"
  | "canon" :: _ => some "bad-op"
  | "static" :: _ => some "bad-op"
  | "seq" :: _ => some "bad-op"
  | _ => none
end NauyacaVerif.Drv.FsD
