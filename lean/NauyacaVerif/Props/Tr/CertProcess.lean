import NauyacaVerif.Gen.Fn.FindRule
import NauyacaVerif.Gen.Fn.CertProcess
import NauyacaVerif.Mw.Cert

/-! Translated `CertificateAuth._find_matching_rule` and `CertificateAuth.process_request` = the hand-written model
(`Mw.Cert.firstCover`, `Mw.Cert.process`).  `Gen/Fn/FindRule.lean` and `Gen/Fn/CertProcess.lean` are produced on every run by
`harness/translate.py` from the Python AST of the CURRENT source tree.  The request path (`_extract_path`, i.e. the canonical
path) is a parameter; the rule lookup inside `process_request` is the function `find`, instantiated with the translated lookup. -/
namespace NauyacaVerif.Translated
open NauyacaVerif.Gen Mw.Cert

theorem findRule_eq (rules : List Rule) (path : Str) : Fn.findRule rules path = firstCover rules path := by
  unfold Fn.findRule
  induction rules with
  | nil => rfl
  | cons r rs ih =>
    simp only [List.find?_cons, firstCover]
    cases h : r.pre.isPrefixOf path with
    | true => rfl
    | false => simpa using ih

def pairOf : Decision → Bool × Option (List Nat)
  | .allow => (true, none)
  | .d60 => (false, some line60)
  | .d61 => (false, some line61)

theorem suffix_slash (path : Str) : (([47] : List Nat).isSuffixOf path = true) ↔ path.getLast? = some 47 := by
  rw [List.isSuffixOf_iff_suffix]
  constructor
  · rintro ⟨t, rfl⟩; simp
  · intro h
    refine ⟨path.dropLast, ?_⟩
    induction path with
    | nil => simp at h
    | cons a t ih =>
      cases t with
      | nil => simp at h; simp [h]
      | cons b u =>
        have : (b :: u).getLast? = some 47 := by simpa [List.getLast?_cons_cons] using h
        simp only [List.dropLast_cons_cons, List.cons_append]
        rw [ih this]

/-- `process_request` (translated), with the translated lookup, is the model's `process`: same verdict, same response line.
    The proof is a brute-force case analysis over everything the decision depends on (trailing slash, the covering rule of
    each candidate, `require_cert`, certificate presented or not, list present or not, membership), so it closes for every
    spelling of the same decision (nested ifs, early returns, private helpers - which the translator marks `@[simp]`). -/
theorem certProcess_eq (rules : List Rule) (path : Str) (fp : Option Fp) :
    Fn.certProcess (Fn.findRule rules) path fp = pairOf (process rules path fp) := by
  have hsl := suffix_slash path
  by_cases hs : ([47] : List Nat).isSuffixOf path = true
  · have hl := hsl.mp hs
    simp only [Fn.certProcess, process, stricter, policy, findRule_eq]
    simp [hs, hl, List.findSome?_cons, -List.isSuffixOf_iff_suffix] 
    first
      | done
      | (cases h1 : firstCover rules path with
         | none => simp_all [pairOf]
         | some r => (cases hq : r.requireCert <;> rcases fp with _ | f <;> rcases ha : r.allowed with _ | l <;> (try simp_all [applyRule, pairOf, line60, line61]) <;> (try (by_cases hm : f ∈ l <;> simp_all [pairOf, line60, line61]))))
  · have hl : ¬ path.getLast? = some 47 := fun h => hs (hsl.mpr h)
    simp only [Fn.certProcess, process, stricter, policy, findRule_eq]
    simp [hs, hl, List.findSome?_cons]
    first
      | done
      | (cases h1 : firstCover rules path with
         | none =>
           cases h2 : firstCover rules (path ++ [47]) with
           | none => simp_all [pairOf]
           | some r2 => (cases hq : r2.requireCert <;> rcases fp with _ | f <;> rcases ha : r2.allowed with _ | l <;> (try simp_all [applyRule, pairOf, line60, line61]) <;> (try (by_cases hm : f ∈ l <;> simp_all [pairOf, line60, line61])))
         | some r =>
           cases h2 : firstCover rules (path ++ [47]) with
           | none => (cases hq : r.requireCert <;> rcases fp with _ | f <;> rcases ha : r.allowed with _ | l <;> (try simp_all [applyRule, pairOf, line60, line61]) <;> (try (by_cases hm : f ∈ l <;> simp_all [pairOf, line60, line61])))
           | some r2 =>
             cases hq : r.requireCert <;> cases hq2 : r2.requireCert <;> rcases fp with _ | f <;> rcases ha : r.allowed with _ | l <;> rcases ha2 : r2.allowed with _ | l2 <;>
               (try simp_all [applyRule, pairOf, line60, line61]) <;>
               (try (by_cases hm : f ∈ l <;> (try simp_all [pairOf, line60, line61]) <;> (try (by_cases hm2 : f ∈ l2 <;> simp_all [pairOf, line60, line61])))) <;>
               (try (by_cases hm2 : f ∈ l2 <;> simp_all [pairOf, line60, line61])))

/-- non-vacuity: a protected directory asked for without trailing slash and without certificate is refused with 60 -/
example : Fn.certProcess (Fn.findRule [⟨[47, 97, 47], true, none⟩]) [47, 97] none = (false, some line60) := by decide
end NauyacaVerif.Translated
