import NauyacaVerif.Srv.Conn
namespace Srv

/-- what one TCP read completes, in order (TLS records are reassembled by the engine) -/
inductive Item where
  | hs            -- a handshake record that does not finish the handshake
  | hsFinal       -- the record that completes the handshake
  | app (p : Bytes)
  | closeNotify
  | bad           -- anything the engine rejects (plaintext, alert, garbage)
deriving Repr

structure PSt where
  hsDone : Bool := false
  hsTimer : Bool := true
  tcpClosed : Bool := false
  lost : Bool := false
  inner : Option St := none
deriving Repr

def chunks (n : Nat) (b : Bytes) : List Bytes :=
  if h : n = 0 ∨ b.length ≤ n then (if b.isEmpty then [] else [b])
  else b.take n :: chunks n (b.drop n)
termination_by b.length
decreasing_by simp at h; simp; omega

def recvSize : Nat := 8192

def innerFeed (cfg : Cfg) (inner : St) (p : Bytes) : St :=
  (chunks recvSize p).foldl (fun s c => step cfg s (.data c)) inner

/-- the inner transport is the wrapper: once the inner protocol has closed, the TCP side is closed too -/
def syncClosed (p : PSt) : PSt :=
  match p.inner with
  | some i => if i.sent then { p with tcpClosed := true } else p
  | none => p

/-- application-data loop (`_process_application_data` / `_process_pending_after_handshake`) -/
def appLoop (cfg : Cfg) (p : PSt) : List Item → PSt
  | [] => p
  | .app d :: rest =>
    let p := match p.inner with
      | some i => syncClosed { p with inner := some (innerFeed cfg i d) }
      | none => p
    appLoop cfg p rest
  | .closeNotify :: _ =>   -- ZeroReturnError: _handle_close, loop ends
    { p with inner := p.inner.map (fun i => step cfg i .lost), tcpClosed := true }
  | _ :: _ =>              -- SSL.Error: _close_with_error, loop ends
    { p with tcpClosed := true }

/-- one TCP read -/
def pumpRead (cfg : Cfg) (p : PSt) (items : List Item) : PSt :=
  if p.lost ∨ p.tcpClosed then p else
  if p.hsDone then appLoop cfg p items else
  -- handshake phase: walk items until the handshake completes
  let rec go : PSt → List Item → PSt
    | p, [] => p
    | p, .hs :: rest => go p rest
    | p, .hsFinal :: rest =>
      appLoop cfg { p with hsDone := true, hsTimer := false, inner := some {} } rest
    | p, _ :: _ => { p with tcpClosed := true }     -- handshake failed: close, no inner protocol
  go p items

inductive PEv where
  | read (items : List Item)
  | hsTimeout
  | innerEv (e : Ev)      -- timer / task completion delivered to the inner protocol
  | tcpLost
deriving Repr

def pumpStep (cfg : Cfg) (p : PSt) : PEv → PSt
  | .read items => pumpRead cfg p items
  | .hsTimeout => if p.hsTimer ∧ !p.hsDone ∧ !p.lost then { p with tcpClosed := true, hsTimer := false } else p
  | .innerEv e => syncClosed { p with inner := p.inner.map (fun i => step cfg i e) }
  | .tcpLost => { p with lost := true, hsTimer := false, inner := p.inner.map (fun i => step cfg i .lost) }

def pumpRun (cfg : Cfg) (evs : List PEv) : PSt := evs.foldl (pumpStep cfg) {}

/-- the plaintext the peer decrypts: every exact write of the inner protocol, in order -/
def plainOut (p : PSt) : Bytes :=
  match p.inner with
  | none => []
  | some i => (i.out.map (fun o => match o with | .exact b => b | _ => [])).flatten
end Srv
