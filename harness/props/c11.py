"""C11  TOFU: nothing is sent to a peer before its certificate is verified

Correspondence: the real `GeminiClient.get / upload / delete` (and a redirect hop) against scripted
loopback TLS peers that record every application byte they receive, in pinned / unpinned / changed /
unreadable situations, with peers that read eagerly, lazily or not at all; compared with the effect
trace of `Misc.connect` (driver `tofu` line: was anything written to the peer on each connection).
"""
from __future__ import annotations

import asyncio
import hashlib
import os
import random
import shutil
import tempfile
from pathlib import Path

from ..core import Family
from ..sim import client_holdpeer as H
from ..sim.client_storefault import store_fault
from .c03 import CA_FIRST, CERT_FP, CERTS, DOTTED_FIRST, HOSTS, SELF_TWINS, SHM, TWIN_PAIRS, Runner, cert_desc, expected_steps, sem, spell, variant_id

ID = "C11"
READY = True
LEAN_TARGETS = ["NauyacaVerif.Props.C11"]
THEOREMS = [f"NauyacaVerif.C11.{t}" for t in (
    "send_after_verify", "send_position", "verify_fail_sends_nothing", "accepted_request_intact", "history_guarded",
    "history_send_position", "history_fail_silent", "chain_trace", "redirect_guarded", "store_fault_sends_nothing")]
LEAN_TARGETS = LEAN_TARGETS + ["NauyacaVerif.Props.Tr.GetSingleTail"]
TRANSLATED = ["getSingleTail", "uploadTail"]
THEOREMS = THEOREMS + [f"NauyacaVerif.Translated.{t}" for t in ("getSingleTail_eq", "getSingleTail_fault", "uploadTail_eq", "uploadTail_fault")]
EXTRACT: list[str] = []
ASSUMPTIONS = [
    "parameters of the model (not verified): the TLS handshake (everything before create_connection returns is asyncio's and OpenSSL's; the ClientHello carries the host name as SNI, which is part of the handshake and outside this property), X.509 parsing, SHA-256, SQLite",
    "the request is modelled as the list of transport.write calls of send_request (one for Gemini, request line + content for Titan); the peers observe the decrypted application byte stream",
    "a peer that never reads is observed by draining its socket after the client has gone: what the client wrote before closing is what sits in the kernel buffers",
    "clients that also verify the certificate chain (verify_ssl=True together with TOFU) are run against certificates issued by a CA made by the harness, trusted through SSL_CERT_FILE or through an ssl_context handed to the constructor; a chain that verifies is not a pin that matches",
    "a dropped connection is followed by a queued script of an impostor on the same port: correct code never connects a second time, so the script stays unused",
    "the client object is also driven as an async context manager (inside a block, after a block, re-entered, and shared by two coroutines whose blocks overlap): "
    "how the application holds the object is not part of the property, so the same pin check must precede every send",
    "host names are also spelled as look-alike names and as absolute DNS names with a trailing dot (resolved to 127.0.0.1 by the harness); the pin is made under the "
    "spelling the URL uses (TOFUDatabase.trust / import_toml / first use), so the check does not depend on whether the code treats 'host.' and 'host' as one host",
    "look-alike certificates (same issuer + serial number around another key, same key under another serial number; also one issued by the harness CA) stand in for the "
    "changed certificate and for the impostor behind a dropped connection",
    "host names are case-insensitive (RFC 3986 3.2.2, DNS): a URL - typed, or the target of a redirect - that writes the letters of a pinned host's name in another "
    "case (LOCALHOST, Localhost, localhosT) addresses the pinned host; the pin is made under the lower-case name (TOFUDatabase.trust / import_toml / old-schema row / "
    "the client's own first use through a lower-case URL).  The request line may carry either spelling (the property does not say)",
    "a second call (get or upload to ANOTHER host:port - never seen, pinned, pinned to another certificate, or with nobody listening) may be in flight on the same "
    "client object while the call under test is made (asyncio.gather; started just before or 0..3 ms after it): one client object serving several coroutines is the "
    "ordinary use of a long-lived application, and each connection - also the bystander's - must pass the check against the pin of the host:port IT was made to",
    "two calls to the SAME host:port may be in flight on one TOFU store (one client object, or two client objects on one store file), their peers presenting "
    "different certificates (the genuine server and an impostor on the path of one connection); the scripted peer can hold its TLS handshake back "
    "(sim/client_holdpeer.py), so the order in which the two handshakes complete is the harness's choice.  The pin that counts for a connection is the one in "
    "force when ITS certificate is checked, i.e. after its handshake: a host that was unpinned when the call began and has been pinned meanwhile is a pinned host. "
    "Whatever the order, two different certificates for one host:port cannot both pass the check against one store",
    "a pin stays in force however many OTHER host:port pairs the store sees for the first time afterwards (300 / 1100 / in the thorough tier 2100 of them, recorded "
    "the way the client records a first use: TOFUDatabase.trust): a store has no licence to forget a pin, so the impostor of a host pinned long ago must still be "
    "refused with nothing sent",
    "a peer may put further certificates behind its own in its Certificate message (copies of any PUBLIC certificate: the one the host is pinned to, an unrelated "
    "one) - it needs no key for them and, the TOFU context being CERT_NONE, nothing verifies that they form a chain.  The certificate OF THE PEER is the first "
    "one, the one whose key it proved in the handshake: that one has to pass the pin check, whatever follows it (sim/client_tlspeer.py step append_certs)",
]
LEVEL_TEXT = ("Lean 4 theorems over a hand-written model of the ordered effect trace of GeminiClient._get_single / upload (connect, verify, trust, "
              "send, await, close), for every store, key, presented certificate and payload, lifted to arbitrary histories and redirect chains; the model "
              "is tied to /repo by differential runs of the real client against scripted loopback TLS peers that log the application bytes they receive")
LEVEL_NOTE = ("proved for the model, not for the Python source; the TLS handshake, X.509 parsing and SHA-256 are parameters; 'before' is observed "
              "at the peer (bytes received when verification fails must be empty), not by instrumenting the client")
TECHNIQUE = "interactive theorem proving (Lean 4) + model-based differential testing against live loopback TLS peers recording application bytes"

# "changed-after-ok": the SAME GeminiClient object first talks to the host successfully (certificate X, pinned on first use),
# then the host presents another certificate on the next connection
SITUATIONS = ["unpinned", "pinned", "changed", "changed-after-ok", "hostile", "patched-raise", "patched-none"]
OPS = ["get", "getq", "upload", "delete", "chain"]
MODES = ["eager", "lazy", "never"]
# further dimensions of a scenario (all optional in a case; the defaults are the plain scenario):
#   warm        the SAME client object first completes a verified request elsewhere, shown the certificate the target will present:
#               "other-port" = same host name, other port; "other-host" = other host name, same port
#   chain_same  the redirecting hop is the target's host name on the other port and presents the target's certificate
#   pin_via     how the pin entered the store: TOFUDatabase.trust, or import_toml with the fingerprint spelled
#               canonically / "sha256:<HEX>" / "SHA256:<hex>" / "SHA256:<HEX>", or "legacy": the store file exists before the
#               client does, written with plain SQL in the released schema (a store made by an earlier installation)
#   fault       the pin store fails during the call: "select" (pin lookup raises OperationalError), "locked" (a real
#               EXCLUSIVE lock held by another connection), "write" (INSERT/UPDATE/commit fail: trust of a first use)
#   vssl        the client ALSO verifies the chain (GeminiClient(verify_ssl=True, trust_on_first_use=True)): "env" = the context the
#               client builds itself, the harness CA trusted through SSL_CERT_FILE; "ctx" = an ssl_context (CERT_REQUIRED, host name
#               check, harness CA loaded) handed to the constructor; "flag" = verify_ssl=True with a caller-made context that does not
#               verify.  With "env"/"ctx" the peers present CA-issued certificates (indices CA_FIRST..): the impostor's chain is fine
#   drop        the connection that is (rightly) sent the request is dropped before any answer byte: "close" (FIN), "close_notify",
#               "reset"; behind it an impostor's script is queued on the same port (another certificate, reads eagerly)
#   twin        the two certificates of the scenario (the pinned one and the one presented instead; the impostor behind a dropped
#               connection) are a certificate and its LOOK-ALIKE (sim/client_pki.py): another DER around the same issuer name +
#               serial number, or around the same key.  `cert` is then one of the pair, the "other" certificate its partner
#   life        how the application holds the client object (it is an async context manager): "with" = the call is made inside
#               `async with client:`; "after-with" = a block was entered and left, then the client is used bare; "reentered" = a
#               block was left and a second one entered; "overlap" = ANOTHER coroutine's `async with client:` block on the same
#               object is left while ours is open, then the call is made
#   host        may also be a further spelling of a name: look-alike names and absolute DNS names with a trailing dot
#               ("localhost."); pins are made under the spelling the URL uses
#   hcase       the URL of the call (and, in a chain, the redirect target the first hop sends) writes the LETTERS of the host name in
#               another case: "upper" LOCALHOST, "title" Localhost, "mixed" lOcAlHoSt, "last" localhosT.  Host names are
#               case-insensitive, so this is the pinned host; the pin was made under the lower-case name
#   along       a BYSTANDER call in flight on the same client object while the call under test is made: {"op": get|upload,
#               "host": name index (its port is the OTHER peer's, or a port nobody listens on), "state": how that host:port is
#               known to the store - "unpinned" | "pinned" (to the certificate it presents) | "changed" (to another one) | "dead"
#               (nobody listens), "same_cert": it presents the certificate the target presents, "order": started "before" or
#               "after" the call under test, "gap": milliseconds between the two starts}
#   rival       a SECOND call to the SAME host:port in flight on the same TOFU store while the call under test is made: {"op": get|upload,
#               "cert": its peer presents the "same" certificate as the target presents or the "other" one (the pinned one in a
#               "changed" scenario), "who": made by the "same" client object or by an"other" client object on the same store file,
#               "how": "hold" = the peer of the call under test holds its TLS handshake back until the rival call has COMPLETED, then lets it
#               go; "hold-rival" = the other way round (the rival's handshake is held until the call under test has completed);
#               "gather" = both started `gap` ms apart, nobody holds (which connection is shown which certificate is then decided by the
#               accept order), "order": who starts first ("gather" only)}
#   crowd       between the making of the target's pin and the call, the same store sees N OTHER host:port pairs for the first time
#               (TOFUDatabase.trust = what the client does on a first use): {"n": N, "shape": "names" (other host names, the target's port
#               number) | "ports" (the target's host name, other port numbers) | "mixed"}
#   pad         the scripted peers of the scenario (the target, the impostor behind a dropped connection, the rival's and the bystander's peer) put
#               FURTHER certificates behind their own in the Certificate message, a list of: "counter" = a copy of the scenario's other
#               certificate (for the peer of a "changed" host, for an impostor: the certificate the host is PINNED to; for the genuine peer: the
#               impostor's), "third" = a copy of a certificate that plays no part in the scenario.  The peer's own certificate stays the first
PADS = [["counter"], ["third", "counter"], ["counter", "third"], ["third"]]
WARMS = [None, "other-port", "other-host"]
RIVAL_HOWS = ["hold", "hold-rival", "gather"]
RIVAL_SITS = ("unpinned", "pinned", "changed")
CROWD_SHAPES = ["names", "ports", "mixed"]
HCASES = [None, "upper", "title", "mixed", "last"]
# names with letters: not the IP literals, and not the look-alike with a `%` (not a name of any DNS; urllib keeps the case of whatever
# follows a `%` in the authority - for a zone id - so that name in another case IS another TOFU key in the code as it stands)
CASED_HOSTS = [0, 0, 3, 4, 5] + list(range(DOTTED_FIRST, len(HOSTS)))
ALONG_STATES = ["unpinned", "pinned", "changed", "dead"]
ALONG_SITS = ("unpinned", "pinned", "changed", "changed-after-ok", "hostile")


def recase(name: str, how: str | None) -> str:
    """another spelling of the same (case-insensitive) host name"""
    if how == "upper":
        return name.upper()
    if how == "title":
        return name.title()
    if how == "mixed":
        return "".join(ch.upper() if i % 2 else ch for i, ch in enumerate(name))
    if how == "last":
        i = max((j for j, ch in enumerate(name) if ch.isalpha()), default=None)
        return name if i is None else name[:i] + name[i].upper() + name[i + 1:]
    return name


class SpellRunner(Runner):
    """the Runner of C03 whose URLs (request URL, redirect targets) can write the host's letters in another case"""
    hcase = None

    def url(self, h: int, p: int, path: str) -> str:
        u = super().url(h, p, path)
        name = HOSTS[h]
        if self.hcase and ":" not in name and "%" not in name:
            u = "gemini://" + recase(name, self.hcase) + u[len("gemini://") + len(name):]
        return u


def pad_names(case, leaf: int, counter: int | None = None) -> list:
    """names of the certificates a peer presenting `leaf` appends to its Certificate message ([] = none)"""
    pad = case.get("pad")
    if not pad:
        return []
    c = case["cert"]
    o = other_cert(c, case.get("twin"))
    if counter is None:
        counter = c if leaf == o else o
    third = next(x for x in (2, 0, 1, 4) if x not in (c, o, leaf, counter))
    return [CERTS[counter if tok == "counter" else third] for tok in pad]


def pad_desc(case, leaf: int, pinned: int | None = None, counter: int | None = None) -> str:
    names = pad_names(case, leaf, counter)
    if not names:
        return ""
    return (f" [the peer's own certificate {CERTS[leaf]!r} FOLLOWED in its Certificate message by a copy of "
            + " and of ".join(repr(n) + (" (the certificate the host is pinned to)" if pinned is not None and n == CERTS[pinned] else "") for n in names) + "]")


def chain_desc(p) -> str:
    """what a connection's peer put behind its own certificate, for the messages"""
    ch = (p.get("chain") or [])[1:]
    return f" FOLLOWED in the Certificate message by a copy of {' and of '.join(repr(n) for n in ch)}" if ch else ""


def along_cert(case) -> int:
    """the certificate the bystander's peer presents"""
    return case["cert"] if case["along"].get("same_cert") else other_cert(case["cert"])


def along_pin(case):
    """certificate index the bystander's host:port is pinned to before the calls, or None"""
    st = case["along"]["state"]
    if st == "pinned":
        return along_cert(case)
    if st == "changed":
        return other_cert(along_cert(case))
    return None


def along_desc(case) -> str:
    al = case.get("along")
    if not al:
        return ""
    return f" WHILE a {al['op']} to {HOSTS[al['host']]!r} (other port; {al['state']} there), started {al['gap']} ms {al['order']} it, was in flight on the same client object"



def rival_cert(case) -> int:
    """the certificate the rival call's peer presents"""
    return case["cert"] if case["rival"]["cert"] == "same" else other_cert(case["cert"], case.get("twin"))


def rival_desc(case) -> str:
    rv = case.get("rival")
    if not rv:
        return ""
    who = "the same client object" if rv["who"] == "same" else "another client object on the same store file"
    if rv["how"] == "hold":
        return (f" whose peer held its TLS handshake back WHILE a {rv['op']} of {who} to the SAME host:port was shown certificate {CERTS[rival_cert(case)]!r} and completed "
                f"(then the handshake was let go)")
    if rv["how"] == "hold-rival":
        return f" made WHILE the peer of a {rv['op']} of {who} to the SAME host:port (certificate {CERTS[rival_cert(case)]!r}) held its TLS handshake back"
    return f" WHILE a {rv['op']} of {who} to the SAME host:port (certificate {CERTS[rival_cert(case)]!r}), started {rv.get('gap', 0)} ms apart, was in flight"


def crowd_desc(case) -> str:
    cr = case.get("crowd")
    if not cr:
        return ""
    return f" AFTER the store, the pin made, had seen {cr['n']} OTHER host:port pairs for the first time (TOFUDatabase.trust; {cr['shape']})"


def crowd_keys(case, hostname: str, port: int, avoid) -> list:
    """the other host:port pairs of a crowd: never the target's pair, never a port of the harness"""
    cr = case["crowd"]
    out = []
    for i in range(cr["n"]):
        shape = cr["shape"] if cr["shape"] != "mixed" else ("names", "ports", "far")[i % 3]
        if shape == "names":
            out.append((f"n{i}.crowd.test", port))
        elif shape == "ports":
            q = 20000 + i
            while q in avoid:
                q += 30000
            out.append((hostname, q))
        else:
            out.append((f"f{i}.elsewhere.test", 1965))
    return out

LIVES = [None, "with", "after-with", "reentered", "overlap"]
TWIN_PARTNER = {a: b for pr in TWIN_PAIRS for a, b in (pr, pr[::-1])}
SPELLED_HOSTS = [3, 4] + list(range(DOTTED_FIRST, len(HOSTS)))
VSSLS = [None, "env", "ctx", "flag"]
DROPS = [None, "close", "close_notify", "reset"]


def other_cert(c: int, twin: bool = False) -> int:
    """a different certificate of the same kind (self-signed 0..2 / CA-issued CA_FIRST..); twin: the look-alike partner of c"""
    if twin:
        return TWIN_PARTNER[c]
    if c >= CA_FIRST + 3:
        return CA_FIRST if CERTS[c].startswith("tw_serial_ca") else (c + 1) % 3
    return CA_FIRST + (c - CA_FIRST + 1) % 3 if c >= CA_FIRST else (c + 1) % 3

PIN_VIAS = ["trust", "import", "import-0", "import-1", "import-2", "legacy"]
FAULTS = [None, "select", "locked", "write"]


def content_of(case) -> bytes:
    n = case["size"]
    if n == 0:
        return b""
    seed = hashlib.sha256(f"c11:{n}:{case.get('cseed', 0)}".encode()).digest()
    return (seed * (n // len(seed) + 1))[:n]


def should_fail(case):
    """verification cannot pass: changed / unreadable certificate, or the pin cannot be looked up (None: not determined by the case)"""
    if not case["tofu"]:
        return False
    rv = case.get("rival")
    if rv and rv["cert"] == "other":
        if rv["how"] == "gather":
            return None            # which of the two connections is shown which certificate is decided by the accept order: see oracle_rival
        if rv["how"] == "hold" and case["situation"] == "unpinned":
            return True            # the rival call pinned the OTHER certificate while this call's handshake was held back
    return case["situation"] not in ("unpinned", "pinned") or case.get("fault") in ("select", "locked")


class Scenarios(Family):
    realtime = True     # runs on the wall clock (sockets, threads): a failure is re-run once before it counts (core.run_family)
    name = "scenarios"
    quick_n = 1050
    thorough_n = 4000
    parallel = True      # every process binds its own ports (port 0) in setup()

    def setup(self):
        import socket

        self.R = SpellRunner()
        for p in self.R.peers:
            H.install(p)         # the step ["hold", gate, timeout]: the TLS handshake of that connection waits for the harness
        self.gate_n = 0
        # a port of this machine nobody listens on (bound, never listening: connecting is refused; kept for the life of the process)
        self.dead_sock = socket.socket()
        self.dead_sock.bind(("127.0.0.1", 0))
        self.dead_port = self.dead_sock.getsockname()[1]

    def gen(self, rng: random.Random, n: int):
        thorough = n > self.quick_n
        sizes = [0, 1, 7, 1000, 16384, 70000] + ([262144, 1048576] if thorough else [])
        count = 0

        def extra(sit, op):
            """the further dimensions, compatible with the situation"""
            d = {"warm": None, "chain_same": False, "pin_via": "trust", "fault": None, "vssl": None, "drop": None, "twin": False, "life": None}
            r = rng.random()
            if r < 0.25:
                d["warm"] = rng.choice(WARMS[1:])
            if op == "chain" and rng.random() < 0.5:
                d["chain_same"] = True
            if sit in ("pinned", "changed", "hostile", "patched-raise", "patched-none") and rng.random() < 0.5:
                d["pin_via"] = rng.choice(PIN_VIAS[1:])
            if rng.random() < 0.2:
                d["fault"] = rng.choice(["select", "locked"]) if sit != "unpinned" or rng.random() < 0.6 else "write"
            if rng.random() < 0.3:
                d["vssl"] = rng.choice(VSSLS[1:])
                if d["vssl"] in ("env", "ctx"):
                    d["cert"] = CA_FIRST + rng.randrange(3)          # overrides the case's certificate
                    if d["pin_via"].startswith("import-"):
                        d["pin_via"] = "import"                      # the CA-issued certificates have no spelled variants
            if sit in ("unpinned", "pinned") and not d["fault"] and rng.random() < 0.3:
                d["drop"] = rng.choice(DROPS[1:])
            if rng.random() < 0.15:
                d["twin"] = True
                ca = d["vssl"] in ("env", "ctx")
                d["cert"] = rng.choice([c for c in TWIN_PARTNER if (CERTS[c].startswith(("ca_", "tw_serial_ca"))) == ca])
                if d["pin_via"].startswith("import-"):
                    d["pin_via"] = "import"                          # the look-alikes have no spelled variants
            if rng.random() < 0.2:
                d["life"] = rng.choice(LIVES[1:])
            if rng.random() < 0.12:
                d["host"] = rng.choice(SPELLED_HOSTS)
                if d["vssl"] in ("env", "ctx"):
                    d["vssl"] = "flag"                               # the CA-issued certificates do not name these spellings
                    d.pop("cert", None)
                    d["twin"] = False
            if rng.random() < 0.12:
                d["hcase"] = rng.choice(HCASES[1:])
                d["host"] = rng.choice(CASED_HOSTS)
                if d["host"] != 0 and d["vssl"] in ("env", "ctx"):
                    d["vssl"] = "flag"                               # the CA-issued certificates do not name these spellings
                    d.pop("cert", None)
                    d["twin"] = False
            if op != "chain" and sit in ALONG_SITS and rng.random() < 0.15:
                # the bystander has the other port to itself: no redirecting hop, no earlier call there; the store works
                d["along"] = {"op": rng.choice(["get", "upload"]), "host": rng.randrange(3), "state": rng.choice(ALONG_STATES), "same_cert": rng.random() < 0.5,
                              "order": rng.choice(["after", "after", "before"]), "gap": rng.choice([0, 0, 1, 3])}
                d["warm"] = None
                d["fault"] = None
            elif op != "chain" and sit in RIVAL_SITS and rng.random() < 0.1:
                # a second call to the SAME host:port on the same store; no earlier call there, no queued impostor, the store works
                d["rival"] = {"op": rng.choice(["get", "upload"]), "cert": rng.choice(["other", "other", "same"]), "who": rng.choice(["same", "same", "other"]),
                              "how": rng.choice(RIVAL_HOWS), "order": rng.choice(["after", "before"]), "gap": rng.choice([0, 0, 1, 3])}
                d["warm"] = None
                d["fault"] = None
                d["drop"] = None
            if rng.random() < 0.15:
                d["pad"] = list(rng.choice(PADS))
            if rng.random() < 0.02:
                d["crowd"] = {"n": rng.choice([300, 1100, 1100] + ([2100] if thorough else [])), "shape": rng.choice(CROWD_SHAPES)}
            return d

        def fix(c):
            # a self-signed certificate the parser rejects cannot complete a handshake that verifies the chain
            if c.get("vssl") in ("env", "ctx") and c["situation"] == "hostile":
                c["situation"] = "patched-raise"
                c.pop("along", None)                                 # the loader patch is process-wide
            return c

        # deterministic witness grid of the further dimensions (shared out over the shards, never cut)
        wit = []
        for op in ("getq", "upload", "chain"):
            for warm in WARMS[1:]:
                wit.append({"situation": "changed", "op": op, "warm": warm, "chain_same": op == "chain"})
            for via in PIN_VIAS[1:]:
                for sit in ("pinned", "changed"):
                    wit.append({"situation": sit, "op": op, "pin_via": via})
            for fault in ("select", "locked"):
                for sit in ("unpinned", "pinned", "changed"):
                    wit.append({"situation": sit, "op": op, "fault": fault})
            wit.append({"situation": "unpinned", "op": op, "fault": "write"})
        for op in ("get", "getq", "upload", "delete", "chain"):
            for vssl in VSSLS[1:]:
                for sit in ("unpinned", "pinned", "changed", "changed-after-ok", "patched-none"):
                    w = {"situation": sit, "op": op, "vssl": vssl}
                    if vssl != "flag":
                        w["cert"] = CA_FIRST + (len(wit) % 3)
                    wit.append(w)
            for drop in DROPS[1:]:
                for sit in ("unpinned", "pinned"):
                    wit.append({"situation": sit, "op": op, "drop": drop})
            for life in LIVES[1:]:
                for sit in ("pinned", "changed", "changed-after-ok"):
                    wit.append({"situation": sit, "op": op, "life": life})
            for host in SPELLED_HOSTS:
                for sit in ("pinned", "changed", "changed-after-ok"):
                    wit.append({"situation": sit, "op": op, "host": host, "pin_via": PIN_VIAS[len(wit) % 2]})
            for c in sorted(TWIN_PARTNER):
                ca = CERTS[c].startswith(("ca_", "tw_serial_ca"))
                for sit in ("changed", "changed-after-ok", "pinned"):
                    w = {"situation": sit, "op": op, "twin": True, "cert": c, "pin_via": PIN_VIAS[len(wit) % 2]}
                    if ca:
                        w["vssl"] = ("env", "ctx")[len(wit) % 2]
                    if sit == "pinned":
                        w["drop"] = DROPS[1 + len(wit) % 3]
                    wit.append(w)
            # the host's letters written in another case: the pinned host all the same
            for hcase in ("upper", "title", "last"):
                for sit in ("pinned", "changed", "changed-after-ok"):
                    wit.append({"situation": sit, "op": op, "hcase": hcase, "host": CASED_HOSTS[len(wit) % len(CASED_HOSTS)], "pin_via": PIN_VIAS[len(wit) % len(PIN_VIAS)]})
        # a second call in flight on the same client object
        for op in ("getq", "upload", "delete"):
            for sit in ("changed", "changed-after-ok", "unpinned", "pinned"):
                for state, order, gap in (("unpinned", "after", 0), ("unpinned", "after", 1), ("unpinned", "before", 0), ("pinned", "after", 0), ("changed", "after", 0),
                                          ("changed", "before", 0), ("dead", "after", 0), ("dead", "after", 1)):
                    if sit == "pinned" and (gap or state == "pinned"):
                        continue
                    wit.append({"situation": sit, "op": op, "along": {"op": ("get", "upload")[len(wit) % 2], "host": len(wit) % 3, "state": state,
                                                                      "same_cert": state == "pinned" or len(wit) % 4 == 0, "order": order, "gap": gap}})
        # a second call to the SAME host:port on the same store, the order of the two handshakes chosen by the harness
        for op in ("getq", "upload", "delete"):
            for sit, how, rcert, who, gap in (("unpinned", "hold", "other", "same", 0), ("unpinned", "hold", "other", "other", 0), ("unpinned", "hold-rival", "other", "same", 0),
                                              ("unpinned", "gather", "other", "same", 0), ("unpinned", "gather", "other", "other", 1), ("unpinned", "hold", "same", "same", 0),
                                              ("pinned", "hold", "other", "same", 0), ("pinned", "hold-rival", "same", "other", 0), ("changed", "hold", "other", "same", 0),
                                              ("changed", "hold-rival", "same", "same", 0), ("changed", "gather", "other", "same", 0)):
                wit.append({"situation": sit, "op": op, "rival": {"op": ("upload", "get")[len(wit) % 2], "cert": rcert, "who": who, "how": how,
                                                                  "order": ("after", "before")[len(wit) % 2], "gap": gap}})
        # a pin made long ago: the store has seen many other hosts since
        for op in ("getq", "upload", "delete", "chain"):
            for sit, n_others, shape, via in (("changed", 1100, "names", "trust"), ("changed-after-ok", 1100, "mixed", "trust"), ("changed", 300, "ports", "legacy"),
                                              ("pinned", 1100, "mixed", "import")):
                wit.append({"situation": sit, "op": op, "pin_via": via, "crowd": {"n": n_others, "shape": shape}})
        # peers that put further certificates behind their own (a copy of the pinned one, an unrelated one): the first one is the peer's
        for op in ("get", "getq", "upload", "delete", "chain"):
            for sit, pad, more in (("changed", PADS[0], {}), ("changed", PADS[1], {}), ("changed", PADS[2], {}), ("changed", PADS[3], {}),
                                   ("changed-after-ok", PADS[0], {}), ("changed-after-ok", PADS[1], {}), ("hostile", PADS[0], {"cseed": 2 * len(wit)}),
                                   ("pinned", PADS[0], {}), ("pinned", PADS[3], {}), ("unpinned", PADS[0], {}),
                                   ("pinned", PADS[0], {"drop": "close"}), ("unpinned", PADS[1], {"drop": "reset"}),
                                   ("changed", PADS[0], {"vssl": "env", "cert": CA_FIRST}), ("changed", PADS[1], {"vssl": "ctx", "cert": CA_FIRST + 1}),
                                   ("changed", PADS[0], {"vssl": "flag"}), ("changed", PADS[0], {"twin": True, "cert": sorted(SELF_TWINS)[len(wit) % len(SELF_TWINS)]}),
                                   ("changed", PADS[0], {"life": "with"}), ("changed", PADS[0], {"hcase": "upper", "host": 0})):
                wit.append(dict({"situation": sit, "op": op, "pad": list(pad), "cert": len(wit) % 3,
                                 "pin_via": ("trust", "import", "legacy")[len(wit) % 3] if sit != "unpinned" and not more.get("twin") and not more.get("vssl") else "trust"}, **more))
        for op in ("getq", "upload", "delete"):
            for sit, how, rcert in (("unpinned", "hold", "other"), ("pinned", "hold", "other"), ("pinned", "hold-rival", "other"), ("changed", "hold-rival", "same")):
                wit.append({"situation": sit, "op": op, "pad": list(PADS[len(wit) % 2]),
                            "rival": {"op": ("upload", "get")[len(wit) % 2], "cert": rcert, "who": ("same", "other")[len(wit) % 2], "how": how, "order": "after", "gap": 0}})
            for sit, state in (("changed", "changed"), ("pinned", "changed"), ("unpinned", "pinned")):
                wit.append({"situation": sit, "op": op, "pad": list(PADS[len(wit) % 2]),
                            "along": {"op": ("get", "upload")[len(wit) % 2], "host": len(wit) % 3, "state": state, "same_cert": len(wit) % 2 == 0, "order": "after", "gap": 0}})
        for i, wcase in enumerate(self.share(wit)):
            count += 1
            base = {"tofu": True, "mode": MODES[i % 3], "cert": [0, 1, 2, 4, 5][i % 5], "size": 1000 if wcase["op"] == "upload" else 0,
                    "token": "s3cr3t-token", "host": i % 3, "cseed": i, "warm": None, "chain_same": False, "pin_via": "trust", "fault": None,
                    "vssl": None, "drop": None, "twin": False, "life": None}
            base.update(wcase)
            yield base
        # systematic part: situation x operation x reading mode, a different random half of the grid in every shard
        grid = [(sit, op, mode) for sit in SITUATIONS for op in OPS for mode in MODES]
        rng.shuffle(grid)
        for sit, op, mode in grid[: max(1, n // 3)]:
            count += 1
            c = {"tofu": True, "situation": sit, "op": op, "mode": mode, "cert": rng.choice([0, 1, 2, 4, 5]), "size": rng.choice(sizes[1:5]) if op == "upload" else 0,
                 "token": "s3cr3t-token", "host": rng.randrange(3), "cseed": rng.randrange(1000)}
            c.update(extra(sit, op))
            yield fix(c)
        while count < n:
            count += 1
            op = rng.choice(OPS)
            sit = rng.choice(SITUATIONS)
            sz = rng.choice(sizes) if op == "upload" else 0
            if op == "upload" and rng.random() < 0.3:
                sz = rng.randint(0, 100000)
            c = {"tofu": rng.random() < 0.93, "situation": sit, "op": op, "mode": rng.choice(MODES), "cert": rng.choice([0, 1, 2, 4, 5]),
                 "size": sz, "token": rng.choice([None, "tok", "s3cr3t-" + "x" * rng.randrange(0, 40)]), "host": rng.randrange(3), "cseed": rng.randrange(1000)}
            c.update(extra(sit, op))
            yield fix(c)

    # what the peer should receive if (and only if) verification passes -- straight from the protocol definitions
    def request_bytes(self, case, url: str, kind: str) -> bytes:
        if kind == "get":
            return url.encode() + b"\r\n"
        content = content_of(case) if kind == "upload" else b""
        line = "titan://" + url[len("gemini://"):] + f";size={len(content)};mime=text/gemini"
        if case["token"]:
            line += f";token={case['token']}"
        return line.encode() + b"\r\n" + content

    @staticmethod
    def prepinned_other(case) -> bool:
        sit = case["situation"]
        if sit in ("changed", "changed-after-ok"):
            return True
        # unreadable certificate: against a pinned host and (the historical defect) against an unpinned one
        return sit in ("hostile", "patched-raise", "patched-none") and case.get("cseed", 0) % 2 == 0

    @staticmethod
    def warm_key(case):
        """(host, port) of the preliminary verified request of the same client, or None"""
        w = case.get("warm")
        if w == "other-port":
            return (case["host"], 0)
        if w == "other-host":
            return ((case["host"] + 2) % 3, 1)
        return None

    def pin_id(self, case):
        """(certificate index the target is pinned to, fingerprint id as stored) or None when unpinned at the start"""
        sit = case["situation"]
        if sit == "pinned":
            pc = case["cert"]
        elif sit == "changed-after-ok" or not self.prepinned_other(case):
            return None
        else:
            pc = other_cert(case["cert"], case.get("twin"))
        via = case.get("pin_via", "trust")
        return pc, (variant_id(pc, int(via[-1])) if via.startswith("import-") else CERT_FP[pc])

    def pinned_cert(self, case):
        """index of the certificate the target host:port is pinned to when the call under test is made (None: no pin)"""
        if case["situation"] == "changed-after-ok":
            return other_cert(case["cert"], case.get("twin"))
        pin = self.pin_id(case)
        return pin[0] if pin is not None else None

    def target_pad_desc(self, case) -> str:
        return pad_desc(case, 3 if case["situation"] == "hostile" else case["cert"], self.pinned_cert(case))

    def hop_fault(self, case, hop_index: int) -> bool:
        """does the store fault make verification of this hop impossible (as the code stands)?"""
        f = case.get("fault")
        if not f or not case["tofu"]:
            return False
        return hop_index == 0          # "select"/"locked" hit the first lookup; "write" is generated for first uses only

    def hops_of(self, case):
        sit = case["situation"]
        cert = 3 if sit == "hostile" else case["cert"]
        patch = {"patched-raise": "raise", "patched-none": "none"}.get(sit, "")
        target = [case["host"], 1, cert, patch]
        if case["op"] == "chain":
            # A (other port, own certificate, unpinned -> first use) redirects to the target
            if case.get("chain_same"):
                # the redirecting hop is the SAME host name on the other port and shows the certificate the target will show
                return [[case["host"], 0, case["cert"], ""], [target[0], target[1], target[2], ""]], patch
            return [[(case["host"] + 1) % 3, 0, other_cert(case["cert"]), ""], [target[0], target[1], target[2], ""]], patch
        return [target], patch

    def impl(self, case):
        from nauyaca.client.session import GeminiClient
        from nauyaca.security.tofu import TOFUDatabase

        R = self.R
        tmp = tempfile.mkdtemp(prefix="nv-", dir=SHM)
        db = Path(tmp) / "tofu.db"
        hops, patch = self.hops_of(case)
        target = hops[-1]
        kind = {"get": "get", "getq": "get", "chain": "get", "upload": "upload", "delete": "delete"}[case["op"]]
        query = "?q=secret%20query&token=T" if case["op"] == "getq" else ""
        mode = case["mode"]

        drop = case.get("drop")
        rv = case.get("rival")
        self.gate_n += 1
        gname = f"c11-{os.getpid()}-{self.gate_n}"

        def steps_for(i, reply):
            st = plain_steps_for(i, reply)
            if case.get("pad") and i == len(hops) - 1:
                # behind its own certificate the peer sends copies of other (public) certificates
                st = [["append_certs", pad_names(case, target[2])]] + st
            if rv and rv["how"] == "hold" and i == len(hops) - 1:
                # accepted, certificate chosen, but the handshake waits until the rival call has completed
                st = [["hold", gname, 4.0]] + st
            return st

        def plain_steps_for(i, reply):
            tail = [["close"]] if reply[:1] == b"2" else [["read_eof", 2.0], ["close"]]
            if drop and i == len(hops) - 1:
                # the connection that is sent the request goes away without a byte of answer
                if mode == "never":
                    return [["sleep", 0.25], ["drain"], [drop]]
                return ([["sleep", 0.08]] if mode == "lazy" else []) + [["read_request", 3.0], [drop]]
            if mode == "never" and i == len(hops) - 1:
                return [["sleep", 0.4], ["drain"], ["close"]]
            pre = [["sleep", 0.08]] if mode == "lazy" else []
            return pre + [["read_request", 3.0], ["send", reply]] + tail

        # what the port would show to one more connection: an impostor with another certificate that reads at once
        extra_scripts = []
        if drop:
            imp = other_cert(target[2], case.get("twin"))
            extra_scripts.append((target[1], imp, ([["append_certs", pad_names(case, imp)]] if case.get("pad") else [])
                                  + [["read_request", 1.5], ["send", b"20 text/gemini\r\nimpostor\n"], ["close"]]))

        def mk_client():
            kw = {}
            vssl = case.get("vssl")
            if vssl:
                kw["verify_ssl"] = True
            if vssl == "ctx":
                import ssl

                from nauyaca.security.tls import create_client_context

                ctx = create_client_context(verify_mode=ssl.CERT_REQUIRED, check_hostname=True)
                ctx.load_verify_locations(cadata=R.pki["ca_pem"])
                kw["ssl_context"] = ctx
            elif vssl == "flag":
                import ssl

                from nauyaca.security.tls import create_client_context

                kw["ssl_context"] = create_client_context(verify_mode=ssl.CERT_NONE, check_hostname=False)
            if vssl != "env":
                return GeminiClient(timeout=5.0, trust_on_first_use=case["tofu"], tofu_db_path=db if case["tofu"] else None, **kw)
            # the context the client builds itself (ssl.create_default_context) picks the CA up from the environment
            saved = {k: os.environ.get(k) for k in ("SSL_CERT_FILE", "SSL_CERT_DIR")}
            os.environ["SSL_CERT_FILE"] = R.pki["ca_file"]
            os.environ.pop("SSL_CERT_DIR", None)
            try:
                return GeminiClient(timeout=5.0, trust_on_first_use=case["tofu"], tofu_db_path=db if case["tofu"] else None, **kw)
            finally:
                for k, v in saved.items():
                    if v is None:
                        os.environ.pop(k, None)
                    else:
                        os.environ[k] = v

        async def run():
            asyncio.get_running_loop().set_exception_handler(lambda loop, ctx: None)
            sit = case["situation"]
            pin = self.pin_id(case)
            if pin is not None and case.get("pin_via") == "legacy":
                import sqlite3

                conn = sqlite3.connect(str(db))
                conn.execute("CREATE TABLE known_hosts (hostname TEXT NOT NULL, port INTEGER NOT NULL, fingerprint TEXT NOT NULL, "
                             "first_seen TEXT NOT NULL, last_seen TEXT NOT NULL, PRIMARY KEY (hostname, port))")
                conn.execute("INSERT INTO known_hosts VALUES (?, ?, ?, ?, ?)", (HOSTS[target[0]], R.ports[target[1]], R.fps[pin[1]],
                                                                               "2025-01-01T00:00:00+00:00", "2025-06-01T00:00:00+00:00"))
                conn.commit()
                conn.close()
            tdb = TOFUDatabase(db)
            if pin is not None:
                # "pinned": to the certificate that will be presented; changed / half of the unreadable ones: to ANOTHER one
                via = case.get("pin_via", "trust")
                if via == "legacy":
                    pass
                elif via == "trust":
                    tdb.trust(HOSTS[target[0]], R.ports[target[1]], R.w["certs"].x509(CERTS[pin[0]]))
                else:
                    import tomli_w

                    f = Path(tmp) / "import.toml"
                    f.write_bytes(tomli_w.dumps({"hosts": {"e0": {"hostname": HOSTS[target[0]], "port": R.ports[target[1]], "fingerprint": R.fps[pin[1]],
                                                                  "first_seen": "2026-01-01T00:00:00+00:00", "last_seen": "2026-01-01T00:00:00+00:00"}}}).encode())
                    assert tdb.import_toml(f) == (1, 0, 0)
            if case.get("along") and along_pin(case) is not None:
                tdb.trust(HOSTS[case["along"]["host"]], R.ports[0], R.w["certs"].x509(CERTS[along_pin(case)]))
            client = mk_client()
            if sit == "changed-after-ok":
                other = other_cert(case["cert"], case.get("twin"))
                first, _ = await R.call(client, "get", [[target[0], target[1], other, ""]])
                R.take_logs()
                if case["tofu"]:
                    assert first[0] == "ok", first
                else:
                    tdb.trust(HOSTS[target[0]], R.ports[target[1]], R.w["certs"].x509(CERTS[other]))
            wk = self.warm_key(case)
            if wk is not None:
                # the same client object completes a verified request elsewhere, shown the certificate the target will show
                wcert = case["cert"]
                first, _ = await R.call(client, "get", [[wk[0], wk[1], wcert, ""]], path="/warm")
                R.take_logs()
                if case["tofu"]:
                    assert first[0] == "ok", first
                else:
                    tdb.trust(HOSTS[wk[0]], R.ports[wk[1]], R.w["certs"].x509(CERTS[wcert]))
            if case.get("crowd") and case["tofu"]:
                # the store sees many other hosts for the first time (what the client does on a first use: trust)
                shown = [R.w["certs"].x509(CERTS[c]) for c in (case["cert"], other_cert(case["cert"]), 0, 1, 2)]
                for n, (hn, pn) in enumerate(crowd_keys(case, HOSTS[target[0]], R.ports[target[1]], set(R.ports) | {self.dead_port})):
                    tdb.trust(hn, pn, shown[n % len(shown)])
            with store_fault(case.get("fault") if case["tofu"] else None, db):
                return await in_life(client)

        async def in_life(client):
            life = case.get("life")
            if not life:
                return await main_call(client)
            if life == "with":
                async with client:
                    return await main_call(client)
            if life == "after-with":
                async with client:
                    pass
                return await main_call(client)
            if life == "reentered":
                async with client:
                    pass
                async with client:
                    return await main_call(client)
            # "overlap": two coroutines share the client object, each inside its own `async with client:` block
            entered, release = asyncio.Event(), asyncio.Event()

            async def other_user():
                async with client:
                    entered.set()
                    await release.wait()

            t = asyncio.ensure_future(other_user())
            try:
                await entered.wait()
                async with client:
                    release.set()
                    await t                    # the other block has been left; ours is still open
                    return await main_call(client)
            finally:
                release.set()
                await asyncio.gather(t, return_exceptions=True)

        async def solo_call(client):
            if case["op"] == "chain" and patch:
                # the loader failure must hit the redirect target only: patch when the second connection is made
                return await self.chain_with_patch(client, hops, patch, steps_for)
            one = [list(h) for h in hops]
            if len(one) == 1:
                one[0][3] = patch
            return await R.call(client, kind, one, content=content_of(case), token=case["token"], query=query, steps_for=steps_for,
                                extra_scripts=extra_scripts)

        by_box: list = []

        async def bystander(client, al, wait_ms):
            """the second call on the same client object: to another host:port (the other peer's port, or one nobody listens on)"""
            if wait_ms is not None:
                await asyncio.sleep(wait_ms / 1000.0)
            port = self.dead_port if al["state"] == "dead" else R.ports[0]
            u = f"gemini://{HOSTS[al['host']]}:{port}/along"
            try:
                if al["op"] == "get":
                    r = await client.get(u + "?by=stander", follow_redirects=False)
                else:
                    r = await client.upload(u, b"BYSTANDER-CONTENT", token="by-token")
                return ["ok", r.status]
            except Exception as e:  # noqa: BLE001
                return R.classify(e)

        riv_box: list = []

        async def rival_run(client):
            """the call under test and a second call to the SAME host:port, on one store; who completes its handshake first is chosen here"""
            how = rv["how"]
            other = client if rv["who"] == "same" else mk_client()
            rsteps = [["read_request", 3.0], ["send", b"20 text/gemini\r\nrival\n"], ["close"]]
            if case.get("pad"):
                rsteps = [["append_certs", pad_names(case, rival_cert(case))]] + rsteps
            if how == "hold-rival":
                rsteps = [["hold", gname, 4.0]] + rsteps

            async def rival(wait_ms=None):
                if wait_ms:
                    await asyncio.sleep(wait_ms / 1000.0)
                r, _ = await R.call(other, rv["op"], [[target[0], target[1], rival_cert(case), ""]], content=b"RIVAL-CONTENT", token="rival-token",
                                    query="?rival=1" if rv["op"] == "get" else "", path="/rival", steps_for=lambda i, reply: rsteps)
                return r

            async def later(ms):
                if ms:
                    await asyncio.sleep(ms / 1000.0)
                return await solo_call(client)

            t = None
            held = None
            try:
                if how == "hold":
                    t = asyncio.ensure_future(solo_call(client))
                    held = await H.accepted(gname)
                    rres = await rival()
                    H.release(gname)
                    out = await t
                elif how == "hold-rival":
                    t = asyncio.ensure_future(rival())
                    held = await H.accepted(gname)
                    out = await solo_call(client)
                    H.release(gname)
                    rres = await t
                elif rv.get("order") == "before":
                    rres, out = await asyncio.gather(rival(), later(rv.get("gap", 0)))
                else:
                    out, rres = await asyncio.gather(solo_call(client), rival(rv.get("gap", 0)))
            finally:
                H.forget(gname)
                if t is not None and not t.done():
                    await asyncio.gather(t, return_exceptions=True)
            riv_box.append({"result": rres, "held": held})
            return out

        async def main_call(client):
            R.hcase = case.get("hcase")
            try:
                if rv:
                    return await rival_run(client)
                al = case.get("along")
                if not al:
                    return await solo_call(client)
                if al["state"] != "dead":
                    R.peers[0].push(CERTS[along_cert(case)], ([["append_certs", pad_names(case, along_cert(case), other_cert(along_cert(case)))]] if case.get("pad") else [])
                                    + [["read_request", 3.0], ["send", b"20 text/gemini\r\nbystander\n"], ["close"]])

                async def later(ms):
                    await asyncio.sleep(ms / 1000.0)
                    return await solo_call(client)

                # gather starts its coroutines in the order given: with a gap of 0 ms the second one starts when the first has reached its first await
                if al["order"] == "after":
                    out, by = await asyncio.gather(solo_call(client), bystander(client, al, al["gap"] if al["gap"] else None))
                else:
                    by, out = await asyncio.gather(bystander(client, al, None), later(al["gap"]) if al["gap"] else solo_call(client))
                by_box.append(by)
                return out
            finally:
                R.hcase = None

        try:
            res, url = R.run(run())
            logs = R.take_logs()
        finally:
            shutil.rmtree(tmp, ignore_errors=True)
        out = {}
        if case.get("along"):
            # the other peer's port belongs to the bystander alone
            mine = [e for e in logs if e["port"] == R.ports[0]]
            logs = [e for e in logs if e["port"] != R.ports[0]]
            out["along"] = {"result": by_box[0] if by_box else None,
                            "conns": [{"len": len(e["rx"]), "head": e["rx"][:96].decode("latin-1"), "hs": e["hs"], "cert": e["cert"], "chain": e.get("chain")} for e in mine]}

        if rv:
            # the rival's connection: by accept order when a handshake was held (the held one was accepted first), else by the path it carries
            rlog = None
            if rv["how"] == "hold":
                rlog = next((e for e in logs if not e.get("held")), None)
            elif rv["how"] == "hold-rival":
                rlog = next((e for e in logs if e.get("held")), None)
            else:
                named = [e for e in logs if b"/rival" in e["rx"][:400]]
                silent = [e for e in logs if not e["rx"]]
                if named:
                    rlog = named[0]
                elif silent and len(logs) > 1:
                    rlog = silent[0 if rv.get("order") == "before" else -1]
            logs = [e for e in logs if e is not rlog]
            out["rival"] = dict(riv_box[0] if riv_box else {"result": None, "held": None},
                                conns=[{"len": len(e["rx"]), "head": e["rx"][:96].decode("latin-1"), "hs": e["hs"], "cert": e["cert"], "chain": e.get("chain")} for e in ([rlog] if rlog else [])])

        def want_of(j):
            if j < len(hops) - 1:
                return (R.url(hops[j][0], hops[j][1], f"/hop{j}") + "\r\n").encode()
            u = R.url(target[0], target[1], f"/hop{len(hops) - 1}" + (query if len(hops) == 1 else ""))
            return self.request_bytes(case, u, kind)

        peers = []
        for j, e in enumerate(logs):
            if j >= len(hops):
                # a connection the call had no reason to make: if it carries anything, it would be the target's request again
                j = len(hops) - 1
            want = want_of(j)
            rx = e["rx"]
            if case.get("hcase"):
                # the request may name the host as the URL spelled it or in lower case: both are the request, intact
                R.hcase = case["hcase"]
                try:
                    spelled = want_of(j)
                finally:
                    R.hcase = None
                if rx and spelled.startswith(rx) and not want.startswith(rx) or rx == spelled:
                    want = spelled
            peers.append({"len": len(rx), "equal": rx == want, "prefix": want.startswith(rx), "want_len": len(want),
                          "head": rx[:96].decode("latin-1"), "hs": e["hs"], "cert": e["cert"], "port": R.pid(e["port"]), "chain": e.get("chain")})
        out.update({"result": res, "peers": peers})
        return out

    async def chain_with_patch(self, client, hops, patch, steps_for):
        """redirect chain whose LAST hop's certificate cannot be loaded: switch the loader patch on when the
        first hop has been answered (the patch is process-wide)"""
        R = self.R
        T = R.T
        import nauyaca.client.session as S

        orig = S.GeminiClient._get_single
        calls = {"n": 0}
        stack = []

        async def wrapped(self_, url):
            calls["n"] += 1
            if calls["n"] == len(hops):
                cm = T.broken_cert_loader(patch)
                cm.__enter__()
                stack.append(cm)
            return await orig(self_, url)

        S.GeminiClient._get_single = wrapped
        try:
            return await R.call(client, "get", [list(h[:3]) + [""] for h in hops], steps_for=steps_for)
        finally:
            S.GeminiClient._get_single = orig
            for cm in stack:
                cm.__exit__(None, None, None)

    # -- the model -------------------------------------------------------------------
    def model(self, case):
        hops, patch = self.hops_of(case)
        t = hops[-1]
        sit = case["situation"]
        rows = {}
        pin = self.pin_id(case)
        if pin is not None:
            rows[(t[0], t[1])] = pin[1]
        elif sit == "changed-after-ok":
            rows[(t[0], t[1])] = CERT_FP[other_cert(case["cert"], case.get("twin"))]
        wk = self.warm_key(case)
        if wk is not None:
            rows[wk] = CERT_FP[case["cert"]]
        rv = case.get("rival")
        if rv and case["tofu"]:
            if should_fail(case) is None:
                return None            # the accept order decides who is shown which certificate: the oracle alone (oracle_rival)
            if rv["how"] == "hold" and sit == "unpinned":
                # the store as it is when the held handshake completes: the rival call has pinned what it was shown
                rows[(t[0], t[1])] = CERT_FP[rival_cert(case)]
        store = ",".join(f"{k[0]}.{k[1]}={v}" for k, v in sorted(rows.items())) or "-"

        def hop_s(i, h, p):
            unverifiable = h[2] == 3 or p or self.hop_fault(case, i)
            return f"{h[0]}.{h[1]}.{'x' if unverifiable else CERT_FP[h[2]]}"

        if case["op"] == "chain":
            op = f"r:{hop_s(0, hops[0], '')}/{hop_s(1, t, patch)}"
        elif case["op"] in ("upload", "delete"):
            op = f"u:{hop_s(0, t, patch)}"
        else:
            op = f"g:{hop_s(0, t, patch)}"
        return f"tofu {'on' if case['tofu'] else 'off'} {store} {op}"

    def expect(self, case, out):
        # reuse C03's parser on a one-step history
        hops, _ = self.hops_of(case)
        fake_op = ["chain", hops] if case["op"] == "chain" else ["get"] + hops[0]
        st = expected_steps({"ops": [fake_op]}, out)[0]
        kind = st["result"][0]
        return {"verified": kind == "ok", "kind": kind if kind != "ok" else "accepted", "sent": st["conns"]}

    def project(self, obs):
        r = obs["result"]
        kind = r[0] if r[0] in ("changed", "refused") else "accepted"
        if r[0] == "err" and r[1] in ("OperationalError", "DatabaseError"):
            kind = "refused"        # the pin store failed: the call ends with sqlite's exception
        return {"verified": kind == "accepted", "kind": kind, "sent": [p["len"] > 0 for p in obs["peers"]]}

    def same(self, expected, obs):
        return expected == self.project(obs)

    # -- the property statement, directly ------------------------------------------------
    def oracle(self, case, obs):
        peers, res = obs["peers"], obs["result"]
        if not peers:
            return None
        last = peers[-1]
        n_hops = 2 if case["op"] == "chain" else 1
        if case["tofu"] and case.get("fault") in ("select", "locked"):
            got = [p["len"] for p in peers]
            if any(got):
                return ("bytes-despite-store-fault", f"the pin store failed at lookup ({case['fault']}), so no certificate could be verified{self.target_pad_desc(case)}, yet the peers received "
                                                     f"{got} application bytes, beginning {next(p['head'] for p in peers if p['len'])[:70]!r}")
            if res[0] == "ok":
                return ("unverified-peer-answered", f"pin store fault {case['fault']}: the call returned a response {res}")
            return None
        sf = should_fail(case)
        rv = case.get("rival")
        if rv and case["tofu"]:
            bad = self.oracle_rival(case, obs)
            if bad:
                return bad
            if rv["how"] == "hold" and rv["cert"] == "other" and case["situation"] == "unpinned" and ((obs.get("rival") or {}).get("result") or [None])[0] != "ok":
                sf = None              # the rival call did not complete (so it may not have pinned anything): nothing is known about the pin in force
        if sf is None:
            pass
        elif sf:
            if len(peers) == n_hops and last["len"] > 0:
                return ("bytes-before-verification",
                        f"{case['situation']} certificate{self.target_pad_desc(case)}, {case['op']} to {recase(HOSTS[case['host']], case.get('hcase'))!r}"
                        f"{' (pinned as ' + repr(HOSTS[case['host']]) + ')' if case.get('hcase') else ''}{along_desc(case)}{rival_desc(case)}{crowd_desc(case)}: "
                        f"verification cannot pass, yet the peer got {last['len']} application bytes: {last['head'][:70]!r} "
                        f"({case['mode']} peer; pin made via {case.get('pin_via', 'trust')}; verify_ssl=True as well: {case.get('vssl') or 'no'}; "
                        f"client object held: {case.get('life') or 'bare'}{'; presented ' + cert_desc(case['cert']) if case.get('twin') else ''})")
            if res[0] == "ok":
                return ("unverified-peer-answered", f"{case['situation']} certificate{self.target_pad_desc(case)}: the call returned a response {res}")
        else:
            # verification passes: whatever arrives must be the request, intact (a peer that never reads may see a prefix)
            for j, p in enumerate(peers):
                if case["mode"] == "never" and j == len(peers) - 1:
                    if not p["prefix"]:
                        return ("request-garbled", f"hop {j}: the bytes received are not a prefix of the request: {p['head'][:70]!r}")
                elif not p["equal"] and res[0] == "ok":
                    return ("request-garbled", f"hop {j}: the call succeeded but the peer received {p['len']} bytes instead of the {p['want_len']}-byte request: {p['head'][:70]!r}")
        # a redirect hop: the first peer must only ever see its own request line
        if n_hops == 2 and peers and not peers[0]["equal"] and peers[0]["len"] > 0 and not peers[0]["prefix"]:
            return ("request-garbled", f"hop 0 received something that is not its request: {peers[0]['head'][:70]!r}")
        return self.oracle_connections(case, obs) or self.oracle_along(case, obs)

    def oracle_rival(self, case, obs):
        """the same statement for two calls to ONE host:port in flight on one store.  Every connection is judged against the pin in force when
        its handshake completed: the pin stored before the calls, or - the host unpinned - the certificate the connection that completed
        first was shown (first use).  When nobody held a handshake the order is not known, but no order lets two different certificates
        pass the check of one host:port."""
        rv, r = case.get("rival"), obs.get("rival")
        if not rv or not r or not case["tofu"]:
            return None
        pin = self.pin_id(case)
        pin_fp = sem(pin[1]) if pin is not None else None
        was = "unpinned" if pin_fp is None else f"pinned to fingerprint {pin_fp}"
        who = "one client object" if rv["who"] == "same" else "two client objects on one store file"
        host = recase(HOSTS[case["host"]], case.get("hcase"))
        a_name, b_name = f"call A ({case['op']})", f"call B ({rv['op']})"
        mine = [dict(p, call=a_name, res=obs["result"]) for p in obs["peers"]]
        theirs = [dict(p, call=b_name, res=r["result"]) for p in r["conns"]]
        how = rv["how"]
        conns = theirs + mine if how == "hold" else mine + theirs      # the order in which the handshakes were allowed to complete
        live = [dict(p, fp=CERT_FP[CERTS.index(p["cert"])]) for p in conns if p["hs"] and p["cert"] in CERTS]
        pair = f"{a_name} and {b_name} to ONE host:port ({host!r}, {was} at the start), {who}"
        if how == "gather":
            fed = [p for p in live if p["len"] > 0]
            ok_fps = {pin_fp} if pin_fp is not None else {p["fp"] for p in fed[:1]}
            odd = [p for p in fed if p["fp"] not in ok_fps]
            if odd:
                p = odd[0]
                return ("bytes-to-peer-with-other-certificate",
                        f"{pair}, in flight together (started {rv.get('gap', 0)} ms apart): " + (f"the connection shown {p['cert']!r}{chain_desc(p)} (fingerprint {p['fp']}, not the pin) received {p['len']} application bytes"
                                                                              if pin_fp is not None else
                                                                              f"connections shown DIFFERENT certificates ({fed[0]['cert']!r} and {p['cert']!r}) both received request bytes ({fed[0]['len']} and "
                                                                              f"{p['len']}); at most one certificate can pass the check of one host:port")
                        + f"; beginning {p['head'][:60]!r}; results {obs['result']} / {r['result']}")
            return None
        late, early = (a_name, b_name) if how == "hold" else (b_name, a_name)
        by = None
        for p in live:
            if pin_fp is None:
                if p["len"] > 0 or p["res"][0] == "ok":
                    pin_fp, by = p["fp"], p     # first use: pinned from here on
                continue
            if p["fp"] != pin_fp and (p["len"] > 0 or p["res"][0] == "ok"):
                story = (f"{pair}: {late[:6]}'s peer held its TLS handshake back until {early[:6]} was done" +
                         (f" (shown {by['cert']!r}: first use, pinned)" if by else "") + f"; let go, it presented {p['cert']!r}{chain_desc(p)} - NOT the pin - and ")
                tail = f"; fingerprints: pin in force {pin_fp}, presented {p['fp']}; {p['call']} ended with {p['res']}, the other call with {by['res'] if by else '-'}"
                if p["len"] > 0:
                    return ("bytes-to-peer-with-other-certificate", f"{story}received {p['len']} application bytes: {p['head'][:60]!r}{tail}")
                return ("unverified-peer-answered", f"{story}{p['call']} returned a response{tail}")
        return None

    def oracle_along(self, case, obs):
        """the same statement for the connections of the bystander call: its host:port has its own pin (or none: first use)"""
        al, a = case.get("along"), obs.get("along")
        if not al or not a or not case["tofu"]:
            return None
        pc = along_pin(case)
        pin_fp = CERT_FP[pc] if pc is not None else None
        for idx, p in enumerate(a["conns"]):
            if p["cert"] not in CERTS or not p["hs"]:
                continue
            pres = CERT_FP[CERTS.index(p["cert"])]
            if pin_fp is None:
                pin_fp = pres
                continue
            if pres != pin_fp and p["len"] > 0:
                return ("bytes-to-peer-with-other-certificate",
                        f"two calls in flight on one client object: the {al['op']} to {HOSTS[al['host']]!r} (pinned to fingerprint {pin_fp}; started {al['gap']} ms {al['order']} a "
                        f"{case['op']} to {HOSTS[case['host']]!r} on another port, {case['situation']} there) was shown certificate {p['cert']!r} (fingerprint {pres}){chain_desc(p)} and its peer "
                        f"received {p['len']} application bytes beginning {p['head'][:70]!r}; it ended with {a['result']}")
        if al["state"] == "changed" and a["result"] and a["result"][0] == "ok":
            return ("unverified-peer-answered", f"two calls in flight on one client object: the {al['op']} to {HOSTS[al['host']]!r}, pinned to another certificate than the one "
                                                f"presented, returned a response {a['result']}")
        return None

    def oracle_connections(self, case, obs):
        """the property, connection by connection: EVERY connection the call made to the target host:port - also one it
        made after the first was dropped - is a peer that must have passed the pin check before it is sent anything.
        The pin in force is known from the history: the one stored before the call, or the certificate the call itself
        pinned on first use."""
        sit = case["situation"]
        if not case["tofu"] or case.get("fault") or sit in ("hostile", "patched-raise", "patched-none"):
            return None        # unreadable certificates and store faults: the clauses above
        n_hops = 2 if case["op"] == "chain" else 1
        pin = self.pin_id(case)
        pin_fp = sem(pin[1]) if pin is not None else None
        if sit == "changed-after-ok":
            pin_fp = CERT_FP[other_cert(case["cert"], case.get("twin"))]
        for idx, p in enumerate(q for q in obs["peers"][n_hops - 1:] if q.get("port", 1) == 1):
            if p["cert"] not in CERTS or not p["hs"]:
                continue
            pres = CERT_FP[CERTS.index(p["cert"])]
            if pin_fp is None:
                pin_fp = pres          # first use: this connection's certificate is the pin from now on
                continue
            if pres != pin_fp and p["len"] > 0:
                return ("bytes-to-peer-with-other-certificate",
                        f"{case['op']} to a host:port whose pin is fingerprint {pin_fp}{along_desc(case)} ({sit}; verify_ssl/CA: {case.get('vssl')}; first connection dropped: {case.get('drop')}; client object used: {case.get('life') or 'bare'}): "
                        f"connection {idx + 1} of the call to that port presented certificate {p['cert']!r} (fingerprint {pres}){chain_desc(p)} and received "
                        f"{p['len']} application bytes beginning {p['head'][:70]!r}; the call ended with {obs['result']}")
        return None

    def key(self, case, obs):
        dims = "".join(f" {k}={case[k]}" for k in ("warm", "pin_via", "fault", "vssl", "drop", "twin", "life", "hcase") if case.get(k) and case.get(k) != "trust") + (" host=dotted" if case["host"] >= DOTTED_FIRST else " host=lookalike" if case["host"] >= 3 else "") + (" chain_same" if case.get("chain_same") and case["op"] == "chain" else "") \
            + (f" along={case['along']['state']}/{case['along']['order']}" if case.get("along") else "") \
            + (f" rival={case['rival']['how']}/{case['rival']['cert']}/{case['rival']['who']}" if case.get("rival") else "") \
            + (f" crowd={case['crowd']['n']}/{case['crowd']['shape']}" if case.get("crowd") else "") \
            + (f" pad={'+'.join(case['pad'])}" if case.get("pad") else "")
        return f"{'on' if case['tofu'] else 'off'} {case['situation']} {case['op']} {case['mode'] if not dims else ''}{dims} -> {obs['result'][0]} rx={[min(p['len'], 1) for p in obs['peers']]}"


FAMILIES = [Scenarios()]
