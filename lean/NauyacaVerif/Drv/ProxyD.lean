import NauyacaVerif.Drv.Common
namespace NauyacaVerif.Drv.ProxyD
open NauyacaVerif.Drv

/-- line-protocol handler of this area; `none` = not one of ours -/
def handle : List String → Option String
  | _ => none
end NauyacaVerif.Drv.ProxyD
