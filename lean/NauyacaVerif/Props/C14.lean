import NauyacaVerif.Fs.UploadProof

/-! # C14  Titan uploads change only the authorised target, exactly as sent

Model: `Fs.handleUpload` (`Fs/Upload.lean`) mirrors `FileUploadHandler.handle_upload /
_handle_delete / _is_safe_path`: the response status and the list of filesystem effects
(`mkdir p | writeTemp p bytes ok | rename src dst ok | unlink p ok`).  The filesystem is the
abstract `OS` (`resolve` = `Path.resolve()`, `kind` = what `stat` sees) — every theorem holds for
EVERY such `OS`, every configuration, every request and every combination of injected storage
faults (`Faults`: the n-th directory creation fails, the write fails after k bytes, the rename
fails, the unlink fails).  `Files` is the map from paths to the bytes of the regular file there;
`applyAll` replays an effect list on it.

Assumed, not proved (hence level "partial"): the kernel's side of the contract — an operation on a
fully resolved path whose parent chain consists of real directories touches that path only, and
`resolve` is what the kernel would follow.  The executable symlink-tree instance of `OS` is tied
to the real filesystem by the correspondence run only. -/

namespace NauyacaVerif.C14
open Fs

/-- the effects an upload or delete whose path resolves to `t` may have: remove `t` (delete), or —
    only when `t` is not the upload directory itself — create missing ancestors of `t` below the
    upload directory, write the sibling temporary file, rename it onto `t`, remove it -/
def Allowed (c : UCfg) (t : Path) (e : Effect) : Prop :=
  (∃ ok, e = .unlink t ok) ∨
  (t ≠ c.dir ∧
    ((∃ q, e = .mkdir (c.dir ++ q) ∧ q ≠ [] ∧ c.dir ++ q <+: t.dropLast) ∨
     (∃ b ok, e = .writeTemp (tempPath c t) b ok) ∨
     (∃ ok, e = .rename (tempPath c t) t ok) ∨
     (∃ ok, e = .unlink (tempPath c t) ok)))

/-- every effect concerns the one target the path resolves to, and that target lies inside the
    upload directory -/
theorem upload_effects (os : OS) (c : UCfg) (f : Faults) (r : UReq) :
    ∀ e ∈ (handleUpload os c f r).2,
      ∃ t, os.resolve (c.dir ++ r.comps) = some t ∧ inside c.dir t = true ∧ Allowed c t e := by
  intro e he
  rcases handleUpload_cases os c f r with ⟨h, _⟩ | ⟨t, _, _, _, hres, heq⟩ | ⟨t, _, _, hres, hin, hne, heq⟩
  · rw [h] at he; simp at he
  · rw [heq] at he
    rcases deleteAt_cases os c f t with ⟨h, _⟩ | ⟨hin, _, h | h⟩
    · rw [h] at he; simp at he
    · rw [h] at he; simp at he; exact ⟨t, hres, hin, Or.inl ⟨true, he⟩⟩
    · rw [h] at he; simp at he; exact ⟨t, hres, hin, Or.inl ⟨false, he⟩⟩
  · rw [heq] at he
    refine ⟨t, hres, hin, Or.inr ⟨hne, ?_⟩⟩
    have hmk : ∀ e ∈ (mkParents os c f t).2, ∃ q, e = .mkdir (c.dir ++ q) ∧ q ≠ [] ∧ c.dir ++ q <+: t.dropLast := by
      intro e he
      obtain ⟨q, rfl, hq1, hq2⟩ := mkdirWalk_shape os c f _ _ _ e he
      refine ⟨q, rfl, hq1, ?_⟩
      have hpre : c.dir <+: t.dropLast := by
        simpa [inside, List.isPrefixOf_iff_prefix] using inside_dropLast hin hne
      have e1 : c.dir ++ t.dropLast.drop c.dir.length = t.dropLast := List.prefix_iff_eq_append.mp hpre
      rw [← e1]
      exact (List.prefix_append_right_inj _).mpr hq2
    rcases store_cases os c f t (r.content.take r.size) with h | ⟨k, h⟩ | h | h
    · rw [h] at he; exact Or.inl (hmk e he)
    · rw [h] at he
      simp only [List.mem_append, List.mem_cons, List.not_mem_nil, or_false] at he
      rcases he with he | rfl | rfl
      · exact Or.inl (hmk e he)
      · exact Or.inr (Or.inl ⟨_, _, rfl⟩)
      · exact Or.inr (Or.inr (Or.inr ⟨_, rfl⟩))
    · rw [h] at he
      simp only [List.mem_append, List.mem_cons, List.not_mem_nil, or_false] at he
      rcases he with he | rfl | rfl | rfl
      · exact Or.inl (hmk e he)
      · exact Or.inr (Or.inl ⟨_, _, rfl⟩)
      · exact Or.inr (Or.inr (Or.inl ⟨_, rfl⟩))
      · exact Or.inr (Or.inr (Or.inr ⟨_, rfl⟩))
    · rw [h] at he
      simp only [List.mem_append, List.mem_cons, List.not_mem_nil, or_false] at he
      rcases he with he | rfl | rfl
      · exact Or.inl (hmk e he)
      · exact Or.inr (Or.inl ⟨_, _, rfl⟩)
      · exact Or.inr (Or.inr (Or.inl ⟨_, rfl⟩))

/-- under the OS contract "`resolve` is idempotent" the target is its own resolution: no symlink is
    left on the way to it -/
theorem upload_target_canonical (os : OS) (c : UCfg) (f : Faults) (r : UReq)
    (hidem : ∀ p q, os.resolve p = some q → os.resolve q = some q)
    (e : Effect) (he : e ∈ (handleUpload os c f r).2) :
    ∃ t, os.resolve t = some t ∧ inside c.dir t = true ∧ Allowed c t e := by
  obtain ⟨t, h1, h2, h3⟩ := upload_effects os c f r e he
  exact ⟨t, hidem _ _ h1, h2, h3⟩

/-- every path any effect touches lies inside the upload directory (component-wise prefix: a
    sibling such as `uploads-evil` is outside) -/
theorem upload_confined (os : OS) (c : UCfg) (f : Faults) (r : UReq) :
    ∀ e ∈ (handleUpload os c f r).2, ∀ p ∈ e.paths, inside c.dir p = true := by
  intro e he p hp
  obtain ⟨t, _, hin, ha⟩ := upload_effects os c f r e he
  rcases ha with ⟨ok, rfl⟩ | ⟨hne, ha⟩
  · simp [Effect.paths] at hp; subst hp; exact hin
  · have htp := inside_tempPath hin hne
    rcases ha with ⟨q, rfl, _, _⟩ | ⟨b, ok, rfl⟩ | ⟨ok, rfl⟩ | ⟨ok, rfl⟩
    · simp [Effect.paths] at hp; subst hp
      simp [inside, List.isPrefixOf_iff_prefix]
    · simp [Effect.paths] at hp; subst hp; exact htp
    · simp [Effect.paths] at hp; rcases hp with rfl | rfl <;> assumption
    · simp [Effect.paths] at hp; subst hp; exact htp

/-- what a completed write put into the file is exactly the declared number of bytes that
    followed the request line (never the whole buffer) -/
theorem upload_content (os : OS) (c : UCfg) (f : Faults) (r : UReq) (p : Path) (b : Bytes)
    (h : Effect.writeTemp p b true ∈ (handleUpload os c f r).2) : b = r.content.take r.size := by
  rcases handleUpload_cases os c f r with ⟨h0, _⟩ | ⟨t, _, _, _, _, heq⟩ | ⟨t, _, _, _, _, _, heq⟩
  · rw [h0] at h; simp at h
  · rw [heq] at h
    rcases deleteAt_cases os c f t with ⟨h0, _⟩ | ⟨_, _, h0 | h0⟩ <;> rw [h0] at h <;> simp at h
  · rw [heq] at h
    have hmk : Effect.writeTemp p b true ∉ (mkParents os c f t).2 := by
      intro hm
      obtain ⟨q, hq⟩ := mkParents_only_mkdir os c f t _ hm
      cases hq
    rcases store_cases os c f t (r.content.take r.size) with h0 | ⟨k, h0⟩ | h0 | h0 <;> rw [h0] at h
    · exact absurd h hmk
    · simp only [List.mem_append, List.mem_cons, List.not_mem_nil, or_false] at h
      rcases h with h | h | h
      · exact absurd h hmk
      · simp at h
      · cases h
    · simp only [List.mem_append, List.mem_cons, List.not_mem_nil, or_false] at h
      rcases h with h | h | h | h
      · exact absurd h hmk
      · simp at h; exact h.2
      · cases h
      · cases h
    · simp only [List.mem_append, List.mem_cons, List.not_mem_nil, or_false] at h
      rcases h with h | h | h
      · exact absurd h hmk
      · simp at h; exact h.2
      · cases h

/-- anything at all happens to the filesystem only for a request that passed every guard: valid
    token (when tokens are configured; an empty token never counts), size within the limit,
    media type allowed and, for zero-byte requests, deletion enabled -/
theorem upload_guarded (os : OS) (c : UCfg) (f : Faults) (r : UReq) (h : (handleUpload os c f r).2 ≠ []) :
    authOk c r = true ∧ r.size ≤ c.maxSize ∧ typeOk c r = true ∧ (r.size = 0 → c.enableDelete = true) := by
  rcases handleUpload_cases os c f r with ⟨h0, _⟩ | ⟨t, hg, _, hd, _, _⟩ | ⟨t, hg, hs, _, _, _, _⟩
  · exact absurd h0 h
  · exact ⟨hg.1, hg.2.1, hg.2.2, fun _ => hd⟩
  · exact ⟨hg.1, hg.2.1, hg.2.2, fun h0 => absurd h0 hs⟩

/-- … and the same guards stand behind every success response -/
theorem success_guarded (os : OS) (c : UCfg) (f : Faults) (r : UReq) (h : (handleUpload os c f r).1 = .s20) :
    authOk c r = true ∧ r.size ≤ c.maxSize ∧ typeOk c r = true ∧ (r.size = 0 → c.enableDelete = true) := by
  rcases handleUpload_cases os c f r with ⟨_, h0⟩ | ⟨t, hg, _, hd, _, _⟩ | ⟨t, hg, hs, _, _, _, _⟩
  · exact absurd h h0
  · exact ⟨hg.1, hg.2.1, hg.2.2, fun _ => hd⟩
  · exact ⟨hg.1, hg.2.1, hg.2.2, fun h0 => absurd h0 hs⟩

/-- the temporary name next to the target is not in use (the handler picks `.NAME.PID.upload`) -/
def TempFree (os : OS) (c : UCfg) (r : UReq) (fs : Files) : Prop :=
  ∀ t, os.resolve (c.dir ++ r.comps) = some t → fs.get (tempPath c t) = none

/-- every request answered with a non-success status — refused by a guard, bad path, missing
    resource, a layout that makes storing impossible, or a storage fault at ANY point (the n-th
    mkdir, the write after k bytes, the rename, the unlink) — leaves every existing file
    byte-for-byte unchanged and creates no file -/
theorem nonsuccess_no_change (os : OS) (c : UCfg) (f : Faults) (r : UReq) (fs : Files)
    (htmp : TempFree os c r fs) (hfail : (handleUpload os c f r).1 ≠ .s20) :
    ∀ p, (applyAll fs (handleUpload os c f r).2).get p = fs.get p := by
  intro p
  rcases handleUpload_cases os c f r with ⟨h0, _⟩ | ⟨t, _, _, _, _, heq⟩ | ⟨t, _, _, hres, _, _, heq⟩
  · rw [h0]; rfl
  · rw [heq] at hfail ⊢
    rcases deleteAt_cases os c f t with ⟨h0, _⟩ | ⟨_, _, h0 | h0⟩
    · rw [h0]; rfl
    · rw [h0] at hfail; simp at hfail
    · rw [h0]; rfl
  · rw [heq] at hfail ⊢
    have hmk := mkParents_only_mkdir os c f t
    have ht := htmp t hres
    rcases store_cases os c f t (r.content.take r.size) with h0 | ⟨k, h0⟩ | h0 | h0
    · rw [h0, applyAll_mkdirs fs _ hmk]
    · rw [h0, applyAll_append, applyAll_mkdirs fs _ hmk]
      simp only [applyAll, List.foldl_cons, List.foldl_nil, applyEffect, if_true]
      exact get_del_set fs _ _ p ht
    · rw [h0, applyAll_append, applyAll_mkdirs fs _ hmk]
      simp only [applyAll, List.foldl_cons, List.foldl_nil, applyEffect, if_true]
      simp only [Bool.false_eq_true, if_false]
      exact get_del_set fs _ _ p ht
    · rw [h0] at hfail; simp at hfail

/-- a successful upload: afterwards the target holds exactly the declared bytes and every other
    path holds what it held before -/
theorem success_upload (os : OS) (c : UCfg) (f : Faults) (r : UReq) (fs : Files)
    (htmp : TempFree os c r fs) (hok : (handleUpload os c f r).1 = .s20) (hsz : r.size ≠ 0) :
    ∃ t, os.resolve (c.dir ++ r.comps) = some t ∧ inside c.dir t = true ∧ t ≠ c.dir ∧
      (applyAll fs (handleUpload os c f r).2).get t = some (r.content.take r.size) ∧
      ∀ p, p ≠ t → (applyAll fs (handleUpload os c f r).2).get p = fs.get p := by
  rcases handleUpload_cases os c f r with ⟨_, h0⟩ | ⟨t, _, hz, _, _, _⟩ | ⟨t, _, _, hres, hin, hne, heq⟩
  · exact absurd hok h0
  · exact absurd hz hsz
  · refine ⟨t, hres, hin, hne, ?_⟩
    rw [heq] at hok ⊢
    have hmk := mkParents_only_mkdir os c f t
    have ht := htmp t hres
    rcases store_cases os c f t (r.content.take r.size) with h0 | ⟨k, h0⟩ | h0 | h0
    · rw [h0] at hok; simp at hok
    · rw [h0] at hok; simp at hok
    · rw [h0] at hok; simp at hok
    · rw [h0, applyAll_append, applyAll_mkdirs fs _ hmk]
      simp only [applyAll, List.foldl_cons, List.foldl_nil, applyEffect, if_true, get_set_self]
      refine ⟨trivial, fun p hp => ?_⟩
      rw [get_set_other _ _ _ _ hp]
      by_cases hpt : p = tempPath c t
      · subst hpt; rw [get_del_self, ht]
      · rw [get_del_other _ _ _ hpt, get_set_other _ _ _ _ hpt]

/-- a successful delete: the file the path resolves to (inside the upload directory, existing) is
    gone and every other path holds what it held before -/
theorem success_delete (os : OS) (c : UCfg) (f : Faults) (r : UReq) (fs : Files)
    (hok : (handleUpload os c f r).1 = .s20) (hsz : r.size = 0) :
    ∃ t, os.resolve (c.dir ++ r.comps) = some t ∧ inside c.dir t = true ∧ os.kind t ≠ .missing ∧
      (applyAll fs (handleUpload os c f r).2).get t = none ∧
      ∀ p, p ≠ t → (applyAll fs (handleUpload os c f r).2).get p = fs.get p := by
  rcases handleUpload_cases os c f r with ⟨_, h0⟩ | ⟨t, _, _, _, hres, heq⟩ | ⟨t, _, hnz, _, _, _, _⟩
  · exact absurd hok h0
  · rw [heq] at hok ⊢
    rcases deleteAt_cases os c f t with ⟨_, h0⟩ | ⟨hin, hk, h0 | h0⟩
    · exact absurd hok h0
    · refine ⟨t, hres, hin, hk, ?_⟩
      rw [h0]
      simp only [applyAll, List.foldl_cons, List.foldl_nil, applyEffect, if_true]
      exact ⟨get_del_self _ _, fun p hp => get_del_other _ _ _ hp⟩
    · rw [h0] at hok; simp at hok
  · exact absurd hsz hnz

/-! ## non-vacuity -/

def up : Path := ["uploads"]
def cfg : UCfg :=
  { dir := up
    maxSize := 8
    allowedTypes := some ["text/plain"]
    tokens := ["s3"]
    enableDelete := false
    pid := "7"
    hasNul := fun _ => false }
/-- a tiny OS: `uploads` is a directory, `uploads/a` a file, `uploads/d` a directory, the link
    `uploads/out` resolves to `/etc`; nothing else exists -/
def os0 : OS where
  resolve := fun p => if p = ["uploads", "out", "x"] then some ["etc", "x"] else some p
  kind := fun p => if p = ["uploads"] ∨ p = ["uploads", "d"] then .dir else if p = ["uploads", "a"] then .file else .missing
  size := fun _ => 0
  readText := fun _ => .ioError
  listing := fun _ => none
def req (comps : List Name) (size : Nat) (tok : Option String) : UReq :=
  { comps := comps, size := size, mime := "text/plain", token := tok, content := [1, 2, 3, 4, 5] }

-- success: temp file written with exactly `size` bytes, renamed onto the target
example : handleUpload os0 cfg {} (req ["new", "f"] 3 (some "s3")) =
    (.s20, [.mkdir ["uploads", "new"], .writeTemp ["uploads", "new", ".f.7.upload"] [1, 2, 3] true,
            .rename ["uploads", "new", ".f.7.upload"] ["uploads", "new", "f"] true]) := by decide +kernel
example : (applyAll [(["uploads", "a"], [9])] (handleUpload os0 cfg {} (req ["a"] 3 (some "s3"))).2).get ["uploads", "a"] = some [1, 2, 3] := by
  decide +kernel
-- a write that fails after one byte leaves the existing file alone
example : (handleUpload os0 cfg { writeFailAfter := some 1 } (req ["a"] 3 (some "s3"))).1 = .s40 := by decide +kernel
example : (applyAll [(["uploads", "a"], [9])] (handleUpload os0 cfg { writeFailAfter := some 1 } (req ["a"] 3 (some "s3"))).2).get ["uploads", "a"] = some [9] := by
  decide +kernel
-- guards: wrong token, empty token, no token, oversize, type, delete disabled, outside link, the root itself, a directory
example : handleUpload os0 cfg {} (req ["a"] 3 (some "bad")) = (.s60, []) := by decide +kernel
example : handleUpload os0 { cfg with tokens := ["", "s3"] } {} (req ["a"] 3 (some "")) = (.s60, []) := by decide +kernel
example : handleUpload os0 cfg {} (req ["a"] 3 none) = (.s60, []) := by decide +kernel
example : handleUpload os0 cfg {} (req ["a"] 9 (some "s3")) = (.s50, []) := by decide +kernel
example : handleUpload os0 cfg {} { req ["a"] 3 (some "s3") with mime := "image/png" } = (.s59, []) := by decide +kernel
example : handleUpload os0 cfg {} (req ["a"] 0 (some "s3")) = (.s50, []) := by decide +kernel
example : handleUpload os0 cfg {} (req ["out", "x"] 3 (some "s3")) = (.s59, []) := by decide +kernel
example : handleUpload os0 cfg {} (req [] 3 (some "s3")) = (.s59, []) := by decide +kernel
example : (handleUpload os0 cfg {} (req ["d"] 3 (some "s3"))).1 = .s40 := by decide +kernel
example : handleUpload os0 { cfg with enableDelete := true } {} (req ["a"] 0 (some "s3")) = (.s20, [.unlink ["uploads", "a"] true]) := by decide +kernel
example : inside ["uploads"] ["uploads-evil", "x"] = false := by decide +kernel

end NauyacaVerif.C14
