import NauyacaVerif.Mw.Bucket
import Mathlib.Tactic.Linarith
import Mathlib.Algebra.Order.Field.Rat
namespace Mw

theorem level_le_cap (c : LCfg) (b : Bucket) (t : Rat) : b.level c t ≤ c.cap := min_le_left _ _

theorem level_mono (c : LCfg) (hr : 0 ≤ c.rate) (b : Bucket) {t t' : Rat} (h : t ≤ t') :
    b.level c t ≤ b.level c t' := by
  unfold Bucket.level
  apply min_le_min_left
  have : (t - b.last) * c.rate ≤ (t' - b.last) * c.rate := mul_le_mul_of_nonneg_right (by linarith) hr
  linarith

/-- allowance of an address at time `t`: what its bucket would hold, a full bucket if it has none -/
def eff (c : LCfg) (s : Store) (ip : Ip) (t : Rat) : Rat :=
  match s.find ip with
  | none => c.cap
  | some b => b.level c t

def Keys (s : Store) : List Ip := s.map (·.1)

theorem find_none_of_not_mem {s : Store} {ip : Ip} (h : ip ∉ Keys s) : s.find ip = none := by
  induction s with
  | nil => rfl
  | cons p ps ih =>
    simp only [Keys, List.map_cons, List.mem_cons, not_or] at h
    have hne : (p.1 == ip) = false := by simpa [beq_eq_false_iff_ne] using (Ne.symm h.1)
    simp only [Store.find, List.find?_cons, hne] at ih ⊢
    exact ih h.2

theorem keys_cleanup_subset (c : LCfg) (s : Store) (now : Rat) : ∀ k ∈ Keys (cleanup c s now), k ∈ Keys s := by
  intro k hk
  simp only [Keys, cleanup, List.mem_map, List.mem_filter] at hk ⊢
  obtain ⟨p, ⟨hp, _⟩, rfl⟩ := hk
  exact ⟨p, hp, rfl⟩

/-- C10, clean-up: evicting only refilled buckets never changes anybody's allowance -/
theorem cleanup_eff (c : LCfg) (hr : 0 ≤ c.rate) (s : Store) (hn : (Keys s).Nodup) (now : Rat)
    (ip : Ip) {t : Rat} (ht : now ≤ t) : eff c (cleanup c s now) ip t = eff c s ip t := by
  induction s with
  | nil => rfl
  | cons p ps ih =>
    simp only [Keys, List.map_cons, List.nodup_cons] at hn
    have ih' := ih hn.2
    by_cases hev : (now - p.2.last > c.age && p.2.tokens + (now - p.2.last) * c.rate ≥ c.cap) = true
    · -- p is evicted
      have hcl : cleanup c (p :: ps) now = cleanup c ps now := by
        simp only [cleanup, List.filter_cons, hev, Bool.not_true, Bool.false_eq_true, ↓reduceIte]
      rw [hcl, ih']
      by_cases hip : p.1 = ip
      · -- its level was already `cap`, and the rest holds no bucket for `ip`
        have hnot : ip ∉ Keys ps := by rw [← hip]; exact hn.1
        have h1 : eff c ps ip t = c.cap := by simp [eff, find_none_of_not_mem hnot]
        have hfull : c.cap ≤ p.2.level c now := by
          simp only [Bool.and_eq_true, decide_eq_true_eq] at hev
          exact le_min (le_refl _) hev.2
        have h2 : eff c (p :: ps) ip t = p.2.level c t := by
          simp [eff, Store.find, List.find?_cons, hip]
        rw [h1, h2]
        exact le_antisymm (le_trans hfull (level_mono c hr p.2 ht)) (level_le_cap c p.2 t)
      · have hne : (p.1 == ip) = false := by simpa [beq_eq_false_iff_ne] using hip
        simp [eff, Store.find, List.find?_cons, hne]
    · have hcl : cleanup c (p :: ps) now = p :: cleanup c ps now := by
        simp only [cleanup, List.filter_cons]; simp [hev]
      rw [hcl]
      by_cases hip : p.1 = ip
      · simp [eff, Store.find, List.find?_cons, hip]
      · have hne : (p.1 == ip) = false := by simpa [beq_eq_false_iff_ne] using hip
        have := ih'
        simp only [eff, Store.find, List.find?_cons, hne] at this ⊢
        exact this
end Mw
