import NauyacaVerif.Drv.Common
import NauyacaVerif.Misc.TofuTxn
namespace NauyacaVerif.Drv.TofuD
open NauyacaVerif.Drv TofuTxn

/-! Line protocol of M-Tofu transactions (TAB or space separated):

    txn <store> <op> <k|all>         → ok <store'> <script> <outcome>
    txnall <store> <op>              → ok <store'> <script> <outcome> <crash 0>/<crash 1>/…   (`~` = no boundary)
    roundtrip <store> <now>          → ok <store'> <keys>

  store   ::= - | row;row;…          row   ::= <host-cps>:<port>:<fp>:<first>:<last>
  op      ::= init | trust:<host>:<port>:<fp>:<now> | verify:<host>:<port>:<fp>:<now>
            | revoke:<host>:<port> | revokehost:<host> | clear
            | import:<merge 0|1>:<now>:<cb>:<file>
  cb      ::= n | [usr]*             (n = no callback; letter i = what the callback does at entry i)
  file    ::= X | - | entry;entry;…  entry ::= <host>/<port int>/<portIsInt>/<fp>/<fpOk>/<first>/<missing>
  script  ::= - | txn|txn…           txn   ::= stmt;stmt;…
  outcome ::= ok | ok:<added>,<updated>,<skipped> | fail:<kind>      (of the complete operation) -/

def natOf? (s : String) : Option Nat := if s.isEmpty || !s.all Char.isDigit then none else some s.toNat!

def intOf? (s : String) : Option Int :=
  match s.toList with
  | '-' :: r => (natOf? (String.ofList r)).map (fun n => - (n : Int))
  | _ => (natOf? s).map (fun n => (n : Int))

def parseRow (s : String) : Option Row :=
  match s.splitOn ":" with
  | [h, p, fp, f, l] =>
    match natOf? p, natOf? fp, natOf? f, natOf? l with
    | some p, some fp, some f, some l => some ⟨cpsNat h, p, fp, f, l⟩
    | _, _, _, _ => none
  | _ => none

def parseStore (s : String) : Option Store :=
  if s == "-" then some [] else (s.splitOn ";").mapM parseRow

def parseEntry (s : String) : Option Entry :=
  match s.splitOn "/" with
  | [h, p, pi, fp, fo, f, m] =>
    match intOf? p, natOf? fp, natOf? f with
    | some p, some fp, some f => some ⟨cpsNat h, p, pi == "1", fp, fo == "1", f, m == "1"⟩
    | _, _, _ => none
  | _ => none

def parseFile (s : String) : Option ImportFile :=
  if s == "X" then some .unreadable
  else if s == "-" then some (.entries [])
  else ((s.splitOn ";").mapM parseEntry).map .entries

def cbOf (s : String) : Option (Nat → Cb) :=
  if s == "n" then none
  else some (fun i => match s.toList[i]? with
    | some 'u' => .update
    | some 'r' => .raise
    | _ => .skip)

def parseOp (s : String) : Option Op :=
  match s.splitOn ":" with
  | ["init"] => some .init
  | ["clear"] => some .clear
  | ["trust", h, p, fp, now] =>
    match natOf? p, natOf? fp, natOf? now with
    | some p, some fp, some now => some (.trust (cpsNat h) p fp now)
    | _, _, _ => none
  | ["verify", h, p, fp, now] =>
    match natOf? p, natOf? fp, natOf? now with
    | some p, some fp, some now => some (.verify (cpsNat h) p fp now)
    | _, _, _ => none
  | ["revoke", h, p] => (natOf? p).map (fun p => .revoke (cpsNat h) p)
  | ["revokehost", h] => some (.revokeHost (cpsNat h))
  | ["import", m, now, cb, file] =>
    match natOf? now, parseFile file with
    | some now, some f => some (.importToml (m == "1") f (cbOf cb) now)
    | _, _ => none
  | _ => none

def showRow (r : Row) : String := s!"{showCpsNat r.host}:{r.port}:{r.fp}:{r.first}:{r.last}"
def showStore (s : Store) : String := if s.isEmpty then "-" else ";".intercalate (s.map showRow)

def showStmt : Stmt → String
  | .create => "C"
  | .select h p => s!"S:{showCpsNat h}:{p}"
  | .insert r => s!"I:{showRow r}"
  | .updateFp h p fp now => s!"U:{showCpsNat h}:{p}:{fp}:{now}"
  | .touch h p now => s!"T:{showCpsNat h}:{p}:{now}"
  | .delete h p => s!"D:{showCpsNat h}:{p}"
  | .deleteHost h => s!"DH:{showCpsNat h}"
  | .deleteAll => "DA"
  | .commit => "K"

/-- connections on which no statement was issued are invisible to the shim: they are not shown -/
def showScript (sc : Script) : String :=
  if (sc.filter (fun t => !t.isEmpty)).isEmpty then "-"
  else "|".intercalate ((sc.filter (fun t => !t.isEmpty)).map (fun t => ";".intercalate (t.map showStmt)))

def showErr : Err → String
  | .missing => "missing" | .badPort => "badport" | .badFp => "badfp" | .callback => "callback" | .unreadable => "unreadable"

def count (t : Tally) (l : List Tally) : Nat := (l.filter (· == t)).length

def outcome (op : Op) (s : Store) : String :=
  match op with
  | .importToml _ .unreadable _ _ => "fail:unreadable"
  | .importToml merge (.entries es) cb now =>
    let r := importLoop cb now 0 es (effects s (importPre merge))
    match r.err with
    | some e => "fail:" ++ showErr e
    | none => s!"ok:{count .added r.tally},{count .updated r.tally},{count .skipped r.tally}"
  | _ => "ok"

def handle : List String → Option String
  | ["txn", st, op, k] =>
    match parseStore st, parseOp op with
    | some s, some o =>
      let sc := script o s
      let res := if k == "all" then some (run s sc) else (natOf? k).map (fun k => crashAt k sc s)
      match res with
      | some s' => some s!"ok {showStore s'} {showScript sc} {outcome o s}"
      | none => some "bad-op"
    | _, _ => some "bad-op"
  | ["txnall", st, op] =>
    match parseStore st, parseOp op with
    | some s, some o =>
      let sc := script o s
      let n := sc.size
      let crashes := if n == 0 then "~" else "/".intercalate ((List.range n).map (fun k => showStore (crashAt k sc s)))
      some s!"ok {showStore (run s sc)} {showScript sc} {outcome o s} {crashes}"
    | _, _ => some "bad-op"
  | ["roundtrip", st, now] =>
    match parseStore st, natOf? now with
    | some s, some now =>
      let t := exportToml s
      let keys := if t.isEmpty then "-" else ";".intercalate (t.map (fun kv => showCpsNat kv.1))
      some s!"ok {showStore (importInto [] t now)} {keys}"
    | _, _ => some "bad-op"
  | _ => none
end NauyacaVerif.Drv.TofuD
