"""The real PyOpenSSL pump (TLSServerProtocol + TLSTransportWrapper) run in-process against an
ssl.SSLObject client over MemoryBIOs, with a fake TCP transport (DESIGN.md §13)."""
from __future__ import annotations

import asyncio
import atexit
import random
import shutil
import ssl
import tempfile

from . import srv as S

_ENV = None
UNREADABLE = 5   # index (case key "cert") of the client certificate that OpenSSL accepts and `cryptography` cannot parse


def env():
    """server context + client certificates, once per process"""
    global _ENV
    if _ENV is None:
        import datetime
        import hashlib

        from cryptography import x509
        from cryptography.hazmat.primitives import hashes, serialization
        from cryptography.hazmat.primitives.asymmetric import ec, ed25519, rsa
        from cryptography.x509.oid import NameOID
        from nauyaca.security.certificates import generate_self_signed_cert
        from nauyaca.security.pyopenssl_tls import create_pyopenssl_server_context

        from .. import core as _core

        d = _core.mkdtemp("nv-pump-")
        c, k = generate_self_signed_cert("localhost")
        open(d + "/c.pem", "wb").write(c)
        open(d + "/k.pem", "wb").write(k)
        ctx = create_pyopenssl_server_context(d + "/c.pem", d + "/k.pem", True)
        clients = []
        # the 4th client certificate is a look-alike of the 1st: same subject, issuer and serial number, another key
        for i, key in enumerate([ec.generate_private_key(ec.SECP256R1()), ed25519.Ed25519PrivateKey.generate(), rsa.generate_private_key(65537, 2048),
                                 ec.generate_private_key(ec.SECP256R1())]):
            name = x509.Name([x509.NameAttribute(NameOID.COMMON_NAME, f"pumpclient{i % 3}")])
            now = datetime.datetime(2026, 1, 1)
            cert = (x509.CertificateBuilder().subject_name(name).issuer_name(name).public_key(key.public_key()).serial_number(2000 + i % 3)
                    .not_valid_before(now).not_valid_after(now + datetime.timedelta(days=3650))
                    .sign(key, None if isinstance(key, ed25519.Ed25519PrivateKey) else hashes.SHA256()))
            cp, kp = f"{d}/cl{i}.pem", f"{d}/cl{i}.key"
            open(cp, "wb").write(cert.public_bytes(serialization.Encoding.PEM))
            open(kp, "wb").write(key.private_bytes(serialization.Encoding.PEM, serialization.PrivateFormat.PKCS8, serialization.NoEncryption()))
            der = cert.public_bytes(serialization.Encoding.DER)
            clients.append((cp, kp, "sha256:" + hashlib.sha256(der).hexdigest()))
        # the 5th client presents its own certificate followed by the (public) certificate of the 1st client as an extra
        # chain certificate: the certificate that counts is the one whose key signed the handshake - the leaf
        key = ec.generate_private_key(ec.SECP256R1())
        name = x509.Name([x509.NameAttribute(NameOID.COMMON_NAME, "pumpclient-chained")])
        now = datetime.datetime(2026, 1, 1)
        cert = (x509.CertificateBuilder().subject_name(name).issuer_name(name).public_key(key.public_key()).serial_number(2099)
                .not_valid_before(now).not_valid_after(now + datetime.timedelta(days=3650)).sign(key, hashes.SHA256()))
        cp, kp = f"{d}/cl4.pem", f"{d}/cl4.key"
        open(cp, "wb").write(cert.public_bytes(serialization.Encoding.PEM) + open(clients[0][0], "rb").read())
        open(kp, "wb").write(key.private_bytes(serialization.Encoding.PEM, serialization.PrivateFormat.PKCS8, serialization.NoEncryption()))
        clients.append((cp, kp, "sha256:" + hashlib.sha256(cert.public_bytes(serialization.Encoding.DER)).hexdigest()))
        # the 6th client (index UNREADABLE) presents a certificate OpenSSL takes and serves but `cryptography` cannot parse: the
        # critical flag of its BasicConstraints is the non-canonical DER boolean 01 01 01 (TRUE must be FF)
        import base64

        key = ec.generate_private_key(ec.SECP256R1())
        name = x509.Name([x509.NameAttribute(NameOID.COMMON_NAME, "pumpclient-unreadable")])
        cert = (x509.CertificateBuilder().subject_name(name).issuer_name(name).public_key(key.public_key()).serial_number(2100)
                .not_valid_before(now).not_valid_after(now + datetime.timedelta(days=3650))
                .add_extension(x509.BasicConstraints(ca=False, path_length=None), critical=True).sign(key, hashes.SHA256()))
        der = cert.public_bytes(serialization.Encoding.DER)
        assert der.count(b"\x01\x01\xff") == 1
        der = der.replace(b"\x01\x01\xff", b"\x01\x01\x01")
        try:
            x509.load_der_x509_certificate(der)
            raise AssertionError("the unreadable client certificate is readable")
        except ValueError:
            pass
        cp, kp = f"{d}/cl5.pem", f"{d}/cl5.key"
        open(cp, "wb").write(b"-----BEGIN CERTIFICATE-----\n" + base64.encodebytes(der) + b"-----END CERTIFICATE-----\n")
        open(kp, "wb").write(key.private_bytes(serialization.Encoding.PEM, serialization.PrivateFormat.PKCS8, serialization.NoEncryption()))
        clients.append((cp, kp, "sha256:" + hashlib.sha256(der).hexdigest()))
        assert len(clients) == UNREADABLE + 1
        _ENV = (ctx, clients)
    return _ENV


class TCP:
    def __init__(self):
        self.out: list[bytes] = []
        self.closed = False
        self.after: list[bytes] = []
        self.pevs: list | None = None     # the pump events recorded so far (set by run_pump)
        self.closed_at: int | None = None  # how many pump events had been recorded when the connection was closed

    def write(self, b):
        (self.after if self.closed else self.out).append(bytes(b))

    def close(self):
        if not self.closed and self.pevs is not None:
            self.closed_at = len(self.pevs)
        self.closed = True

    def abort(self):
        self.close()

    def is_closing(self):
        return self.closed

    def get_extra_info(self, n, d=None):
        return ("198.51.100.9", 4040) if n == "peername" else d


def records(b: bytes):
    out, i = [], 0
    while i < len(b):
        ln = int.from_bytes(b[i + 3:i + 5], "big")
        out.append(b[i:i + 5 + ln])
        i += 5 + ln
    assert i == len(b)
    return out


def cut(rnd, stream: bytes, maxcuts: int):
    if len(stream) < 2 or maxcuts == 0:
        return [stream] if stream else []
    cuts = sorted(set(rnd.sample(range(1, len(stream)), min(len(stream) - 1, rnd.randint(1, maxcuts)))))
    out, p = [], 0
    for c in cuts + [len(stream)]:
        out.append(stream[p:c])
        p = c
    return out


def cut_at(stream: bytes, recs, spec):
    """explicit read boundaries: spec = [[record index (negative: counted from the last record), offset inside that record (negative:
    counted from its end)], ...]; entries that name no position strictly inside the stream are ignored"""
    starts, p = [], 0
    for r in recs:
        starts.append(p)
        p += len(r)
    offs = set()
    for ri, off in spec:
        if not -len(recs) <= ri < len(recs):
            continue
        ri %= len(recs)
        o = starts[ri] + (off if off >= 0 else len(recs[ri]) + off)
        if 0 < o < len(stream):
            offs.add(o)
    out, p = [], 0
    for c in sorted(offs) + [len(stream)]:
        out.append(stream[p:c])
        p = c
    return out


def items_for(reads, tagged):
    ends, pos = [], 0
    for rec, tag in tagged:
        pos += len(rec)
        ends.append((pos, tag))
    res, pos, j = [], 0, 0
    for r in reads:
        pos += len(r)
        cur = []
        while j < len(ends) and ends[j][0] <= pos:
            cur.append(ends[j][1])
            j += 1
        res.append(cur)
    return res


async def _drain():
    for _ in range(24):
        await asyncio.sleep(0)


async def run_pump(loop: S.VLoop, c, mw_factory=None):
    """case keys: up, mw, handler (spec as in sim.srv), app (list of hex plaintext writes, one TLS record each),
    close_notify, plaintext (hex|None), cutseed, maxcuts, stall (None | [flight, keep_bytes_fraction]),
    edgecuts (None | {"f1": spec, "s": spec}: explicit read boundaries of the first flight / of everything after it, see cut_at),
    cert (None | index into env()'s clients; UNREADABLE = accepted by OpenSSL, not parseable by `cryptography`),
    fatal (bool: treat an exception escaping data_received as asyncio's transports do - force-close + connection_lost), post (inner events after the reads: ["ua", resp] | ["ha", resp] | ["ma"] | ["md", line] | ["t"] | ["hst"])"""
    from nauyaca.server import protocol as sp
    from nauyaca.server.protocol import GeminiServerProtocol
    from nauyaca.server.tls_protocol import TLSServerProtocol

    ctx, clients = env()
    rnd = random.Random(c.get("cutseed", 0))
    log = {"h": 0, "u": 0, "m": 0, "content": b"", "mwargs": [], "order": [], "exc": []}
    gates: dict = {}
    hspec = c["handler"]

    def h(req):
        log["h"] += 1
        log["order"].append("h")
        if hspec[0] == "s":
            return S.mkresp(hspec[1])
        if hspec[0] == "r":
            raise RuntimeError("boom")

        async def co():
            g = loop.create_future()
            gates["h"] = g
            return await g

        return co()

    class Up:
        # the public knobs of the real FileUploadHandler, so that code probing the handler object finds them
        max_size = 8
        upload_dir = "/nonexistent"
        allowed_types = None
        auth_tokens = None
        enable_delete = True

        async def handle_upload(self, req):
            log["u"] += 1
            log["order"].append("u")
            log["content"] = bytes(req.content)
            g = loop.create_future()
            gates["u"] = g
            return await g

    class MW:
        async def process_request(self, u, ip, fp=None):
            log["m"] += 1
            log["order"].append("m")
            log["mwargs"].append([u, ip, fp])
            g = loop.create_future()
            gates["m"] = g
            return await g

    loop.set_exception_handler(lambda lp, cx: log["exc"].append(str(cx.get("exception") or cx.get("message"))[:120]))
    class RealMW:
        """a real middleware object (from mw_factory), with its calls recorded"""
        def __init__(self):
            self.inner = mw_factory()

        async def process_request(self, u, ip, fp=None):
            log["m"] += 1
            log["order"].append("m")
            log["mwargs"].append([u, ip, fp])
            return await self.inner.process_request(u, ip, fp)

    server = TLSServerProtocol(lambda: GeminiServerProtocol(h, RealMW() if mw_factory else MW() if c.get("mw") else None, Up() if c["up"] else None), ctx)
    tcp = TCP()
    from nauyaca.server import tls_protocol as _tp

    wall, restore_wall = S.install_wall(sp, _tp)
    server.connection_made(tcp)
    # the wall clock may be stepped (NTP sync, `date -s`) between the TCP connect and the end of the handshake
    wall.offset += c.get("wallstep", 0)
    cctx = ssl.SSLContext(ssl.PROTOCOL_TLS_CLIENT)
    cctx.check_hostname = False
    cctx.verify_mode = ssl.CERT_NONE
    if c.get("cert") is not None:
        cctx.load_cert_chain(clients[c["cert"]][0], clients[c["cert"]][1])
    inb, outb = ssl.MemoryBIO(), ssl.MemoryBIO()
    so = cctx.wrap_bio(inb, outb, server_hostname="localhost")
    pevs: list[str] = []
    tcp.pevs = pevs
    readlens: list[int] = []
    edge = c.get("edgecuts") or {}

    def feed(reads, tagged):
        for r, its in zip(reads, items_for(reads, tagged)):
            if tcp.closed:
                break
            readlens.append(len(r))
            try:
                server.data_received(r)
            except Exception as e:  # noqa: BLE001
                log["exc"].append(f"{type(e).__name__}: {e}"[:120])
                if c.get("fatal"):
                    # asyncio's transport contract: an exception that escapes protocol.data_received() is fatal - the transport is
                    # force-closed (is_closing() from now on) and connection_lost(exc) is called on the next loop iteration
                    tcp.abort()
                    loop.call_soon(server.connection_lost, e)
            pevs.append("r:" + ",".join(its))

    def to_client():
        for b in tcp.out:
            inb.write(b)
        tcp.out.clear()

    def finish():
        to_client()
        got, eof = b"", False
        try:
            while True:
                x = so.read(1 << 20)
                if not x:
                    eof = True
                    break
                got += x
        except ssl.SSLZeroReturnError:
            eof = True
        except ssl.SSLWantReadError:
            pass
        except ssl.SSLError:
            got += b"<SSLERR>"
        inner = server.inner_protocol
        obs = {"plain": got.hex() or "-", "eof": eof, "tcpclosed": tcp.closed, "h": log["h"], "u": log["u"], "m": log["m"],
               "content": log["content"].hex() or "-", "mwargs": log["mwargs"], "order": log["order"], "exc": log["exc"], "pevs": pevs,
               "after_close_writes": len(tcp.after), "inner": inner is not None, "readlens": readlens,
               "closed_at": tcp.closed_at,
               # scripted completions (middleware / handler / upload) that were started and have not been completed by a `post` event
               "pending": sorted(k for k, g in gates.items() if not g.done())}
        restore_wall()
        loop.set_exception_handler(lambda lp, cx: None)
        if inner is not None and getattr(inner, "timeout_handle", None):
            inner.timeout_handle.cancel()
        if getattr(server, "_handshake_timer", None):
            server._handshake_timer.cancel()
        for g in gates.values():
            if not g.done():
                g.cancel()
        return obs

    try:
        so.do_handshake()
    except ssl.SSLWantReadError:
        pass
    f1 = outb.read()
    if c.get("plaintext") is not None:
        junk = bytes.fromhex(c["plaintext"])
        for r in cut(rnd, junk, 1):
            if tcp.closed:
                break
            try:
                server.data_received(r)
            except Exception as e:  # noqa: BLE001
                log["exc"].append(f"{type(e).__name__}: {e}"[:120])
        pevs.append("r:b")
        await _drain()
        obs = finish()
        await _drain()
        return obs
    stall = c.get("stall")
    if stall and stall[0] == 1:
        keep = int(len(f1) * stall[1])
        if keep:
            feed([f1[:keep]], [])
        loop.advance(sp.REQUEST_TIMEOUT + 1)
        await _drain()
        pevs.append("T")
        obs = finish()
        await _drain()
        return obs
    feed(cut_at(f1, records(f1), edge["f1"]) if edge.get("f1") else cut(rnd, f1, min(2, c.get("maxcuts", 0))), [(x, "h") for x in records(f1)])
    to_client()
    try:
        so.do_handshake()
    except ssl.SSLWantReadError:
        pass
    f2 = outb.read()
    recs = [(x, "h") for x in records(f2)]
    if not recs:
        # the server did not answer the first flight (it dropped the connection): the client has nothing more to say
        await _drain()
        obs = finish()
        await _drain()
        return obs
    recs[-1] = (recs[-1][0], "H")
    if stall and stall[0] == 2:
        keep = int(len(f2) * stall[1])
        if keep and keep < len(f2):
            feed([f2[:keep]], [(r, t) for r, t in recs])
        loop.advance(sp.REQUEST_TIMEOUT + 1)
        await _drain()
        pevs.append("T")
        obs = finish()
        await _drain()
        return obs
    stream = f2
    for a in c["app"]:
        whole = bytes.fromhex(a)
        for off in range(0, len(whole), 16384):   # one TLS record per write: the tag is exactly that record's plaintext
            ab = whole[off:off + 16384]
            so.write(ab)
            rb = outb.read()
            rr = records(rb)
            assert len(rr) == 1, "one write, one record"
            recs.append((rr[0], "a:" + ab.hex()))
            stream += rb
    if c.get("close_notify"):
        try:
            so.unwrap()
        except ssl.SSLWantReadError:
            pass
        cn = outb.read()
        recs += [(x, "c") for x in records(cn)]
        stream += cn
    feed(cut_at(stream, [x for x, _ in recs], edge["s"]) if edge.get("s") else cut(rnd, stream, c.get("maxcuts", 0)), recs)
    await _drain()
    for e in c.get("post", []):
        k = e[0]
        if k == "t":
            loop.advance(sp.REQUEST_TIMEOUT + 1)
            await _drain()
            pevs.append("i:t")
            continue
        gk = {"ua": "u", "ur": "u", "ha": "h", "hr": "h", "ma": "m", "md": "m", "mr": "m", "mn": "m"}[k]
        g = gates.pop(gk, None)
        if g is None or g.done():
            continue
        if k in ("ua", "ha"):
            g.set_result(S.mkresp(e[1]))
            pevs.append(f"i:{k}:" + S.enc_resp(e[1]))
        elif k in ("ur", "hr"):
            g.set_exception(RuntimeError("task failed"))
            pevs.append(f"i:{k}")
        elif k == "ma":
            g.set_result((True, None))
            pevs.append("i:ma")
        elif k == "mr":
            g.set_exception(ValueError("mw failed"))
            pevs.append("i:mr")
        elif k == "mn":
            g.set_result((False, None))
            pevs.append("i:mn")
        else:
            g.set_result((False, e[1]))
            pevs.append("i:md:" + S.cps(e[1]))
        await _drain()
    obs = finish()
    await _drain()
    return obs
