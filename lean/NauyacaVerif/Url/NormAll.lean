import NauyacaVerif.Url.Bracket
namespace Url

/-! # C19 for every ASCII authority: what `parse_url` accepts, it accepts again in normalised form,
    with the same components, and the normalised form is its own normal form -/

/-- everything an accepted `parseSplit` tells about its input and output -/
theorem parseSplit_inv (env : Env) (sp : Split) (P : Parsed) (h : parseSplit env sp = .ok P) :
    sp.scheme = gemini ∧ hostname env sp.netloc = some P.host ∧
    ((userinfo sp.netloc).1.getD []).length = 0 ∧ ((userinfo sp.netloc).2.getD []).length = 0 ∧
    sp.fragment = [] ∧ (∃ port?, portOf sp.netloc = .ok port? ∧ P.port = port?.getD 1965) ∧
    P.path = (if sp.path.isEmpty then ['/'] else sp.path) ∧ P.query = sp.query ∧
    P.normalized = unsplit gemini (authorityOf (rebracket sp.netloc P.host) P.port) P.path sp.query [] := by
  unfold parseSplit at h
  split at h
  · simp at h
  · split at h
    · simp at h
    · rename_i hsch
      split at h
      · simp at h
      · rename_i host hhost
        split at h
        · simp at h
        · rename_i hui
          split at h
          · simp at h
          · rename_i hfrag
            split at h
            · simp at h
            · rename_i port? hport
              injection h with h
              subst h
              have hfragE : sp.fragment = [] := by simpa using hfrag
              refine ⟨Decidable.not_not.mp hsch, hhost, by omega, by omega, hfragE, ⟨port?, hport, rfl⟩, rfl, rfl, ?_⟩
              rw [hfragE]
              rfl

theorem urlsplit_check (env : Env) (u : Str) (sp : Split) (h : urlsplit env u = .ok sp) :
    checkNetloc env sp.netloc = none := by
  unfold urlsplit at h
  generalize splitScheme (preprocess u) = sc at h
  obtain ⟨scheme, u1⟩ := sc
  simp only at h
  generalize splitNetloc u1 = nlp at h
  obtain ⟨netloc, u2⟩ := nlp
  simp only at h
  generalize splitTail u2 = tl at h
  obtain ⟨path, query, fragment⟩ := tl
  simp only at h
  cases hck : checkNetloc env netloc with
  | some e => simp [hck] at h
  | none =>
    simp only [hck] at h
    injection h with h
    subst h
    exact hck

theorem hostinfo_nil_raw : (hostinfo []).hostRaw = [] := by
  simp [hostinfo, rsplitOnce, splitOnce, findIdx]

/-- path and query of any accepted parse are in canonical shape, whatever the authority looks like -/
theorem tail_plain (sp : Split) (hok : SplitOK sp) (hnlne : sp.netloc ≠ []) :
    PlainTail (if sp.path.isEmpty then ['/'] else sp.path) sp.query := by
  refine ⟨?_, ?_, ?_⟩
  · by_cases hpe : sp.path.isEmpty = true
    · simp [hpe]
    · simp only [hpe, Bool.false_eq_true, ↓reduceIte]
      rcases hok.pathHead hnlne with h0 | h0
      · rw [h0] at hpe; simp at hpe
      · exact h0
  · intro c hc
    by_cases hpe : sp.path.isEmpty = true
    · simp only [hpe, ↓reduceIte, List.mem_singleton] at hc; subst hc; decide
    · simp only [hpe, Bool.false_eq_true, ↓reduceIte] at hc
      refine ⟨fun hh => hok.pathNo.1 (hh ▸ hc), fun hh => hok.pathNo.2 (hh ▸ hc), hok.safe c (by simp [hc])⟩
  · intro c hc
    exact ⟨fun hh => hok.queryNo (hh ▸ hc), hok.safe c (by simp [hc])⟩

/-- for every accepted URL (any authority, any environment): path and query are canonical -/
theorem parse_tail_plain (env : Env) (u : Str) (P : Parsed) (h : parseUrl env u = .ok P) : PlainTail P.path P.query := by
  unfold parseUrl at h
  split at h
  · simp at h
  · split at h
    · simp at h
    · rename_i sp hsp
      obtain ⟨_, hhost, _, _, _, _, hp, hq, _⟩ := parseSplit_inv env sp P h
      have hne : sp.netloc ≠ [] := by
        intro he
        have := (hostname_eq_normHost env sp.netloc P.host hhost).1
        rw [he] at this
        exact this hostinfo_nil_raw
      rw [hp, hq]
      exact tail_plain sp (urlsplit_spec env u sp hsp) hne

end Url

namespace Url

/-- the text between the first `[` and the next `]` -/
def hostRawB (b : Str) : Str := match splitOnce ']' b with | some (x, _) => x | none => b

theorem splitOnce_some_of_mem {c : Char} {s : Str} (h : c ∈ s) : ∃ a b, splitOnce c s = some (a, b) := by
  cases hs : splitOnce c s with
  | none => exact absurd h (splitOnce_none_iff hs)
  | some ab => exact ⟨ab.1, ab.2, rfl⟩

theorem hostRawB_spec (b : Str) : (∀ c ∈ hostRawB b, c ∈ b) ∧ ']' ∉ hostRawB b := by
  unfold hostRawB
  cases hs : splitOnce ']' b with
  | none => exact ⟨fun c hc => hc, splitOnce_none_iff hs⟩
  | some xy =>
    obtain ⟨x, y⟩ := xy
    obtain ⟨e, hn⟩ := splitOnce_spec hs
    exact ⟨fun c hc => by rw [e]; simp [hc], hn⟩

/-- `hostinfo` on text that contains `[` and no `@` -/
theorem hostinfo_raw_of_bracket {hi a b : Str} (hat : '@' ∉ hi) (hs : splitOnce '[' hi = some (a, b)) :
    (hostinfo hi).hostRaw = hostRawB b := by
  unfold hostinfo
  rw [rsplitOnce_none hat]
  simp only [hs]
  unfold hostRawB
  cases splitOnce ']' b with
  | none => rfl
  | some xy => obtain ⟨x, y⟩ := xy; rfl

theorem hostinfo_after_at {nl ui hi : Str} (hr : rsplitOnce '@' nl = some (ui, hi)) :
    hostinfo nl = hostinfo hi := by
  obtain ⟨_, hat⟩ := rsplitOnce_spec hr
  unfold hostinfo
  rw [hr, rsplitOnce_none hat]

theorem rsplitOnce_none_notMem {c : Char} {s : Str} (h : rsplitOnce c s = none) : c ∉ s := by
  intro hm
  unfold rsplitOnce at h
  cases hs : splitOnce c s.reverse with
  | none => exact splitOnce_none_iff hs (by simpa using hm)
  | some xy => simp [hs] at h

/-- an accepted authority with empty user-info: the text between the brackets that `urlsplit`
    hands to the IP-literal check is the raw host that `hostname` lower-cases -/
theorem bracket_raw {nl : Str} (hb : '[' ∈ nl)
    (hu1 : ((userinfo nl).1.getD []).length = 0) (hu2 : ((userinfo nl).2.getD []).length = 0) :
    bracketed nl = (hostinfo nl).hostRaw ∧
    (∀ c ∈ (hostinfo nl).hostRaw, c ∈ nl ∧ c ≠ '@' ∧ c ≠ ']') ∧ '[' ∈ hostPart nl := by
  cases hr : rsplitOnce '@' nl with
  | none =>
    have hat := rsplitOnce_none_notMem hr
    obtain ⟨a, b, hs⟩ := splitOnce_some_of_mem hb
    have e1 := hostinfo_raw_of_bracket hat hs
    obtain ⟨e, _⟩ := splitOnce_spec hs
    obtain ⟨s1, s2⟩ := hostRawB_spec b
    refine ⟨?_, ?_, ?_⟩
    · rw [e1]; unfold bracketed hostRawB; simp only [hs]
      cases splitOnce ']' b with
      | none => rfl
      | some xy => obtain ⟨x, y⟩ := xy; rfl
    · intro c hc
      rw [e1] at hc
      have hcn : c ∈ nl := by rw [e]; simp [s1 c hc]
      exact ⟨hcn, fun h => hat (h ▸ hcn), fun h => s2 (h ▸ hc)⟩
    · unfold hostPart; rw [hr]; exact hb
  | some uh =>
    obtain ⟨ui, hi⟩ := uh
    obtain ⟨e, hat⟩ := rsplitOnce_spec hr
    -- the user-info part is "" or ":"
    have hui : '[' ∉ ui := by
      unfold userinfo at hu1 hu2
      rw [hr] at hu1 hu2
      simp only at hu1 hu2
      cases hsc : splitOnce ':' ui with
      | none =>
        rw [hsc] at hu1
        simp only [Option.getD_some] at hu1
        have : ui = [] := List.eq_nil_of_length_eq_zero hu1
        rw [this]; simp
      | some up =>
        obtain ⟨u, p⟩ := up
        rw [hsc] at hu1 hu2
        simp only [Option.getD_some] at hu1 hu2
        obtain ⟨e2, _⟩ := splitOnce_spec hsc
        have h1 : u = [] := List.eq_nil_of_length_eq_zero hu1
        have h2 : p = [] := List.eq_nil_of_length_eq_zero hu2
        rw [e2, h1, h2]; decide
    have hbh : '[' ∈ hi := by
      rw [e] at hb
      simp only [List.mem_append, List.mem_cons] at hb
      rcases hb with hb | hb | hb
      · exact absurd hb hui
      · exact absurd hb (by decide)
      · exact hb
    obtain ⟨a, b, hs⟩ := splitOnce_some_of_mem hbh
    obtain ⟨e3, hna⟩ := splitOnce_spec hs
    have e1 := hostinfo_raw_of_bracket hat hs
    obtain ⟨s1, s2⟩ := hostRawB_spec b
    have hsnl : splitOnce '[' nl = some (ui ++ '@' :: a, b) := by
      have hn : '[' ∉ ui ++ '@' :: a := by
        simp only [List.mem_append, List.mem_cons, not_or]
        exact ⟨hui, by decide, hna⟩
      have := splitOnce_hit (b := b) hn
      rw [e, e3]
      simpa using this
    rw [hostinfo_after_at hr]
    refine ⟨?_, ?_, ?_⟩
    · rw [e1]; unfold bracketed hostRawB; simp only [hsnl]
      cases splitOnce ']' b with
      | none => rfl
      | some xy => obtain ⟨x, y⟩ := xy; rfl
    · intro c hc
      rw [e1] at hc
      have hch : c ∈ hi := by rw [e3]; simp [s1 c hc]
      have hcn : c ∈ nl := by rw [e]; simp [hch]
      exact ⟨hcn, fun h => hat (h ▸ hch), fun h => s2 (h ▸ hc)⟩
    · unfold hostPart; rw [hr]; exact hbh

def Special3 (c : Char) : Prop := isDelim c = true ∨ c = '@' ∨ c = ']' ∨ isUnsafe c = true

theorem lowerAscii_special3 (c : Char) : Special3 (lowerAscii c) ↔ Special3 c := by
  by_cases h : 'A' ≤ c ∧ c ≤ 'Z'
  · obtain ⟨k, h1, h2, rfl⟩ := upper_cases c h
    interval_cases k <;> (simp [Special3, lowerAscii, isDelim, isUnsafe] <;> decide)
  · have e : lowerAscii c = c := by unfold lowerAscii; rw [if_neg h]
    rw [e]

theorem not_special3 {c : Char} (h : ¬ Special3 c) : isDelim c = false ∧ c ≠ '@' ∧ c ≠ ']' ∧ isUnsafe c = false := by
  unfold Special3 at h
  simp only [not_or] at h
  obtain ⟨a, b, c', f⟩ := h
  exact ⟨by simpa using a, b, c', by simpa using f⟩

theorem normHost_chars3 (env : Env) (hl0 : AsciiLower env) (h : Str)
    (hc : ∀ c ∈ h, ¬ Special3 c ∧ c.toNat < 128) : ∀ c ∈ normHost env h, ¬ Special3 c ∧ c.toNat < 128 := by
  have hl : ∀ s, env.lowerU s = s.map lowerAscii := hl0
  have hmap : ∀ s : Str, (∀ c ∈ s, ¬ Special3 c ∧ c.toNat < 128) → ∀ c ∈ s.map lowerAscii, ¬ Special3 c ∧ c.toNat < 128 := by
    intro s hs c hcm
    simp only [List.mem_map] at hcm
    obtain ⟨d, hd, rfl⟩ := hcm
    exact ⟨fun hsp => (hs d hd).1 ((lowerAscii_special3 d).mp hsp), (lowerAscii_facts d).2.1 (hs d hd).2⟩
  unfold normHost
  cases hs : splitOnce '%' h with
  | none => simp only [hl]; exact hmap h hc
  | some az =>
    obtain ⟨a, z⟩ := az
    obtain ⟨e, _⟩ := splitOnce_spec hs
    simp only [hl]
    intro c hcm
    simp only [List.mem_append, List.mem_singleton] at hcm
    rcases hcm with (hcm | rfl) | hcm
    · exact hmap a (fun d hd => hc d (by rw [e]; simp [hd])) c hcm
    · exact ⟨by unfold Special3; decide, by decide⟩
    · exact hc c (by rw [e]; simp [hcm])

/-- **C19 for bracketed ASCII authorities**: the host stays bracketed, whatever stands between the brackets -/
theorem norm_idem_bracket (env : Env) (hl : AsciiLower env) (hip : IpStable env) (u : Str) (P : Parsed) (sp : Split)
    (hsp : urlsplit env u = .ok sp) (hascii : ∀ c ∈ sp.netloc, c.toNat < 128) (hb : '[' ∈ sp.netloc)
    (h : parseUrl env u = .ok P) : parseUrl env P.normalized = .ok P := by
  have hsplit : parseSplit env sp = .ok P := by
    unfold parseUrl at h
    split at h
    · simp at h
    · rw [hsp] at h; exact h
  have hok := urlsplit_spec env u sp hsp
  obtain ⟨_, hhost, hu1, hu2, _, ⟨port?, hport, hpe⟩, hp, hq, hnorm⟩ := parseSplit_inv env sp P hsplit
  obtain ⟨hrawne, hhosteq⟩ := hostname_eq_normHost env sp.netloc P.host hhost
  obtain ⟨hbr, hrawc, hbhp⟩ := bracket_raw hb hu1 hu2
  have hnlne : sp.netloc ≠ [] := by intro he; rw [he] at hb; simp at hb
  have ht : PlainTail P.path P.query := by rw [hp, hq]; exact tail_plain sp hok hnlne
  have hn : P.port ≤ 65535 := by rw [hpe]; exact portOf_le _ _ hport
  -- the raw host passed the IP-literal check
  have hipraw : env.ipLiteralOk (hostinfo sp.netloc).hostRaw = true := by
    have hck := urlsplit_check env u sp hsp
    unfold checkNetloc at hck
    have ho : sp.netloc.contains '[' = true := contains_true hb
    have hc : sp.netloc.contains ']' = true := contains_true (hok.brackets.mp hb)
    rw [← hbr]
    simp only [ho, hc] at hck
    cases hv : env.ipLiteralOk (bracketed sp.netloc) with
    | true => rfl
    | false => simp [hv] at hck
  have hraw3 : ∀ c ∈ (hostinfo sp.netloc).hostRaw, ¬ Special3 c ∧ c.toNat < 128 := by
    intro c hc
    obtain ⟨hcn, h1, h2⟩ := hrawc c hc
    refine ⟨?_, hascii c hcn⟩
    unfold Special3
    simp only [not_or]
    exact ⟨by simp [hok.nlNoDelim c hcn], h1, h2, by simp [hok.safe c (by simp [hcn])]⟩
  have hhost3 := normHost_chars3 env hl _ hraw3
  rw [← hhosteq] at hhost3
  have hfixed : normHost env P.host = P.host := by rw [hhosteq]; exact normHost_idem env hl _
  have hne : P.host ≠ [] := by rw [hhosteq]; exact normHost_ne_nil env hl _ hrawne
  have hqe : P.query = sp.query := hq
  rw [← hqe] at hnorm
  have hH : BrHost env P.host := by
    refine ⟨hne, ?_, hfixed, ?_⟩
    · intro c hc
      obtain ⟨h1, h2⟩ := hhost3 c hc
      obtain ⟨a, b, c', f⟩ := not_special3 h1
      exact ⟨a, b, c', h2, f⟩
    · rw [hhosteq]; exact hip _ hipraw
  have hrb : rebracket sp.netloc P.host = brk P.host := by
    unfold rebracket brk
    rw [if_pos (contains_true hbhp)]
  have hnl : authorityOf (brk P.host) P.port ≠ [] := by rw [brAuth_form]; simp
  rw [hrb, unsplit_assemble hnl ht.slash] at hnorm
  rw [hnorm, parse_canonical_br env hH P.port hn ht]
  congr 1
  cases P
  simp only at hnorm ⊢
  rw [hnorm]

/-- the host name of an accepted URL with an ASCII authority contains no TAB, CR or LF -/
theorem host_safe_ascii (env : Env) (hl : AsciiLower env) (u : Str) (P : Parsed) (sp : Split)
    (hsp : urlsplit env u = .ok sp) (hascii : ∀ c ∈ sp.netloc, c.toNat < 128)
    (h : parseUrl env u = .ok P) : ∀ c ∈ P.host, isUnsafe c = false := by
  have hsplit : parseSplit env sp = .ok P := by
    unfold parseUrl at h
    split at h
    · simp at h
    · rw [hsp] at h; exact h
  have hok := urlsplit_spec env u sp hsp
  by_cases hb : '[' ∈ sp.netloc
  · obtain ⟨_, hhost, hu1, hu2, _, _, _, _, _⟩ := parseSplit_inv env sp P hsplit
    obtain ⟨_, hhosteq⟩ := hostname_eq_normHost env sp.netloc P.host hhost
    obtain ⟨_, hrawc, _⟩ := bracket_raw hb hu1 hu2
    have hraw3 : ∀ c ∈ (hostinfo sp.netloc).hostRaw, ¬ Special3 c ∧ c.toNat < 128 := by
      intro c hc
      obtain ⟨hcn, h1, h2⟩ := hrawc c hc
      refine ⟨?_, hascii c hcn⟩
      unfold Special3
      simp only [not_or]
      exact ⟨by simp [hok.nlNoDelim c hcn], h1, h2, by simp [hok.safe c (by simp [hcn])]⟩
    have hhost3 := normHost_chars3 env hl _ hraw3
    rw [← hhosteq] at hhost3
    intro c hc
    exact (not_special3 (hhost3 c hc).1).2.2.2
  · obtain ⟨hH, _, _, _⟩ := parseSplit_output env hl sp P hok hascii hb hsplit
    intro c hc
    exact (hH.chars c hc).2.2.2.2.2.2

/-- **C19 (`norm_accepted`, `norm_same`, `norm_idem`) for every ASCII authority**, bracketed or not -/
theorem norm_idem_ascii (env : Env) (hl : AsciiLower env) (hip : IpStable env) (u : Str) (P : Parsed) (sp : Split)
    (hsp : urlsplit env u = .ok sp) (hascii : ∀ c ∈ sp.netloc, c.toNat < 128)
    (h : parseUrl env u = .ok P) : parseUrl env P.normalized = .ok P := by
  by_cases hb : '[' ∈ sp.netloc
  · exact norm_idem_bracket env hl hip u P sp hsp hascii hb h
  · exact norm_idem_plain env hl u P sp hsp hascii hb h

end Url
