/-! A Python `dict` with string keys, as the translator (`harness/translate.py`) renders it: an association list in
    insertion order; assignment appends, lookup takes the LAST binding of the key. -/
namespace Py
abbrev Dict := List (List Char × List Char)
def dictSet (d : Dict) (k v : List Char) : Dict := d ++ [(k, v)]
def dictGet (d : Dict) (k : List Char) : Option (List Char) := (d.reverse.find? (fun p => p.1 == k)).map (·.2)

theorem dictGet_set (d : Dict) (k v k' : List Char) :
    dictGet (dictSet d k v) k' = if k == k' then some v else dictGet d k' := by
  unfold dictGet dictSet
  simp only [List.reverse_append, List.reverse_cons, List.reverse_nil, List.nil_append, List.cons_append, List.find?_cons]
  cases h : (k == k') <;> simp

theorem dictGet_nil (k : List Char) : dictGet [] k = none := rfl
end Py
