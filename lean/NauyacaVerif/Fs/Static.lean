import NauyacaVerif.Fs.Tree
namespace Fs

/-! ## abstract OS interface used by the handlers (all paths absolute, as components) -/
inductive Kind where
  | file | dir | other | missing
  | error      -- `stat` raised an `OSError` that pathlib does not swallow (ENAMETOOLONG)
deriving Repr, DecidableEq

inductive ReadResult where
  | ok (id : Nat)          -- content identified by the file's id
  | notUtf8 | denied | ioError
deriving Repr, DecidableEq

structure OS where
  /-- `Path.resolve(strict=True)`: none = raised (missing component, symlink loop, embedded NUL, over-long name) -/
  resolve : Path → Option Path
  /-- `stat`-based kind of a path (follows symlinks) -/
  kind : Path → Kind
  size : Path → Nat
  readText : Path → ReadResult
  /-- `generate_directory_listing`: none = raised -/
  listing : Path → Option (List Name)

structure SCfg where
  root : Path                     -- already resolved document root
  indices : List Name
  listingOn : Bool
  maxSize : Nat

/-- why a 40 was returned -/
inductive Fail where
  | notUtf8      -- "File encoding error (not UTF-8)"
  | denied       -- "Permission denied"
  | ioError      -- "Server error: " ++ str(e)
  | listing      -- "Error generating directory listing: " ++ str(e)
deriving Repr, DecidableEq

inductive SResp where
  | file (p : Path) (id : Nat)     -- 20 with the content of the file at resolved location p
  | listing (p : Path) (names : List Name)
  | notFound                        -- 51
  | tooLarge                        -- 50
  | tempFail (why : Fail)           -- 40
  | raised                          -- `handle` itself raised (the protocol layer answers 40)
deriving Repr, DecidableEq

def inside (root p : Path) : Bool := root.isPrefixOf p

/-- index lookup in a directory: first index name that is a regular file whose *resolved*
    location is still inside the root -/
def findIndex (os : OS) (cfg : SCfg) (dir : Path) : List Name → Option Path
  | [] => none
  | n :: ns =>
    let ip := dir ++ [n]
    if os.kind ip = .file then
      match os.resolve ip with
      | some r => if inside cfg.root r then some r else findIndex os cfg dir ns
      | none => findIndex os cfg dir ns
    else findIndex os cfg dir ns

/-- the index loop's `index_path.exists()`: `Path.exists` swallows ENOENT / ENOTDIR / EBADF / ELOOP only, so an
    index name whose `stat` fails with ENAMETOOLONG (an index symlink whose target holds an over-long
    component) makes `handle` raise - before any later index name, or the listing, is tried.  True iff
    the loop meets such a name before it accepts an index. -/
def indexRaises (os : OS) (cfg : SCfg) (dir : Path) : List Name → Bool
  | [] => false
  | n :: ns =>
    let ip := dir ++ [n]
    if os.kind ip = .error then true
    else if os.kind ip = .file then
      match os.resolve ip with
      | some r => if inside cfg.root r then false else indexRaises os cfg dir ns
      | none => indexRaises os cfg dir ns
    else indexRaises os cfg dir ns

def serveFile (os : OS) (cfg : SCfg) (p : Path) : SResp :=
  if os.kind p ≠ .file then .notFound
  else if os.size p > cfg.maxSize then .tooLarge
  else match os.readText p with
    | .ok id => .file p id
    | .notUtf8 => .tempFail .notUtf8
    | .denied => .tempFail .denied
    | .ioError => .tempFail .ioError

/-- what is done with a directory `fp` inside the root -/
def serveDir (os : OS) (cfg : SCfg) (fp : Path) : SResp :=
  if indexRaises os cfg fp cfg.indices then .raised
  else
    match findIndex os cfg fp cfg.indices with
    | some ip => serveFile os cfg ip
    | none =>
      if cfg.listingOn then
        match os.listing fp with
        | some names => .listing fp names
        | none => .tempFail .listing
      else .notFound

/-- `StaticFileHandler.handle` on the canonical path: its segments and whether it ends in `/` -/
def handle (os : OS) (cfg : SCfg) (comps : List Name) (trailing : Bool) : SResp :=
  match os.resolve (cfg.root ++ comps) with
  | none => .notFound
  | some fp =>
    if !inside cfg.root fp then .notFound
    else if os.kind fp = .error then .raised
    else if trailing && os.kind fp != .dir then .notFound
    else if os.kind fp = .dir then serveDir os cfg fp
    else serveFile os cfg fp

/-! ### what goes on the wire -/
inductive Body where
  | fileOf (id : Nat)
  | listingOf (p : Path) (names : List Name)
deriving Repr, DecidableEq

def SResp.status : SResp → Nat
  | .file _ _ => 20 | .listing _ _ => 20 | .notFound => 51 | .tooLarge => 50 | .tempFail _ => 40 | .raised => 40

def SResp.success (r : SResp) : Bool := r.status == 20

def SResp.body : SResp → Option Body
  | .file _ id => some (.fileOf id)
  | .listing p names => some (.listingOf p names)
  | _ => none

def metaNotFound : List Nat := [78, 111, 116, 32, 102, 111, 117, 110, 100]
def metaTooLarge : List Nat :=
  [70, 105, 108, 101, 32, 116, 111, 111, 32, 108, 97, 114, 103, 101, 32, 45, 32, 117, 115, 101, 32, 97, 108, 116,
   101, 114, 110, 97, 116, 105, 118, 101, 32, 112, 114, 111, 116, 111, 99, 111, 108]
def metaNotUtf8 : List Nat :=
  [70, 105, 108, 101, 32, 101, 110, 99, 111, 100, 105, 110, 103, 32, 101, 114, 114, 111, 114, 32, 40, 110, 111,
   116, 32, 85, 84, 70, 45, 56, 41]
def metaDenied : List Nat := [80, 101, 114, 109, 105, 115, 115, 105, 111, 110, 32, 100, 101, 110, 105, 101, 100]
def metaServerError : List Nat := [83, 101, 114, 118, 101, 114, 32, 101, 114, 114, 111, 114, 58, 32]
def metaListingError : List Nat :=
  [69, 114, 114, 111, 114, 32, 103, 101, 110, 101, 114, 97, 116, 105, 110, 103, 32, 100, 105, 114, 101, 99, 116,
   111, 114, 121, 32, 108, 105, 115, 116, 105, 110, 103, 58, 32]

/-- the meta of a non-success response; `exc` = `str(e)` of the exception caught (the operating
    system's error text: errno message and the path, never file content) -/
def SResp.errMeta (exc : List Nat) : SResp → List Nat
  | .notFound => metaNotFound
  | .tooLarge => metaTooLarge
  | .tempFail .notUtf8 => metaNotUtf8
  | .tempFail .denied => metaDenied
  | .tempFail .ioError => metaServerError ++ exc
  | .tempFail .listing => metaListingError ++ exc
  | .raised => metaServerError ++ exc
  | _ => []

/-! ### C02 safety: everything delivered was resolved and lies inside the root -/
def Resolved (os : OS) (p : Path) : Prop := ∃ q, os.resolve q = some p

theorem findIndex_inside (os : OS) (cfg : SCfg) (dir : Path) (ns : List Name) (ip : Path)
    (h : findIndex os cfg dir ns = some ip) : inside cfg.root ip = true ∧ Resolved os ip := by
  induction ns with
  | nil => simp [findIndex] at h
  | cons n ns ih =>
    simp only [findIndex] at h
    split at h
    · split at h
      · rename_i r hr
        split at h
        · rename_i hin; simp at h; subst h; exact ⟨hin, _, hr⟩
        · exact ih h
      · exact ih h
    · exact ih h

theorem serveFile_file (os : OS) (cfg : SCfg) (p q : Path) (id : Nat) (h : serveFile os cfg p = .file q id) :
    q = p ∧ os.readText p = .ok id ∧ os.kind p = .file ∧ os.size p ≤ cfg.maxSize := by
  unfold serveFile at h
  split at h
  · simp at h
  · rename_i hk
    split at h
    · simp at h
    · rename_i hsz
      split at h
      · rename_i he
        simp at h
        exact ⟨h.1.symm, by rw [he, h.2], by simpa using hk, by omega⟩
      all_goals simp at h

theorem serveFile_not_listing (os : OS) (cfg : SCfg) (p q : Path) (names : List Name) :
    serveFile os cfg p ≠ .listing q names := by
  unfold serveFile
  split
  · simp
  · split
    · simp
    · split <;> simp

theorem serveDir_file (os : OS) (cfg : SCfg) (fp p : Path) (id : Nat) (h : serveDir os cfg fp = .file p id) :
    ∃ ip, findIndex os cfg fp cfg.indices = some ip ∧ serveFile os cfg ip = .file p id := by
  unfold serveDir at h
  split at h
  · simp at h
  · split at h
    · rename_i ip hip; exact ⟨ip, hip, h⟩
    · split at h
      · split at h <;> simp at h
      · simp at h

theorem serveDir_listing (os : OS) (cfg : SCfg) (fp p : Path) (names : List Name)
    (h : serveDir os cfg fp = .listing p names) :
    p = fp ∧ cfg.listingOn = true ∧ os.listing fp = some names ∧ findIndex os cfg fp cfg.indices = none := by
  unfold serveDir at h
  split at h
  · simp at h
  · split at h
    · exact absurd h (serveFile_not_listing _ _ _ _ _)
    · rename_i hnone
      split at h
      · rename_i hl
        split at h
        · rename_i ns hns
          simp at h
          exact ⟨h.1.symm, hl, by rw [hns, h.2], hnone⟩
        · simp at h
      · simp at h

/-- the shape of `handle` once the path resolved inside the root -/
theorem handle_cases (os : OS) (cfg : SCfg) (comps : List Name) (trailing : Bool) (r : SResp)
    (h : handle os cfg comps trailing = r) :
    r = .notFound ∨ r = .raised ∨
    ∃ fp, os.resolve (cfg.root ++ comps) = some fp ∧ inside cfg.root fp = true ∧
      ((os.kind fp = .dir ∧ r = serveDir os cfg fp) ∨
       (os.kind fp ≠ .dir ∧ trailing = false ∧ r = serveFile os cfg fp)) := by
  unfold handle at h
  split at h
  · exact Or.inl h.symm
  · rename_i fp hfp
    split at h
    · exact Or.inl h.symm
    · rename_i hin
      have hin' : inside cfg.root fp = true := by simpa using hin
      split at h
      · exact Or.inr (Or.inl h.symm)
      · split at h
        · exact Or.inl h.symm
        · rename_i htr
          split at h
          · rename_i hd
            exact Or.inr (Or.inr ⟨fp, hfp, hin', Or.inl ⟨hd, h.symm⟩⟩)
          · rename_i hd
            refine Or.inr (Or.inr ⟨fp, hfp, hin', Or.inr ⟨hd, ?_, h.symm⟩⟩)
            cases trailing with
            | false => rfl
            | true =>
              exfalso; apply htr
              simp only [Bool.true_and, bne_iff_ne, ne_eq]
              exact hd

/-- C02: a success response carries a file or a listing whose fully resolved location lies
    inside the document root -/
theorem static_contained (os : OS) (cfg : SCfg) (comps : List Name) (trailing : Bool) :
    (∀ p id, handle os cfg comps trailing = .file p id →
      inside cfg.root p = true ∧ Resolved os p ∧ os.readText p = .ok id) ∧
    (∀ p names, handle os cfg comps trailing = .listing p names →
      inside cfg.root p = true ∧ Resolved os p ∧ os.listing p = some names) := by
  constructor
  · intro p id h
    rcases handle_cases os cfg comps trailing _ h with h1 | h1 | ⟨fp, hfp, hin, hc⟩
    · cases h1
    · cases h1
    · rcases hc with ⟨_, hr⟩ | ⟨_, _, hr⟩
      · obtain ⟨ip, hip, hs⟩ := serveDir_file os cfg fp p id hr.symm
        obtain ⟨rfl, hrd, _, _⟩ := serveFile_file os cfg ip p id hs
        have := findIndex_inside os cfg fp cfg.indices _ hip
        exact ⟨this.1, this.2, hrd⟩
      · obtain ⟨rfl, hrd, _, _⟩ := serveFile_file os cfg fp p id hr.symm
        exact ⟨hin, ⟨_, hfp⟩, hrd⟩
  · intro p names h
    rcases handle_cases os cfg comps trailing _ h with h1 | h1 | ⟨fp, hfp, hin, hc⟩
    · cases h1
    · cases h1
    · rcases hc with ⟨_, hr⟩ | ⟨_, _, hr⟩
      · obtain ⟨rfl, _, hl, _⟩ := serveDir_listing os cfg fp p names hr.symm
        exact ⟨hin, ⟨_, hfp⟩, hl⟩
      · exact absurd hr.symm (serveFile_not_listing _ _ _ _ _)
end Fs
