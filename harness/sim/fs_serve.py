"""The server as an operator starts it: the real `nauyaca serve …` command (typer app, `ServerConfig.from_toml`,
the glue in `__main__.serve`, `start_server`: router, locations, middleware chain, TLS backend) with
`loop.create_server` replaced by a stub for the duration of ONE run - no port is bound.  The stub hands the
protocol factory the server would listen with to a probe coroutine that runs INSIDE the loop `start_server` runs
on; the probe pushes connections through it: plain request lines on a fake transport when the factory makes
`GeminiServerProtocol`s, whole TLS sessions over memory BIOs (several open at once, handshakes and request
lines interleaved in any order) when it makes `TLSServerProtocol`s.

Used by C02 (`served`) and C05 (`served`).  Nothing here touches /repo; all files live in `nv-` temp dirs.
"""
from __future__ import annotations

import asyncio
import os
import ssl

from . import fs_pump as P


class FakeTransport:
    """what a `GeminiServerProtocol` needs from a TCP/TLS transport"""

    def __init__(self, der: bytes | None = None, peer=("192.0.2.1", 4711)):
        self.out = b""
        self.closed = False
        self._der = der
        self._peer = peer

    def write(self, b):
        if not self.closed:
            self.out += bytes(b)

    def close(self):
        self.closed = True

    def abort(self):
        self.closed = True

    def is_closing(self):
        return self.closed

    def get_extra_info(self, name, default=None):
        return self._peer if name == "peername" else default


def run_serve(argv: list[str], probe, cwd: str | None = None) -> dict:
    """`nauyaca serve <argv> --log-level CRITICAL` with create_server stubbed; `probe(factory)` is awaited in place of
    `serve_forever()`.  -> {"started", "exit", "output", "value" (what the probe returned), "kw" (create_server keywords)}"""
    import asyncio.base_events as be

    from typer.testing import CliRunner

    import nauyaca.__main__ as M
    import nauyaca.server.server as S

    box = {"started": False, "finished": False, "value": None, "kw": None}

    class DummyServer:
        def __init__(self, factory):
            self.factory = factory

        async def __aenter__(self):
            return self

        async def __aexit__(self, *a):
            return False

        async def serve_forever(self):
            box["value"] = await probe(self.factory)
            box["finished"] = True

    async def fake_create_server(loop_self, factory, host=None, port=None, **kw):
        box["started"] = True
        box["kw"] = sorted(kw)
        return DummyServer(factory)

    def cheap_pyopenssl_context():
        from OpenSSL import SSL

        return SSL.Context(SSL.TLS_SERVER_METHOD)

    saved = (be.BaseEventLoop.create_server, S._create_self_signed_context, S._create_self_signed_pyopenssl_context)
    old_cwd = os.getcwd() if cwd else None
    # (without --cert/--key the server makes up a certificate; no handshake is run against it here: skip the RSA key generation)
    be.BaseEventLoop.create_server = fake_create_server
    S._create_self_signed_context = lambda request_client_cert=False: ssl.SSLContext(ssl.PROTOCOL_TLS_SERVER)
    S._create_self_signed_pyopenssl_context = cheap_pyopenssl_context
    env = {k: os.environ.pop(k) for k in list(os.environ) if k.startswith("NAUYACA_") and k not in ("NAUYACA_REPO", "NAUYACA_LEAN_DIR", "NAUYACA_OUT", "NAUYACA_VERIF", "NAUYACA_DEV")}
    try:
        if cwd:
            os.chdir(cwd)
        # (log level CRITICAL: the server's loggers are cached on first use together with the stdout of THAT CliRunner
        # invocation, which is closed afterwards - a later `logger.error(...)` would raise "I/O operation on closed
        # file" inside the protocol; in a real process stdout stays open)
        r = CliRunner().invoke(M.app, ["serve", *argv, "--log-level", "CRITICAL"])
    finally:
        if old_cwd:
            os.chdir(old_cwd)
        os.environ.update(env)
        be.BaseEventLoop.create_server, S._create_self_signed_context, S._create_self_signed_pyopenssl_context = saved
        try:
            import structlog

            __import__('harness.core', fromlist=['core']).configure_harness_logging()      # put the harness logging configuration back
        except Exception:  # noqa: BLE001
            pass
    if box["started"] and not box["finished"]:
        raise RuntimeError(f"probe did not finish: {r.output[-400:]} {r.exception!r}")
    return {"started": box["finished"], "exit": r.exit_code, "output": (r.output or "")[-600:], "value": box["value"], "kw": box["kw"]}


async def settle(n: int = 6):
    for _ in range(n):
        await asyncio.sleep(0)


async def plain_request(factory, line: bytes, der: bytes | None = None, peer=("192.0.2.1", 4711)) -> tuple[bytes, bool]:
    """one request line through a protocol made by `factory` on a fake (already 'TLS-terminated') transport"""
    p = factory()
    tr = FakeTransport(der, peer)
    p.connection_made(tr)
    try:
        p.data_received(line)
        for _ in range(40):
            if tr.closed:
                break
            await asyncio.sleep(0)
    except Exception as e:  # noqa: BLE001  (the protocol itself raised: nothing well-formed was sent)
        tr.out = b"00 protocol raised " + type(e).__name__.encode() + b"\r\n"
    try:
        p.connection_lost(None)
    except Exception:  # noqa: BLE001
        pass
    return tr.out, tr.closed


class TlsConn:
    """one TLS client connection to a `TLSServerProtocol` made by `factory`, over memory BIOs; the steps
    (handshake, request line, reading the answer) are separate calls so that several connections can be
    open at once and interleaved"""

    def __init__(self, factory, cert_id: int | None, tls13: bool = True):
        st = P.state()
        cctx = st["clients"][cert_id]["ctx"] if cert_id else st["anon"]
        cctx.maximum_version = ssl.TLSVersion.TLSv1_3 if tls13 else ssl.TLSVersion.TLSv1_2
        self.cert_id = cert_id
        self.sp = factory()
        self.tcp = P.FakeTCP()
        self.sp.connection_made(self.tcp)
        self.inb, self.outb = ssl.MemoryBIO(), ssl.MemoryBIO()
        self.so = cctx.wrap_bio(self.inb, self.outb, server_hostname="localhost")
        self.got = b""
        self.shaken = False
        self.lost = False

    def pump(self):
        data = self.outb.read()
        if data and not self.tcp.closed:
            self.sp.data_received(data)
        for b in self.tcp.out:
            self.inb.write(b)
        self.tcp.out.clear()

    def handshake(self) -> bool:
        for _ in range(10):
            try:
                self.so.do_handshake()
                self.shaken = True
                break
            except ssl.SSLWantReadError:
                self.pump()
            except ssl.SSLError:
                return False
        self.pump()          # the client's last flight: the server completes its side of the handshake now
        return self.shaken

    def send(self, line: bytes):
        self.so.write(line)
        self.pump()

    async def collect(self) -> bytes:
        for _ in range(12):
            self.pump()
            await settle(4)
            self.pump()
            try:
                while True:
                    x = self.so.read(1 << 20)
                    if not x:
                        break
                    self.got += x
            except ssl.SSLWantReadError:
                pass
            except ssl.SSLZeroReturnError:
                break
            except ssl.SSLError:
                self.got += b"<SSLERR>"
                break
            if self.tcp.closed and not self.tcp.out and not self.inb.pending:
                break
        return self.got

    def close(self):
        if not self.lost:
            self.lost = True
            try:
                self.sp.connection_lost(None)
            except Exception:  # noqa: BLE001
                pass


def server_cert_files() -> tuple[str, str]:
    """certificate and key file of the test server identity (made by fs_pump.state())"""
    d = P.state()["dir"]
    return os.path.join(d, "server.pem"), os.path.join(d, "server.key")
