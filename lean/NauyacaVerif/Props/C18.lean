import NauyacaVerif.Srv.Relay
import NauyacaVerif.Gen.Params
import NauyacaVerif.Gen.ProxyGen

/-! # C18  The reverse proxy relays responses verbatim and contains upstream faults

Models: `Srv.render` (M-Render: `_encode_response`, the one place a handler's response becomes
bytes), `Srv.proxyRespond` (the `try/except` of `ProxyHandler._handle_async`), `Srv.proxyGet`
(the single `GeminiClient.get(url, follow_redirects=False)`).  The upstream fetch itself (TLS, the
client protocol's header parsing and size caps, timeouts) is the client's (C13) and is tied to these
models by the correspondence run against scripted loopback upstreams: which exception class a given
upstream behaviour produces (`Fault.cls`) is tested, not proved. -/

namespace NauyacaVerif.C18
open Srv

theorem maxMeta_tie : Srv.maxMeta = Gen.maxMeta := by decide
theorem decodeText_tie : Gen.proxyDecodeText = false ∧ Gen.proxyDecodeText_found = true := by decide
theorem followRedirects_tie : Gen.proxyFollowRedirects = false ∧ Gen.proxyFollowRedirects_found = true := by decide
theorem tofu_tie : Gen.proxyTofu = false ∧ Gen.proxyTofu_found = true := by decide

/-- a well-formed upstream response — status 10–69, meta of at most `MAX_META_SIZE` bytes that is
    valid UTF-8 without CR/LF, body only with 2x — leaves the proxy as exactly the bytes the upstream
    sent, for every status class, media type and charset label: the body travels as bytes
    (`decode_text=False`) and is never interpreted -/
theorem proxy_relay (st : Nat) (metaBytes body : Bytes) (metaStr : PyStr)
    (hst : 10 ≤ st ∧ st ≤ 69)
    (hlen : metaBytes.length ≤ Gen.maxMeta)
    (hclean : ∀ c ∈ metaStr, c ≠ 13 ∧ c ≠ 10)
    (hround : (encodeReplace metaStr).flatten = metaBytes)
    (hbody : body ≠ [] → 20 ≤ st ∧ st ≤ 29) :
    let r : Resp := proxyRespond (.resp ⟨st, metaStr, if body.isEmpty then .none else .bytes body⟩)
    (render r).1 ++ (render r).2 = upstreamBytes st metaBytes body :=
  relay_verbatim st metaBytes body metaStr hst hlen hclean hround hbody

/-- every failure of the upstream fetch — whichever `except` clause catches it, whatever its message —
    reaches the client as one well-formed `43` header without a body -/
theorem proxy_faults (k : FailClass) (msg : PyStr) :
    WFHeader (render (proxyRespond (.fail k msg))).1 ∧
    statusOf (render (proxyRespond (.fail k msg))).1 = 43 ∧
    (render (proxyRespond (.fail k msg))).2 = [] :=
  Srv.proxy_faults k msg

/-- refuse / TLS failure / reset / stall at each stage / malformed / oversize / early close: each kind ⇒ 43 -/
theorem proxy_fault_kinds (f : Fault) (msg : PyStr) :
    statusOf (render (proxyRespond (.fail f.cls msg))).1 = 43 ∧ (render (proxyRespond (.fail f.cls msg))).2 = [] :=
  Srv.proxy_fault_kinds f msg

/-- whatever the fetch yields, what is written is one well-formed header, and a body only under 2x -/
theorem proxy_one_wellformed (f : Fetch) :
    WFHeader (render (proxyRespond f)).1 ∧
    ((render (proxyRespond f)).2 ≠ [] → 20 ≤ statusOf (render (proxyRespond f)).1 ∧ statusOf (render (proxyRespond f)).1 ≤ 29) :=
  render_wf (proxyRespond f)

/-- a 3x answer is returned to the client as it is, and only the upstream URL is connected to -/
theorem proxy_no_follow (fetch : Cl.Url → Option Cl.Resp) (max : Nat) (u : Cl.Url) (s : Nat) (t : Cl.Url)
    (h : fetch u = some (.redirect s t)) : proxyGet fetch max u = (.ok (.redirect s t), [u]) :=
  Srv.proxy_no_follow fetch max u s t h

theorem proxy_single_connection (fetch : Cl.Url → Option Cl.Resp) (max : Nat) (u : Cl.Url) :
    (proxyGet fetch max u).2 = [u] := Srv.proxy_single_connection fetch max u

/-! ## non-vacuity -/

/-- "20 text/plain; charset=latin-1" with the body byte E9: relayed as is -/
def latinMeta : PyStr := [116,101,120,116,47,112,108,97,105,110,59,32,99,104,97,114,115,101,116,61,108,97,116,105,110,45,49]
example : (render (proxyRespond (.resp ⟨20, latinMeta, .bytes [0xE9]⟩))).1 ++ (render (proxyRespond (.resp ⟨20, latinMeta, .bytes [0xE9]⟩))).2
    = [50, 48, 32] ++ latinMeta ++ [13, 10, 0xE9] := by decide
/-- what the unrepaired proxy did: the same body handed over as text is re-encoded -/
example : (render ⟨20, latinMeta, .str [0xE9]⟩).2 = [0xC3, 0xA9] := by decide
example : (render (proxyRespond (.fail .connection [10, 13, 120]))).2 = [] := by decide
example : statusOf (render (proxyRespond (.fail (Fault.cls .stallHeader) []))).1 = 43 := (proxy_fault_kinds .stallHeader []).1

def a : Cl.Url := ['g','e','m','i','n','i',':','/','/','a','/']
def b : Cl.Url := ['g','e','m','i','n','i',':','/','/','b','/']
def demo : Cl.Url → Option Cl.Resp := fun u => if u = a then some (.redirect 31 b) else if u = b then some (.final 20) else none
example : proxyGet demo 5 a = (.ok (.redirect 31 b), [a]) := by decide
/-- the same graph with redirect following on would have made two connections -/
example : clientGet demo true 5 a = (.ok (.final 20), [a, b]) := by decide
end NauyacaVerif.C18
