"""C02  Static serving never escapes the document root

Correspondence: the real `StaticFileHandler.handle` (and, for a sample of every case, the real
`GeminiServerProtocol` on a fake transport, so that the request-line glue is covered) on generated
document trees x request-path spellings, against `Fs.handle` over the executable symlink-tree
model in Lean; the same with ONE long-lived handler while the tree is edited between rounds of
requests (`sequence`: the model keeps no state, every answer is compared with `Fs.handle` on the
tree as it is on disk at that moment; `wear`: the tree stays, the handler answers hundreds of requests of every
kind in a process that may open only a few dozen more files, and must answer afterwards as before; `neighbours`: SEVERAL handlers
of one process whose roots are different directories of one tree, linked to each other, asked in turn - each judged against ITS root); `canonical_path` against `Fs.Canon.canonSegs`; the port
of `posixpath._joinrealpath` against the kernel.
"""
from __future__ import annotations

import ast
import os
import random
import urllib.parse
import re
import tempfile

from .. import core
from ..core import Family
from ..extract import parse_source
from ..sim import fs_live as LV
from ..sim import fs_tree as T

ID = "C02"
READY = True
LEAN_TARGETS = ["NauyacaVerif.Props.C02", "NauyacaVerif.Props.Tr.CanonicalPath"]
THEOREMS = [f"NauyacaVerif.C02.{t}" for t in (
    "static_contained", "static_contained_url", "static_no_leak", "static_reads", "static_complete_os", "static_complete", "static_complete_tree",
    "pctDecode_pctEncode", "utf8Dec_utf8Enc", "canon_segments_clean", "index_rechecked", "metas_tie", "single_read_tie")]
THEOREMS = list(THEOREMS) + ['NauyacaVerif.Translated.canonicalPath_eq', 'NauyacaVerif.Translated.canonStep_eq']
TRANSLATED = ['canonicalPath']
LEAN_TARGETS = LEAN_TARGETS + ["NauyacaVerif.Props.Tr.StaticHandle", "NauyacaVerif.Props.Tr.IsSafePath"]
TRANSLATED = list(globals().get("TRANSLATED", [])) + ["staticHandle", "isSafePath"]
THEOREMS = THEOREMS + [f"NauyacaVerif.Translated.{t}" for t in ("index_loop", "static_handle_eq", "is_safe_path_eq", "is_safe_path_iff")]
EXTRACT = ["defaultMaxFileSize"]
ASSUMPTIONS = [
    "OS contract (DESIGN.md §3): Path.resolve is idempotent and reading through a path equals reading through its resolution; the theorems are over an abstract OS structure, containment is stated for the value resolve() returned",
    "the executable symlink tree (port of posixpath._joinrealpath of Python 3.12.1, kernel-style walk, ELOOP probe, ENAMETOOLONG) that instantiates the OS for the driver is validated only by this differential run against the kernel",
    "file contents are identified by a per-file sentinel; MIME type selection and the exact text of directory listings beyond the set of listed names are compared but not covered by theorems",
    "PermissionError branches cannot be provoked (the harness runs as root); they are modelled (Fail.denied) but not exercised",
    "the handler keeps no state between requests: the theorems are about one request on one OS state; that an answer depends on nothing but the tree at that moment and the request (no cache of locations, contents or misses) is tested only by the `sequence` family, and only for edits made between requests, not during one; that a request leaves nothing behind in the PROCESS (descriptors) only by the `wear` family (a few hundred requests under a lowered RLIMIT_NOFILE); that the handlers of one process (several [[locations]]) share nothing that moves a root's boundary only by the `neighbours` family (the Lean model covers the handler on `root`, the others are judged by the oracle alone)",
]
LEVEL_TEXT = (
    "partial: proved for every OS behaviour, configuration and request path over the Lean model — a 20 response carries the content "
    "of a file, or the listing of a directory, whose location was returned by resolve() and lies component-wise inside the root, index "
    "files included (static_contained, static_contained_url, index_rechecked); a non-success response has no body, its meta is one of "
    "the extracted fixed strings or an extracted prefix followed by the OS error text, and the only file read on such a branch is a "
    "read that itself failed (static_no_leak, static_reads); a regular file whose path resolves to itself is served by its literal "
    "and by every RFC 3986 percent-encoded spelling (static_complete, via pctDecode_pctEncode and utf8Dec_utf8Enc over all bytes / "
    "scalar values; static_complete_tree discharges the OS hypotheses for link-free paths of the executable tree).  Assumed, not "
    "proved: the OS contract (the value of resolve(strict=True) is fully resolved, reading through a path = reading through its "
    "resolution) — the correspondence run compares the location the model claims with os.path.realpath of the file whose sentinel "
    "was delivered, which is how the non-strict resolve() escape (57bd787) was found.  Only differentially tested: the tree port of _joinrealpath/the kernel walk, canonical_path against its Lean "
    "definition, the URL glue (GeminiRequest.from_line, GeminiServerProtocol), and that a long-lived handler answers from the tree as it is "
    "now (entries replaced by symlinks leading outside, removed, re-created, swapped between rounds of the same requests).")
LEVEL_NOTE = "theorems over an abstract OS + canonical_path model; symlink semantics of the kernel and the Python glue are tied by correspondence only"
TECHNIQUE = "Lean 4 proofs over an executable model (abstract OS, code-point model of canonical_path) + differential testing of the real StaticFileHandler on generated symlink trees x path spellings against the compiled model, with a direct sentinel oracle"


# ----------------------------------------------------------------------------------------------
# extraction of the static handler's fixed strings (written next to the Fs lemmas; rebuilt by lake)
# ----------------------------------------------------------------------------------------------
def _lean_str(s: str) -> str:
    return "[" + ", ".join(str(ord(c)) for c in s) + "]"


def extract_extra() -> None:
    src = core.REPO / "src" / "nauyaca" / "server" / "handler.py"
    tree = parse_source(src)
    cls = next(n for n in ast.walk(tree) if isinstance(n, ast.ClassDef) and n.name == "StaticFileHandler")
    handle = next(f for f in cls.body if isinstance(f, ast.FunctionDef) and f.name == "handle")
    # module-level (and class-level) string constants, so that `meta=_META_NOT_FOUND` is read as its literal
    consts = {}
    for holder in (tree, cls):
        for st in holder.body:
            if isinstance(st, (ast.Assign, ast.AnnAssign)) and isinstance(getattr(st, "value", None), ast.Constant) and isinstance(st.value.value, str):
                for tg in (st.targets if isinstance(st, ast.Assign) else [st.target]):
                    if isinstance(tg, ast.Name):
                        consts[tg.id] = st.value.value
    metas, prefixes = set(), set()
    # every response the class builds (in `handle` or in a private helper it was split into)
    # response factories: a module-level function or a method whose result is `GeminiResponse(..., meta=<its parameter>, ...)`
    factories: dict[str, tuple[int, str]] = {}
    for fn in [x for x in tree.body if isinstance(x, ast.FunctionDef)] + [x for x in cls.body if isinstance(x, ast.FunctionDef)]:
        params = [a.arg for a in fn.args.args if a.arg not in ("self", "cls")]
        for r in ast.walk(fn):
            if isinstance(r, ast.Return) and isinstance(r.value, ast.Call) and getattr(r.value.func, "id", "") == "GeminiResponse":
                for kw in r.value.keywords:
                    if kw.arg == "meta" and isinstance(kw.value, ast.Name) and kw.value.id in params:
                        factories[fn.name] = (params.index(kw.value.id), kw.value.id)

    def meta_args(n):
        name = getattr(n.func, "id", None) or (n.func.attr if isinstance(n.func, ast.Attribute) and getattr(n.func.value, "id", "") in ("self", "cls") else None)
        if name == "GeminiResponse":
            return [kw.value for kw in n.keywords if kw.arg == "meta"]
        if name in factories:
            i, pname = factories[name]
            return [kw.value for kw in n.keywords if kw.arg == pname] or ([n.args[i]] if i < len(n.args) else [])
        return []

    for n in ast.walk(cls):
        if isinstance(n, ast.Call):
            for value in meta_args(n):
                kw = ast.keyword(arg="meta", value=value)
                if isinstance(value, ast.Name) and value.id in factories.get(getattr(n.func, "id", ""), (0, ""))[1:]:
                    continue            # the factory's own pass-through of its parameter
                if isinstance(kw.value, ast.Name) and kw.value.id in consts:
                    metas.add(consts[kw.value.id])
                elif isinstance(kw.value, ast.Attribute) and kw.value.attr in consts:
                    metas.add(consts[kw.value.attr])
                elif isinstance(kw.value, ast.Constant) and isinstance(kw.value.value, str):
                    metas.add(kw.value.value)
                elif isinstance(kw.value, ast.JoinedStr):
                    parts = kw.value.values
                    # f"<literal>{str(e)}" only: a fixed prefix followed by the exception text
                    if (len(parts) == 2 and isinstance(parts[0], ast.Constant) and isinstance(parts[1], ast.FormattedValue)
                            and ast.unparse(parts[1].value) == "str(e)"):
                        prefixes.add(parts[0].value)
                    else:
                        prefixes.add("<<unrecognised f-string: " + ast.unparse(kw.value) + ">>")
    reads = [n for f in cls.body if isinstance(f, ast.FunctionDef) for n in ast.walk(f)
             if isinstance(n, ast.Call) and ((isinstance(n.func, ast.Attribute) and n.func.attr in ("read_text", "read_bytes", "open", "read"))
                                             or getattr(n.func, "id", "") == "open")]
    # the one read of file content sits in the body of a `try` (its OSError / UnicodeDecodeError are answered, not raised)
    in_try = any(isinstance(tr, ast.Try) and any(r is reads[0] for b in tr.body for r in ast.walk(b)) for tr in ast.walk(cls)) if len(reads) == 1 else False
    single = len(reads) == 1 and isinstance(reads[0].func, ast.Attribute) and reads[0].func.attr == "read_text" and in_try
    core.setup_import_path()
    from nauyaca.server.handler import StaticFileHandler

    d = tempfile.mkdtemp(prefix="nv-")
    try:
        idx = list(StaticFileHandler(d).default_indices)
    finally:
        os.rmdir(d)
    text = ("-- GENERATED by harness/props/c02.py (extract_extra) from src/nauyaca/server/handler.py on every run — do not edit\n"
            "namespace NauyacaVerif.Gen\n"
            f"def staticIndices : List (List Nat) := [{', '.join(_lean_str(s) for s in idx)}]\n"
            f"def staticMetas : List (List Nat) := [{', '.join(_lean_str(s) for s in sorted(metas))}]\n"
            f"def staticMetaPrefixes : List (List Nat) := [{', '.join(_lean_str(s) for s in sorted(prefixes))}]\n"
            f"def staticSingleRead : Bool := {'true' if single else 'false'}\n"
            "end NauyacaVerif.Gen\n")
    f = core.LEAN / "NauyacaVerif" / "Fs" / "GenStatic.lean"
    if not f.exists() or f.read_text() != text:
        f.write_text(text)


# ----------------------------------------------------------------------------------------------
# running the real handler
# ----------------------------------------------------------------------------------------------
class _Transport:
    def __init__(self):
        self.out = b""
        self.closed = False

    def write(self, b):
        if not self.closed:
            self.out += bytes(b)

    def close(self):
        self.closed = True

    def is_closing(self):
        return self.closed

    def get_extra_info(self, name, default=None):
        return ("192.0.2.1", 4711) if name == "peername" else default


_canon_response = T.canon_response


def _ask(h, built, paths, proto_sample: int = 3):
    """every request path through the real handler `h` (the first few also through the real server protocol
    around the same handler), judged against the tree `built` holds at this moment"""
    from nauyaca.protocol.request import GeminiRequest
    from nauyaca.server.protocol import GeminiServerProtocol

    res = []
    for i, sp in enumerate(paths):
        o = {}
        try:
            req = GeminiRequest.from_line("gemini://h" + sp)
        except ValueError:
            req = None
            o["r"], o["x"] = ["reject"], {"st": 59, "sent": [], "metasent": [], "mark": False, "nobody": True}
        if req is not None:
            try:
                r = h.handle(req)
                o["r"], o["x"] = _canon_response(r.status, r.meta, r.body, req.path, built)
                o["r"] = [req.path] + o["r"]
            except Exception as e:  # noqa: BLE001  (the handler raised: the protocol layer answers 40)
                o["r"], o["x"] = [req.path, "raised"], {"st": 40, "sent": T.sentinels_in(str(e)), "metasent": T.sentinels_in(str(e)),
                                                        "mark": False, "nobody": True, "exc": type(e).__name__}
        if i < proto_sample:
            # the same request through the real server protocol on a fake transport
            tr = _Transport()
            p = GeminiServerProtocol(h.handle)
            p.connection_made(tr)
            try:
                p.data_received(("gemini://h" + sp).encode("utf-8") + b"\r\n")
            except Exception as e:  # noqa: BLE001  (the protocol itself raised: nothing well-formed was sent)
                tr.out = b"00 protocol raised " + type(e).__name__.encode() + b"\r\n"
            st, meta, btxt = T.parse_wire(tr.out)
            pr, px = _canon_response(st, meta, btxt, req.path if req is not None else "/", built)
            o["p"], o["px"] = pr, px
            o["pclosed"] = tr.closed
        res.append(o)
    return res


def run_static(case, proto_sample: int = 3):
    from nauyaca.server.handler import StaticFileHandler

    with T.Built(case["tree"]) as built:
        h = StaticFileHandler(built.root, default_indices=case.get("indices"), enable_directory_listing=bool(case["listing"]),
                              max_file_size=case.get("max"))
        res = _ask(h, built, case["paths"], proto_sample)
        return {"res": res, "outside": built.outside_ids(), "indices": list(h.default_indices), "max": h.max_file_size,
                "ents": built.ents, "ents_ok": built.ents == [list(e) for e in case["tree"]]}


def run_sequence(case, proto_sample: int = 3):
    """ONE handler object over a document tree that is edited between the rounds of requests"""
    from nauyaca.server.handler import StaticFileHandler

    rounds = case["rounds"]
    with LV.Live(rounds[0]["tree"]) as built:
        h = StaticFileHandler(built.root, default_indices=case.get("indices"), enable_directory_listing=bool(case["listing"]),
                              max_file_size=case.get("max"))
        out = []
        for k, rd in enumerate(rounds):
            if k:
                built.morph(rd["tree"])
            ok = built.ents == [list(e) for e in rd["tree"]] and built.as_described()
            outside = built.outside_ids()      # judged on the disk as it is now
            res = _ask(h, built, rd["paths"], proto_sample)
            out.append({"res": res, "outside": outside, "ents": [list(e) for e in built.ents], "ents_ok": ok})
        return {"rounds": out, "indices": list(h.default_indices), "max": h.max_file_size}


# ----------------------------------------------------------------------------------------------
# names and spellings for the completeness half of the property
# ----------------------------------------------------------------------------------------------
def _esc_len(name: str) -> int:
    try:
        return len(T.quote_all(name))
    except UnicodeEncodeError:      # undecodable name: it has no spelling in a request line
        return 0


# legal names (<= 255 bytes of UTF-8) whose escaped spelling is much longer than 255 characters, names on both sides
# of "escaped length 255/256" and of "255/256 bytes" (the latter cannot be created: `settle` drops them, requests
# and link targets still use them)
LONG_NAMES = ["é" * 100, "日" * 80, "a bcd" * 40, "é" * 100 + ".gmi", "\U0001f600" * 60, "x y" * 60 + ".gmi",
              "a" * 254, "a" * 255, "a" * 256, "é" * 127, "é" * 127 + "a", "é" * 128, "日" * 85, "日" * 85 + "a",
              "a" * 249 + "é", "a" * 250 + "é", "a" * 126 + " " + "a" * 126, "a" * 127 + " " + "a" * 126, "é" * 42 + "aaa", "é" * 42 + "aaaa", "é" * 43,
              "日" * 28 + "aaa", "日" * 28 + "aaaa", "日" * 29, "%" * 85, "%" * 86, "e\u0301" * 60]
# names that themselves look like percent-escapes (a literal "%" followed by two hex digits): their RFC 3986 spelling
# writes the "%" as "%25", and whoever decodes a path twice lands on another name - the twin next to them, a dot
# segment, a slash
PCT_NAMES = ["a%41.gmi", "aA.gmi", "50%25-off.txt", "50%-off.txt", "100%2F", "100%2f", "%2e%2e", "%2E", "x%2Fy", "%25", "%2541", "%00", "%C3%A9", "é%2541"]
NAMES = T.NAMES * 3 + LONG_NAMES + PCT_NAMES * 2         # about one generated name in six is a long one, one in seven a percent name


def _own_requests(rel_inside: str):
    """[literal, fully escaped with upper-case hex, fully escaped with lower-case hex] spelling of an entry's own path
    (RFC 3986: every byte outside `unreserved` escaped); [] for a name that is not UTF-8"""
    lit, enc = T.own_spellings(rel_inside)
    if enc is None:
        return []
    return [lit, enc, re.sub("%[0-9A-F]{2}", lambda m: m.group(0).lower(), enc)]


_HEX = set("0123456789abcdefABCDEF")


def _seg_bytes(seg: str):
    """the bytes an RFC 3986 path segment stands for (None: a stray `%`, or text that is not UTF-8)"""
    out, i = bytearray(), 0
    while i < len(seg):
        c = seg[i]
        if c == "%":
            if i + 2 < len(seg) and seg[i + 1] in _HEX and seg[i + 2] in _HEX:
                out.append(int(seg[i + 1:i + 3], 16))
                i += 3
                continue
            return None
        try:
            out += c.encode("utf-8")
        except UnicodeEncodeError:
            return None
        i += 1
    return bytes(out)


def _denotes(upath: str, rel_inside: str):
    """does the URL path spell exactly the entry's own path - every segment the name itself, written literally,
    percent-encoded, or partly so (RFC 3986 §2.1/§6.2.2.2: the spellings are equivalent)?  -> None | how"""
    names = rel_inside.split("/")
    segs = upath.split("/")
    if not upath.startswith("/") or len(segs) != len(names) + 1:
        return None
    try:
        want = [n.encode("utf-8") for n in names]
    except UnicodeEncodeError:
        return None
    for s, w in zip(segs[1:], want):
        if _seg_bytes(s) != w:
            return None
    if "%" not in upath:
        return "literal"
    return "percent-encoded" if upath == "/" + "/".join(T.quote_all(n) for n in names) or upath == _own_requests(rel_inside)[2] else "partly percent-encoded"


def _plain_inside_files(ents, rootrel="root"):
    """regular files inside the root reached without any symlink (their parents are real directories); the document
    root is the directory `rootrel` of the tree ("" = the directory that holds the whole tree)"""
    return [e for e in ents if e[0] == "f" and e[1].startswith(rootrel + "/" if rootrel else "")]


def _requests(rng, tree, n, own_p=0.3):
    """request paths aimed at a tree: the general mix of `fs_tree.spellings`, plus - for every plain file with a long
    name on its path, and for a share of the others - its own path written literally and fully escaped in both hex cases"""
    paths = T.spellings(rng, tree, n)
    own = []
    for e in _plain_inside_files(tree):
        rel = e[1][len("root/"):]
        long_ = any(_esc_len(c) > 200 or len(c) > 150 for c in rel.split("/"))
        if long_ or rng.random() < own_p:
            sp = [x for x in _own_requests(rel) if len(x.encode("utf-8")) <= 1012]
            own.append(sp if long_ or rng.random() < 0.4 else sp[-1:])
    rng.shuffle(own)
    for sp in own[:5]:
        for x in sp:
            paths.insert(rng.randint(0, len(paths)), x)
    return paths


def _brief(r):
    s = repr((r[1:] if r and isinstance(r[0], str) and r[0].startswith("/") else r)[:4])      # (without the echoed request path)
    return s if len(s) <= 160 else s[:150] + "...]"


def _link_requests(rng, tree, links=None, k=4):
    """request paths aimed at the symlinks inside the root (all of them, or the given ones): the link itself, with a
    trailing slash (= "the directory it stands for"), and entries reached THROUGH it - what lies next to the root, the
    root itself seen from above, an index file"""
    out = []
    for p in (links if links is not None else [e[1] for e in tree if e[0] == "l" and e[1].startswith("root/")]):
        lit, enc = T.own_spellings(p[len("root/"):])
        if enc is None:
            continue
        out.append(lit)
        out.append(lit + "/")
        c = rng.random()
        if c < 0.5:
            out.append(lit + "/" + rng.choice(["out/", "out/secret", "root", "root/", "root-evil/", "index.gmi", "out/sub/", "out/sub", "./", "../"]))
        elif c < 0.6:
            out.append(enc + rng.choice(["", "/"]))
    out = [x for x in dict.fromkeys(out) if len(x.encode("utf-8")) <= 1012]
    if len(out) > k:
        head = out[:2] if links is not None else []        # (the first given link is always asked both ways)
        rest = [x for x in out if x not in head]
        rng.shuffle(rest)
        out = head + rest[:k - len(head)]
    return out


def _judge(paths, res, ents, outside, mx, when="", safety=True, complete=True, lvl0="handler", rootrel="root"):
    """the property, evaluated on the answers to `paths` against the tree `ents` the requests met (`rootrel`: which
    directory of the tree is the document root of the handler that answered)"""
    outside = set(outside)
    files = {e[2]: e for e in ents if e[0] == "f"}
    plain = [e for e in _plain_inside_files(ents, rootrel) if e[3] and e[4] <= mx]
    cut = len(rootrel) + 1 if rootrel else 0
    for sp, o in zip(paths, res):
        for lvl, r, x in (((lvl0, o["r"], o["x"]),) + ((("wire", o["p"], o["px"]),) if "p" in o else ())) if safety else ():
            leaked = sorted(set(x["sent"]) & outside)
            if leaked:
                return ("outside-content", f"{when}{lvl}: request {_short(sp)} -> response contains the content of file(s) {[files[i][1] for i in leaked]} whose real path lies outside the document root")
            if x["mark"] and not (x["st"] != 20 and T.MARK in urllib.parse.unquote(sp, errors="replace")):
                # (a refusal that QUOTES the request - the 59 of a line with a fragment - repeats a marker name the request itself spelled: no leak)
                return ("outside-listing", f"{when}{lvl}: request {_short(sp)} -> {x['st']}, and the response shows entries of a directory outside the document root: {_brief(r)}")
            if x["st"] == 20 and x.get("inside") is False:
                return ("success-for-outside", f"{when}{lvl}: request {_short(sp)} -> 20, but that path (canonical form {_short(T.ref_canonical(T.url_path(sp)[1]))}) "
                        f"resolves to a place that is neither the document root nor below it: {_brief(r)}")
            if x["st"] == 20 and x.get("resolves") is False:
                return ("success-for-nothing", f"{when}{lvl}: request {_short(sp)} -> 20, but that path (canonical form {_short(T.ref_canonical(T.url_path(sp)[1]))}) "
                        f"names nothing below the document root (no such entry / not a directory / loop): {r[:3]}")
            if x["st"] != 20:
                if not x["nobody"]:
                    return ("error-with-body", f"{when}{lvl}: request {_short(sp)} -> status {x['st']} with a body")
                if x["metasent"]:
                    return ("error-leaks-content", f"{when}{lvl}: request {_short(sp)} -> status {x['st']} whose meta contains file content")
            elif "unknown" in r:
                return ("unknown-success", f"{when}{lvl}: request {_short(sp)} -> 20 with a body that is neither a known file nor a listing: {r}")
        # completeness: the own path of a plain regular file, written literally, percent-encoded (every byte outside
        # `unreserved` escaped, either hex case) or partly percent-encoded
        u = T.url_path(sp)
        if u[0] != "ok" or not plain or not complete:
            continue
        for e in plain:
            how = _denotes(u[1], e[1][cut:])
            if how is None:
                continue
            want = ["20", "file", e[2]]
            if o["r"][1:4] != want:
                return ("unreachable", f"{when}regular file {_short(e[1])} (inside the root, no symlink on its path, UTF-8, {e[4]} bytes; longest name on "
                        f"the path {max(len(c.encode()) for c in e[1].split('/'))} bytes) requested by its own {how} path {_short(sp)} -> {o['r'][1:]}")
            if "p" in o and o["p"][:3] != want:
                return ("unreachable", f"{when}wire: regular file {_short(e[1])} requested by its own {how} path {_short(sp)} -> {o['p']}")
    return None


def _fold(s: str) -> str:
    """long runs of one repeated unit folded so that a message stays readable"""
    return re.sub(r"(.{1,9}?)\1{5,}", lambda g: "%s{x%d}" % (g.group(1), len(g.group(0)) // len(g.group(1))), s)


def _short(s: str) -> str:
    """repr of a path, folded when it is long"""
    r = repr(s)
    if len(r) <= 90:
        return r
    r = repr(_fold(s))
    return r if len(r) <= 140 else r[:100] + "..." + r[-30:] + f" ({len(s)} chars)"


class Static(Family):
    name = "static"
    quick_n = 3200
    thorough_n = 60000

    def gen(self, rng: random.Random, n: int):
        for i in range(n):
            small = i % 5 == 0
            tree, ups = T.gen_tree(rng, max_nodes=14 if small else 25, names=NAMES), None
            if i % 4 == 1:
                tree, ups = T.ancestor_links(rng, tree, k=rng.randint(1, 3))      # links inside the root to the directory ABOVE it
            tree = T.settle(tree)
            listing = rng.random() < (0.5 if ups is None else 0.8)
            indices = None if rng.random() < 0.8 else rng.choice([["index.gmi"], ["f.gmi", "index.gmi"], ["index.gemini", "index.gmi", "a"]])
            mx = None if rng.random() < 0.6 else 300
            paths = _requests(rng, tree, 10)
            if ups is not None or i % 3 == 0:
                have = {e[1] for e in tree}
                for x in _link_requests(rng, tree, None if ups is None else [u for u in ups if u in have], k=4 if ups is not None else 2):
                    paths.insert(rng.randint(0, len(paths)), x)
            yield {"tree": tree, "listing": int(listing), "indices": indices, "max": mx, "paths": paths}

    def setup(self):
        from nauyaca.protocol.constants import DEFAULT_MAX_FILE_SIZE, MAX_REQUEST_SIZE
        from nauyaca.server.handler import StaticFileHandler

        d = tempfile.mkdtemp(prefix="nv-")
        try:
            self.def_idx = list(StaticFileHandler(d).default_indices)
        finally:
            os.rmdir(d)
        self.def_max, self.max_req = int(DEFAULT_MAX_FILE_SIZE), int(MAX_REQUEST_SIZE)

    def impl(self, case):
        return run_static(case)

    def model(self, case):
        paths = []
        for sp in case["paths"]:
            u = T.url_path(sp)
            paths.append(T.enc_name(u[1]) if u[0] == "ok" else "!")
        idx = case.get("indices") or self.def_idx
        mx = case.get("max") or self.def_max
        ents = case["tree"]
        return "\t".join(["static", T.enc_tree(ents), T.enc_metas(ents), str(case["listing"]), "/".join(T.enc_name(i) for i in idx), str(mx)] + paths)

    def expect(self, case, out):
        assert out.startswith("ok "), out
        outs = out[3:].split(" | ")
        res = []
        for sp, o in zip(case["paths"], outs):
            u = T.url_path(sp)
            if u[0] != "ok":
                res.append(["reject"])
                continue
            r = T.parse_static_out(o)
            res.append([u[1]] + r)
        return res

    def same(self, expected, obs):
        got = [o["r"] for o in obs["res"]]
        if expected != got or not obs["ents_ok"]:
            return False
        # the sample that went through GeminiServerProtocol must show the same thing on the wire
        for e, o in zip(expected, obs["res"]):
            if "p" in o and o["p"] != _wire_of(e):
                return False
        return True

    def oracle(self, case, obs):
        return _judge(case["paths"], obs["res"], obs["ents"], obs["outside"], obs["max"])

    def key(self, case, obs):
        ks = set()
        for o in obs["res"]:
            r = o["r"]
            ks.add(r[0] if r[0] == "reject" else ":".join(str(t) for t in r[1:3]))
        links = [e for e in obs["ents"] if e[0] == "l"]
        feat = ""
        if any("out" in e[2] or "root-evil" in e[2] for e in links):
            feat += "O"                      # link leaving the root
        if any(e[2] == e[1].rsplit("/", 1)[-1] for e in links):
            feat += "C"                      # cyclic link
        if any(e[1].rsplit("/", 1)[-1] in ("index.gmi", "index.gemini") for e in links):
            feat += "I"                      # index file that is a link
        if any("/../" in e[2] and e[1].rsplit("/", 1)[-1] in e[2].split("/") for e in links):
            feat += "P"                      # link whose target passes through the link itself
        if any(T.UNDEC in e[1] for e in obs["ents"]):
            feat += "U"                      # undecodable file name
        if any(e[1] == T.MARK + "0" for e in obs["ents"]):
            feat += "A"                      # link(s) inside the root to the directory above it
        if links and not feat:
            feat = "L"
        return (feat or "-") + "|" + ",".join(sorted(ks))[:70]


class Sequence(Family):
    """ONE long-lived `StaticFileHandler` (and the real server protocol around it) while the document tree is edited:
    rounds of requests, between them an entry or a directory above it is replaced by a symlink leading outside or
    inside the root, removed, re-created as another kind, swapped with another, created.  Every answer is judged - by
    the oracle and by the Lean model, which keeps no state - against the tree as it is on disk at that moment."""
    name = "sequence"
    quick_n = 1200
    thorough_n = 24000

    setup = Static.setup

    def gen(self, rng: random.Random, n: int):
        for i in range(n):
            tree, ups = T.gen_tree(rng, max_nodes=13 if i % 3 else 20, names=NAMES if rng.random() < 0.5 else T.NAMES), []
            if i % 5 == 2:
                tree, ups = T.ancestor_links(rng, tree, k=rng.randint(1, 2))
            tree = T.settle(tree)
            ups = [u for u in ups if u in {e[1] for e in tree}]
            trees, did, touched = [tree], [[]], []
            floor = 8
            for _ in range(rng.choice([1, 1, 1, 2, 2, 3])):
                if len(trees) >= 2 and rng.random() < 0.2:
                    j = rng.randrange(len(trees) - 1)          # everything is put back the way it was
                    trees.append(trees[j])
                    did.append([f"the tree of round {j} is restored"])
                    continue
                cur, notes = trees[-1], []
                for _ in range(rng.choice([1, 1, 2, 3])):
                    floor = max([floor] + [e[2] + 1 for t in trees for e in t if e[0] == "f"] + [e[2] + 1 for e in cur if e[0] == "f"])
                    cur, tp, kind, note = LV.mutate(rng, cur, NAMES, floor)
                    touched += tp
                    notes.append(note)
                trees.append(T.settle(T.normalise(cur)))
                did.append(notes)
            # the same requests in every round: the paths of what was edited (and of what lies below it, before or
            # after), as they are and with a trailing slash, on top of the general mix
            aimed = []
            for p in dict.fromkeys(touched):
                if not p.startswith("root/"):
                    continue
                rel = p[len("root/"):]
                sp = _own_requests(rel)
                if not sp:
                    continue
                aimed.append(sp[0])
                k = rng.random()
                if k < 0.3:
                    aimed.append(sp[0] + "/")
                elif k < 0.45:
                    aimed.append(sp[rng.randint(1, 2)])
                elif k < 0.55:
                    aimed.append(sp[0] + "/" + rng.choice(["index.gmi", "..", ".", "a"]))
            aimed = [a for a in aimed if len(a.encode("utf-8")) <= 1012]
            rng.shuffle(aimed)
            common = aimed[:10] + _requests(rng, tree, 4, own_p=0.15) + (_link_requests(rng, tree, ups, k=3) if ups else [])
            rng.shuffle(common)
            rounds = []
            for k, t in enumerate(trees):
                extra = _requests(rng, t, 2, own_p=0.1) if k else []
                rounds.append({"tree": t, "did": did[k], "paths": common + extra})
            listing = rng.random() < 0.6
            indices = None if rng.random() < 0.85 else rng.choice([["index.gmi"], ["f.gmi", "index.gmi"]])
            yield {"listing": int(listing), "indices": indices, "max": None if rng.random() < 0.8 else 300, "rounds": rounds}

    def impl(self, case):
        return run_sequence(case)

    def model(self, case):
        idx = case.get("indices") or self.def_idx
        mx = case.get("max") or self.def_max
        f = ["seq", str(case["listing"]), "/".join(T.enc_name(i) for i in idx), str(mx)]
        for rd in case["rounds"]:
            f += ["T", T.enc_tree(rd["tree"]), T.enc_metas(rd["tree"])]
            for sp in rd["paths"]:
                u = T.url_path(sp)
                f.append(T.enc_name(u[1]) if u[0] == "ok" else "!")
        return "\t".join(f)

    def expect(self, case, out):
        assert out.startswith("ok "), out
        outs = out[3:].split(" | ")
        assert len(outs) == sum(len(rd["paths"]) for rd in case["rounds"]), out[:200]
        res, at = [], 0
        for rd in case["rounds"]:
            one = []
            for sp, o in zip(rd["paths"], outs[at:at + len(rd["paths"])]):
                u = T.url_path(sp)
                one.append(["reject"] if u[0] != "ok" else [u[1]] + T.parse_static_out(o))
            at += len(rd["paths"])
            res.append(one)
        return res

    def same(self, expected, obs):
        if len(expected) != len(obs["rounds"]):
            return False
        for exp, rd in zip(expected, obs["rounds"]):
            if not rd["ents_ok"] or exp != [o["r"] for o in rd["res"]]:
                return False
            for e, o in zip(exp, rd["res"]):
                if "p" in o and o["p"] != _wire_of(e):
                    return False
        return True

    def oracle(self, case, obs):
        whens = []
        for k, (rd, ob) in enumerate(zip(case["rounds"], obs["rounds"])):
            when = "" if k == 0 else f"one handler, round {k} after {_fold('; '.join(rd.get('did') or ['an edit of the tree']))[:170]} - "
            whens.append(when)
        # containment first (over all rounds), then reachability
        for part in ({"complete": False}, {"safety": False}):
            for rd, ob, when in zip(case["rounds"], obs["rounds"], whens):
                v = _judge(rd["paths"], ob["res"], ob["ents"], ob["outside"], obs["max"], when, **part)
                if v is not None:
                    return v
        return None

    def key(self, case, obs):
        kinds = set()
        for rd in case["rounds"][1:]:
            for d in rd.get("did") or []:
                kinds.add("out" if "outside the root" in d else "in" if "inside the root" in d else "restore" if "restored" in d
                          else "swap" if "change places" in d else "rm" if d.endswith("removed") else "new" if d.startswith("new ") else "re")
        # did any path change its answer between two rounds?
        moved = set()
        rs = obs["rounds"]
        for a, b in zip(rs, rs[1:]):
            for x, y in zip(a["res"], b["res"]):
                if x["r"][1:3] != y["r"][1:3]:
                    moved.add(f"{':'.join(str(t) for t in x['r'][1:3])}>{':'.join(str(t) for t in y['r'][1:3])}")
        return ",".join(sorted(kinds)) + "|" + ",".join(sorted(moved))[:60]

    def shrink(self, case, bad):
        """fewer rounds, then a single request path asked in every round"""
        cur = case
        try:
            while len(cur["rounds"]) > 2:
                for j in range(1, len(cur["rounds"]) - 1):
                    c = dict(cur, rounds=cur["rounds"][:j] + cur["rounds"][j + 1:])
                    c["rounds"][j] = dict(c["rounds"][j], did=cur["rounds"][j]["did"] + cur["rounds"][j + 1]["did"])
                    if bad(c):
                        cur = c
                        break
                else:
                    break
            seen = list(dict.fromkeys(sp for rd in cur["rounds"] for sp in rd["paths"]))
            for sp in seen[:40]:
                c = dict(cur, rounds=[dict(rd, paths=[sp]) for rd in cur["rounds"]])
                if bad(c):
                    return c
        except Exception:  # noqa: BLE001
            pass
        return cur


# ----------------------------------------------------------------------------------------------
# ONE handler that has already answered MANY requests
# ----------------------------------------------------------------------------------------------
def _open_fds():
    try:
        return sorted(int(x) for x in os.listdir("/proc/self/fd"))
    except (OSError, ValueError):
        return None


def _outcome_class(o):
    """kind of answer x what the requested path is on disk (nothing / a place outside the root / a directory / a file)"""
    r, x = o["r"], o["x"]
    if r[0] == "reject":
        return "reject"
    what = "nothing" if not x.get("resolves") else "outside" if not x.get("inside") else "dir" if x.get("dir") else "file"
    return ":".join(str(t) for t in r[1:3]) + "@" + what


def run_wear(case, proto_sample: int = 3):
    """one handler object: the requests once; then, with the process allowed only a few dozen more open files than it
    has now (RLIMIT_NOFILE, soft), one request path per KIND of answer seen is asked again and again - more often than
    there are free descriptors; then the same requests once more.  A server process lives for months: whatever a
    request leaves behind (a descriptor, a directory handle, a lock) adds up until files inside the root are no longer
    served.  The limit is restored, and descriptors the handler left open are closed, before the case returns."""
    import resource

    from nauyaca.server.handler import StaticFileHandler
    from nauyaca.protocol.request import GeminiRequest

    tree, paths = case["tree"], case["paths"]
    with T.Built(tree) as built:
        h = StaticFileHandler(built.root, default_indices=case.get("indices"), enable_directory_listing=bool(case["listing"]),
                              max_file_size=case.get("max"))
        ok = built.ents == [list(e) for e in tree]
        outside = built.outside_ids()
        first = _ask(h, built, paths, proto_sample)
        # one path per kind of answer (non-success kinds first), in the order of the request list
        kinds: dict[str, str] = {}
        for sp, o in zip(paths, first):
            c = _outcome_class(o)
            if c != "reject" and c not in kinds:
                kinds[c] = sp
        order = sorted(kinds, key=lambda c: (c.startswith("20"), list(kinds).index(c)))[:case.get("kinds", 10)]
        before = _open_fds()
        soft, hard = resource.getrlimit(resource.RLIMIT_NOFILE)
        hammer, room, limit = [], None, None
        try:
            if before is not None:
                limit = before[-1] + 1 + int(case["spare"])
                if hard != resource.RLIM_INFINITY:
                    limit = min(limit, hard)
                room = limit - len(before)
                resource.setrlimit(resource.RLIMIT_NOFILE, (limit, hard))
            times = (room if room is not None else int(case["spare"])) + int(case["more"])
            for c in order:
                sp = kinds[c]
                req = GeminiRequest.from_line("gemini://h" + sp)
                seen, rs = [], []
                for j in range(times):
                    try:
                        r = h.handle(req)
                        cr, cx = _canon_response(r.status, r.meta, r.body, req.path, built)
                        cr = [req.path] + cr
                    except Exception as e:  # noqa: BLE001
                        cr, cx = [req.path, "raised"], {"st": 40, "sent": T.sentinels_in(str(e)), "metasent": T.sentinels_in(str(e)),
                                                         "mark": False, "nobody": True, "exc": type(e).__name__}
                    if cr not in rs:
                        rs.append(cr)
                        seen.append({"r": cr, "x": cx, "at": j})
                hammer.append({"path": sp, "kind": c, "times": times, "seen": seen})
            second = _ask(h, built, paths, proto_sample)
        finally:
            resource.setrlimit(resource.RLIMIT_NOFILE, (soft, hard))
            after = _open_fds()
            left = []
            if before is not None and after is not None:
                for fd in after:
                    if fd in before:
                        continue
                    try:
                        where = os.readlink("/proc/self/fd/%d" % fd)
                    except OSError:
                        continue
                    if where.startswith(built.base):          # (only what was opened below the case's own directory)
                        left.append(where[len(built.base):])
                        try:
                            os.close(fd)
                        except OSError:
                            pass
        return {"rounds": [{"res": first, "outside": outside, "ents": [list(e) for e in built.ents], "ents_ok": ok},
                           {"res": second, "outside": outside, "ents": [list(e) for e in built.ents], "ents_ok": ok}],
                "hammer": hammer, "limit": limit, "room": room, "left_open": len(left), "left_sample": sorted(set(left))[:3],
                "indices": list(h.default_indices), "max": h.max_file_size}


class Wear(Sequence):
    """ONE long-lived `StaticFileHandler` that answers the same request hundreds of times - one request path for every
    kind of answer (file too large, not found, directory without index, link leading outside, not UTF-8, a file, a
    listing ...) - in a process that may open only a few dozen more files than it has open: afterwards every regular file
    inside the root must still be served by its own path, and nothing outside it.  The tree does not change: both rounds
    (before / after) are compared with `Fs.handle` on the same tree, and every answer in between with the first."""
    name = "wear"
    quick_n = 160
    thorough_n = 3000

    def gen(self, rng: random.Random, n: int):
        for i in range(n):
            tree = T.gen_tree(rng, max_nodes=14 if i % 2 else 20, names=NAMES if rng.random() < 0.4 else T.NAMES)
            fid = max(e[2] for e in tree if e[0] == "f") + 1
            have = {e[1] for e in tree}
            aimed = ["/zz-nothing-here", "/zz-nothing-here/"]
            # entries that give the non-success answers, whatever else the tree holds: a file over the size limit, a
            # directory without an index file, a file that is not UTF-8, links leading outside, a dangling link
            for ent, req in ((["f", "root/big.gmi", fid, True, 400 + rng.randint(0, 300)], "/big.gmi"), (["d", "root/bare"], "/bare/"),
                             (["f", "root/bare/latin1.txt", fid + 1, False, 0], "/bare/latin1.txt"),
                             (["l", "root/esc", rng.choice(["../out/secret", "/out/secret", "../root-evil/e"])], "/esc"),
                             (["l", "root/escd", rng.choice(["../out", "/out/sub", "../root-evil"])], "/escd/"),
                             (["l", "root/dangling", "nowhere"], "/dangling"),
                             (["f", "root/small.gmi", fid + 2, True, 0], "/small.gmi")):
                if ent[1] not in have and rng.random() < 0.8:
                    tree.append(ent)
                    have.add(ent[1])
                    aimed.append(req)
            tree = T.settle(T.normalise(tree))
            paths = aimed + _requests(rng, tree, 6, own_p=0.8)
            rng.shuffle(paths)
            mx = 300 if rng.random() < 0.75 else None
            yield {"tree": tree, "listing": int(rng.random() < 0.5), "indices": None if rng.random() < 0.85 else ["f.gmi", "index.gmi"], "max": mx,
                   "paths": paths, "spare": rng.choice([24, 32, 40]), "more": rng.choice([12, 24]), "kinds": 10}

    def impl(self, case):
        return run_wear(case)

    @staticmethod
    def _rounds(case, obs=None):
        did = "the requests of the first round, then"
        if obs is not None:
            did = (f"{', '.join(str(hm['times']) + ' x ' + _short(hm['path']) + ' -> ' + hm['kind'] for hm in obs['hammer'])}, "
                   f"in a process allowed {obs['room']} more open files (RLIMIT_NOFILE {obs['limit']})"
                   + (f"; the handler left {obs['left_open']} descriptor(s) open, e.g. on {obs['left_sample']}" if obs.get("left_open") else ""))
        return [{"tree": case["tree"], "paths": case["paths"], "did": []}, {"tree": case["tree"], "paths": case["paths"], "did": [did]}]

    def model(self, case):
        return Sequence.model(self, dict(case, rounds=self._rounds(case)))

    def expect(self, case, out):
        return Sequence.expect(self, dict(case, rounds=self._rounds(case)), out)

    def same(self, expected, obs):
        if not Sequence.same(self, expected, obs):
            return False
        # in between: every repetition got the answer the first request got
        return all(len(hm["seen"]) == 1 for hm in obs["hammer"])

    def oracle(self, case, obs):
        rounds = self._rounds(case, obs)
        # the answers given in between: containment (an error answer is an error answer: no content)
        for hm in obs["hammer"]:
            for s in hm["seen"]:
                v = _judge([hm["path"]], [s], obs["rounds"][0]["ents"], obs["rounds"][0]["outside"], obs["max"],
                           f"one handler, request number {s['at'] + 1} of {hm['times']} for the same path - ", complete=False)
                if v is not None:
                    return v
        total = sum(hm["times"] for hm in obs["hammer"])
        whens = ["", f"one handler that has answered {total} more requests - "]
        for part in ({"complete": False}, {"safety": False}):
            for k, (rd, ob, when) in enumerate(zip(rounds, obs["rounds"], whens)):
                v = _judge(rd["paths"], ob["res"], ob["ents"], ob["outside"], obs["max"], when, **part)
                if v is not None:
                    return (v[0], v[1] + (f" [in between: {_fold(rd['did'][0])}]" if k else ""))
        return None

    def key(self, case, obs):
        ks = sorted(hm["kind"] for hm in obs["hammer"])
        moved = sum(1 for a, b in zip(obs["rounds"][0]["res"], obs["rounds"][1]["res"]) if a["r"] != b["r"])
        return ",".join(ks)[:70] + (f"|moved{moved}" if moved else "") + (f"|left{min(obs['left_open'], 9)}" if obs.get("left_open") else "")

    def shrink(self, case, bad):
        """fewer request paths (the hammered ones are chosen among them)"""
        cur = case
        try:
            for sp in list(cur["paths"]):
                if len(cur["paths"]) <= 2:
                    break
                c = dict(cur, paths=[x for x in cur["paths"] if x != sp])
                if bad(c):
                    cur = c
        except Exception:  # noqa: BLE001
            pass
        return cur


# ----------------------------------------------------------------------------------------------
# SEVERAL handlers with different document roots in ONE process
# ----------------------------------------------------------------------------------------------
OTHER_ROOTS = ["out", "out", "out", "root-evil", "root-evil", "out/sub", ""]
CROSS_NAMES = ["peer", "shared", "mirror", "to b", "é", "index.gmi", "index.gemini", "a", "sub", "b", "q3.gmi", "日本"]


def _as_root(tree, rootrel: str):
    """the entries below the directory `rootrel` of the tree, renamed as if that directory were called `root` (only the
    PATHS matter: the result is used to aim request spellings at what a handler on that directory can be asked for)"""
    if rootrel == "root":
        return tree
    out = [["d", "root"]]
    for e in tree:
        if not rootrel:
            out.append([e[0], "root/" + e[1]] + list(e[2:]))
        elif e[1].startswith(rootrel + "/"):
            out.append([e[0], "root" + e[1][len(rootrel):]] + list(e[2:]))
    return out


def _below(path: str, rootrel: str) -> bool:
    return not rootrel or path == rootrel or path.startswith(rootrel + "/")


def _rel_to(path: str, rootrel: str) -> str:
    return path if not rootrel else path[len(rootrel) + 1:]


def run_neighbours(case):
    """several static handlers with their own document roots - directories of ONE tree - in one process, asked in turn"""
    import types

    from nauyaca.protocol.constants import DEFAULT_MAX_FILE_SIZE
    from nauyaca.server.handler import StaticFileHandler

    hds = case["handlers"]
    with T.Built(case["tree"]) as built:
        views = [T.View(built, hd["root"]) for hd in hds]
        if case.get("via") == "config":
            # the way the server makes them: one [[locations]] table each -> ServerConfig.get_location_router
            from nauyaca.server.config import ServerConfig
            from nauyaca.server.location import HandlerType, LocationConfig

            locs = []
            for k, (hd, v) in enumerate(zip(hds, views)):
                kw = {"default_indices": list(hd["indices"])} if hd.get("indices") else {}
                locs.append(LocationConfig(prefix="/~h%d/" % k, handler_type=HandlerType.STATIC, document_root=v.root,
                                           enable_directory_listing=bool(hd["listing"]), max_file_size=hd.get("max"), **kw))
            router = ServerConfig(document_root=built.root, locations=locs).get_location_router(enable_directory_listing=False)
            hs = [types.SimpleNamespace(handle=r.handler) for r in router.routes]
            maxes = [int(getattr(getattr(r.handler, "__self__", None), "max_file_size", 0) or hd.get("max") or DEFAULT_MAX_FILE_SIZE)
                     for r, hd in zip(router.routes, hds)]
        else:
            hs = [StaticFileHandler(v.root, default_indices=hd.get("indices"), enable_directory_listing=bool(hd["listing"]), max_file_size=hd.get("max"))
                  for hd, v in zip(hds, views)]
            maxes = [int(h.max_file_size) for h in hs]
        ok = built.ents == [list(e) for e in case["tree"]] and all(os.path.isdir(v.root) and not os.path.islink(v.root) for v in views)
        outside = [v.outside_ids() for v in views]
        steps = []
        for i, (k, sp) in enumerate(case["steps"]):
            o = _ask(hs[k], views[k], [sp], 1 if i % 4 == 0 else 0)[0]
            o["h"] = k
            steps.append(o)
        return {"steps": steps, "outside": outside, "max": maxes, "ents": [list(e) for e in built.ents], "ents_ok": ok}


class Neighbours(Family):
    """SEVERAL `StaticFileHandler` objects in one process - the [[locations]] of one server, or several servers - whose
    document roots are different directories of one tree: next to each other (`root`, `out`, `root-evil`), one inside
    the other (`out` / `out/sub`, `root` / a directory of it), one the directory ABOVE the others.  Symlinks lead from
    each root to files and directories of the others; the handlers are asked in turn - what a neighbour may serve from
    its root (and has just served) is, for this handler, a place outside ITS root.  Every answer is judged against the
    root of the handler that gave it; the answers of the handler on `root` are also compared with `Fs.handle`."""
    name = "neighbours"
    quick_n = 480
    thorough_n = 9000

    setup = Static.setup

    def gen(self, rng: random.Random, n: int):
        for i in range(n):
            tree = [list(e) for e in T.gen_tree(rng, max_nodes=13 if i % 3 else 19, names=NAMES if rng.random() < 0.3 else T.NAMES)]
            fid = max(e[2] for e in tree if e[0] == "f") + 1
            have = {e[1] for e in tree}

            def add(ent):
                if ent[1] not in have:
                    tree.append(ent)
                    have.add(ent[1])
                    return True
                return False

            top = [e[1] for e in tree if e[0] == "d" and e[1].startswith("root/") and e[1].count("/") == 1 and T._encodable(e[1]) and len(e[1]) < 60]
            roots = ["root"]
            for _ in range(rng.choice([1, 1, 1, 2])):
                roots.append(rng.choice(OTHER_ROOTS + top[:2]))
            if rng.random() < 0.1:
                roots.append("root")             # a second handler on the same root, with other settings
            # something of its own in every other root
            for R in dict.fromkeys(roots[1:]):
                if R == "root":
                    continue
                pre = R + "/" if R else ""
                for name in rng.sample(["doc.gmi", "notes.txt", "b", "x y", "é.gmi", "index.gmi", "f.gmi"], rng.randint(1, 3)):
                    if add(["f", pre + name, fid, True, 0]):
                        fid += 1
                if rng.random() < 0.6:
                    d = pre + rng.choice(["reports", "sub", "a", "members"])
                    add(["d", d])
                    for name in rng.sample(["q3.gmi", "index.gmi", "b", "t.txt"], rng.randint(1, 2)):
                        if add(["f", d + "/" + name, fid, True, 0]):
                            fid += 1
            # links from every root to files / directories of the others
            cross = []
            for k, Rk in enumerate(roots):
                for j, Rj in enumerate(roots):
                    if j == k or Rj == Rk:
                        continue
                    for _ in range(rng.choice([0, 1, 1, 2])):
                        cands = [e for e in tree if e[0] in ("f", "d") and _below(e[1], Rj) and T._encodable(e[1])]
                        away = [e for e in cands if not _below(e[1], Rk)]          # for the handler k: outside
                        if away and rng.random() < 0.85:
                            cands = away
                        if not cands:
                            continue
                        tgt = rng.choice(cands)
                        if tgt[0] == "f" and rng.random() < 0.25:
                            tgt = ["d", tgt[1].rsplit("/", 1)[0]] if "/" in tgt[1] else tgt      # the directory that holds it
                        homes = [e[1] for e in tree if e[0] == "d" and _below(e[1], Rk) and e[1].count("/") < 3 and T._encodable(e[1])]
                        home = Rk if rng.random() < 0.6 or not homes else rng.choice(homes)
                        if not _below(home, Rk) or (home and home not in have and home != Rk):
                            home = Rk
                        name = rng.choice(CROSS_NAMES)
                        link = (home + "/" if home else "") + name
                        if link in have:
                            continue
                        depth = home.count("/") + 1 if home else 0
                        text = ("/" + tgt[1]) if rng.random() < 0.35 or depth == 0 else "../" * depth + tgt[1]
                        add(["l", link, text])
                        cross.append([k, link, j, tgt[0], tgt[1]])
            tree = T.settle(T.normalise(tree))
            have = {e[1]: e for e in tree}
            # handlers whose root did not come into being are dropped (a name the file system refused)
            keep = [k for k, R in enumerate(roots) if R == "" or (R in have and have[R][0] == "d")]
            if len(keep) < 2:
                continue
            renum = {k: m for m, k in enumerate(keep)}
            roots = [roots[k] for k in keep]
            cross = [[renum[c[0]], c[1], renum[c[2]]] + c[3:] for c in cross if c[0] in renum and c[2] in renum and c[1] in have and c[4] in have]
            general = {k: [] for k in range(len(roots))}
            aimed = {k: [] for k in range(len(roots))}
            for k, R in enumerate(roots):
                view = _as_root(tree, R)
                general[k] = _requests(rng, view, 4, own_p=0.5) + _link_requests(rng, view, k=2)
            for k, link, j, kind, tgt in cross:
                lit, enc = T.own_spellings(_rel_to(link, roots[k]))
                kids = [e[1].rsplit("/", 1)[-1] for e in tree if e[1].startswith(tgt + "/") and e[1].count("/") == tgt.count("/") + 1 and T._encodable(e[1])] if kind == "d" else []
                aimed[k] += [lit, lit + "/"] + ([lit + "/" + rng.choice(kids)] if kids else []) + ([enc] if enc and rng.random() < 0.2 else [])
                # what the neighbour is legitimately asked for: the target by its own path, what lies next to it, its directory
                own = _rel_to(tgt, roots[j]) if tgt != roots[j] else ""
                olit = T.own_spellings(own)[0]
                if kind == "f":
                    aimed[j] += [olit] + ([olit.rsplit("/", 1)[0] + "/"] if rng.random() < 0.3 else [])
                else:
                    aimed[j] += [olit.rstrip("/") + "/"] + [olit.rstrip("/") + "/" + x for x in rng.sample(kids, min(len(kids), 2))]
            for k in aimed:
                aimed[k] = [a for a in dict.fromkeys(aimed[k]) if len(a.encode("utf-8")) <= 1012]
            steps = [[k, sp] for k in general for sp in general[k] + aimed[k]]
            rng.shuffle(steps)
            for _ in range(rng.choice([1, 1, 2])):
                again = [[k, sp] for k in aimed for sp in aimed[k]] + [[k, sp] for k in general for sp in rng.sample(general[k], min(2, len(general[k])))]
                rng.shuffle(again)
                steps += again
            handlers = [{"root": R, "listing": int(rng.random() < 0.6), "indices": None if rng.random() < 0.88 else rng.choice([["index.gmi"], ["f.gmi", "index.gmi"]]),
                         "max": None if rng.random() < 0.85 else 300} for R in roots]
            yield {"tree": tree, "via": "config" if rng.random() < 0.3 else "objects", "handlers": handlers, "steps": steps[:70],
                   "cross": [f"{c[1]} (root {c[0]}) -> {c[4]} (root {c[2]})" for c in cross]}

    def impl(self, case):
        return run_neighbours(case)

    def model(self, case):
        hd = case["handlers"][0]
        mine = [sp for k, sp in case["steps"] if k == 0]
        if hd["root"] != "root" or not mine:
            return None
        idx = hd.get("indices") or self.def_idx
        f = ["seq", str(hd["listing"]), "/".join(T.enc_name(i) for i in idx), str(hd.get("max") or self.def_max),
             "T", T.enc_tree(case["tree"]), T.enc_metas(case["tree"])]
        for sp in mine:
            u = T.url_path(sp)
            f.append(T.enc_name(u[1]) if u[0] == "ok" else "!")
        return "\t".join(f)

    def expect(self, case, out):
        assert out.startswith("ok "), out
        outs = out[3:].split(" | ")
        mine = [sp for k, sp in case["steps"] if k == 0]
        assert len(outs) == len(mine), out[:200]
        res = []
        for sp, o in zip(mine, outs):
            u = T.url_path(sp)
            res.append(["reject"] if u[0] != "ok" else [u[1]] + T.parse_static_out(o))
        return res

    def same(self, expected, obs):
        got = [o for o in obs["steps"] if o["h"] == 0]
        if not obs["ents_ok"] or len(expected) != len(got):
            return False
        for e, o in zip(expected, got):
            if o["r"] != e or ("p" in o and o["p"] != _wire_of(e)):
                return False
        return True

    @staticmethod
    def _on(R):
        return "<base>/" + R if R else "<base>"

    def oracle(self, case, obs):
        if not obs["ents_ok"]:
            return None                  # the tree is not the one described (a harness matter)
        hds = case["handlers"]
        for part in ({"complete": False}, {"safety": False}):
            for i, ((k, sp), o) in enumerate(zip(case["steps"], obs["steps"])):
                R = hds[k]["root"]
                v = _judge([sp], [o], obs["ents"], obs["outside"][k], obs["max"][k], rootrel=R, **part)
                if v is None:
                    continue
                served = [f"the one on {self._on(hds[k2]['root'])} served {_short(sp2)}" for (k2, sp2), o2 in zip(case["steps"][:i], obs["steps"][:i])
                          if k2 != k and o2["x"]["st"] == 20]
                when = (f"static handlers on {' + '.join(self._on(h['root']) for h in hds)} in one process ({'[[locations]]' if case.get('via') == 'config' else 'objects'})"
                        + (f"; after {served[-1]}" if served else "") + f" - request {i + 1}, to the one on {self._on(R)}, ")
                return (v[0], when + v[1])
        return None

    def key(self, case, obs):
        roots = "+".join(h["root"] or "." for h in case["handlers"])
        # what became of the requests for the links that lead into a neighbour's root
        links = {(c.split(" (root ")[0], int(c.split(" (root ")[1].split(")")[0])) for c in case.get("cross", [])}
        ks = set()
        for (k, sp), o in zip(case["steps"], obs["steps"]):
            R = case["handlers"][k]["root"]
            if any(k == lk and (sp.rstrip("/") == "/" + _rel_to(lp, R)) for lp, lk in links):
                ks.add(_outcome_class(o))
        return f"{case.get('via', 'objects')[0]}|{roots}|" + ",".join(sorted(ks))[:60]

    def shrink(self, case, bad):
        """fewer requests"""
        cur = case
        try:
            for j in range(len(cur["steps"]) - 1, -1, -1):
                if len(cur["steps"]) <= 1:
                    break
                c = dict(cur, steps=cur["steps"][:j] + cur["steps"][j + 1:])
                if bad(c):
                    cur = c
        except Exception:  # noqa: BLE001
            pass
        return cur


# ----------------------------------------------------------------------------------------------
# static serving as the SERVER is wired: `nauyaca serve` -> configuration -> locations / router -> protocol
# ----------------------------------------------------------------------------------------------
LINK_NAMES = ["current", "cur", "live", "www"]


def _toml_str(s: str) -> str:
    import json

    return json.dumps(s, ensure_ascii=False)


def _tomlable(s: str) -> bool:
    return T._encodable(s) and not any(ord(c) < 0x20 or ord(c) == 0x7F for c in s)


def _root_spelling(rng: random.Random, tree):
    """one way an operator may WRITE the document root `root` (relative to the directory above it): the plain name,
    with `.` / `..` through real directories, through a symlink to it, or - the layout of deployments that switch a
    `current` link - `<link>/../root` where the link leads to a directory whose parent holds the root.  For the kernel
    every spelling names the same directory; the text with `..` cancelled LEXICALLY names another place, where (mostly)
    a decoy directory with files of its own is put.  -> (entries to add, spelling)"""
    fid = max([e[2] for e in tree if e[0] == "f"] + [7]) + 1
    have = {e[1] for e in tree}
    inside = [e[1] for e in tree if e[0] == "d" and e[1].startswith("root/") and e[1].count("/") == 1 and _tomlable(e[1])]
    k = rng.random()
    if k < 0.30:
        pool = ["root", "root", "root/", "./root", "root/.", "out/../root", "root-evil/../root", "out/sub/../../root", "out/./../root/"]
        pool += [d + "/.." for d in inside[:3]]
        return [], rng.choice(pool)
    holder = rng.choice(["out", "out/sub", "root-evil", "out", "out/sub"])
    name = rng.choice([n for n in LINK_NAMES if holder + "/" + n not in have] or ["current"])
    link = holder + "/" + name
    up = "../" * (holder.count("/") + 1)
    tk = rng.random()
    if tk < 0.2:
        tgt, depth = rng.choice([up + "root", "/root"]), 0           # straight to the root
    elif tk < 0.75:
        x = rng.choice(["out", "root-evil", "root"])                  # to a directory next to the root (or the root)
        tgt, depth = rng.choice([up + x, "/" + x]), 1
    else:
        x = rng.choice(["out/sub"] + inside)                         # one level deeper
        tgt, depth = rng.choice([up + x, "/" + x]), 2
    sp = link if depth == 0 else link + "/.." * depth + "/root"
    if depth == 0 and rng.random() < 0.3:
        sp = link + "/" + rng.choice([".", "../" + name, ""])
    extra = [["l", link, tgt]]
    import posixpath

    lex = posixpath.normpath(sp)                                     # where the spelling points once ".." is cancelled as text
    if lex != "root" and lex not in have and posixpath.dirname(lex) in have | {""} and rng.random() < 0.75:
        extra.append(["d", lex])
        extra.append(["f", lex + "/" + T.MARK + "9", fid, True, 0])
        fid += 1
        names = [e[1].split("/", 1)[1] for e in tree if e[0] == "f" and e[1].startswith("root/") and e[1].count("/") == 1]
        for n in rng.sample(names, min(len(names), 2)) + rng.sample(["index.gmi", "secret.gmi"], rng.randint(0, 2)):
            if lex + "/" + n not in {x[1] for x in extra}:
                extra.append(["f", lex + "/" + n, fid, True, 0])
                fid += 1
    return extra, sp


def run_served(case):
    """the real `nauyaca serve` (no port bound): every request line through the protocol factory the server listens with"""
    import shutil

    from ..sim import fs_serve as SV

    with T.Built(case["tree"]) as built:
        sp = case["rootsp"]
        written = sp if case["rel"] else built.base + "/" + sp
        full = os.path.join(built.base, sp)
        root_ok = os.path.isdir(full) and os.path.realpath(full) == os.path.realpath(built.root)
        cfgdir = tempfile.mkdtemp(prefix="nv-cfg-")
        try:
            argv, lines = [], []
            how = case["how"]
            loc_listing = how == "location" and case["listing"] and case["listing_by"] == "loc"
            if how == "arg":
                argv.append(written)
            else:
                other = built.base + "/" + case["server_root"] if how == "location" else written
                lines += ["[server]", f"document_root = {_toml_str(other)}"]
                if case["max"] and case["max_by"] == "server":
                    lines.append(f"max_file_size = {case['max']}")
                if not case["ratelimit"]:
                    lines += ["", "[rate_limit]", "enabled = false"]
                if how == "location":
                    for pre in case["prefixes"]:
                        lines += ["", "[[locations]]", f"prefix = {_toml_str(pre)}", 'handler = "static"', f"document_root = {_toml_str(written)}"]
                        if loc_listing:
                            lines.append("enable_directory_listing = true")
                        if case["indices"]:
                            lines.append("default_indices = [" + ", ".join(_toml_str(i) for i in case["indices"]) + "]")
                        if case["max"] and case["max_by"] == "loc":
                            lines.append(f"max_file_size = {case['max']}")
                cfg = os.path.join(cfgdir, "server.toml")
                with open(cfg, "w", encoding="utf-8") as f:
                    f.write("\n".join(lines) + "\n")
                argv += ["--config", cfg]
            if case["listing"] and not loc_listing:
                argv.append("--enable-directory-listing")
            if case["max"] and case["max_by"] == "cli":
                argv += ["--max-file-size", str(case["max"])]

            async def probe(factory):
                from nauyaca.protocol.request import GeminiRequest

                res = []
                for i, p in enumerate(case["paths"]):
                    out, closed = await SV.plain_request(factory, ("gemini://h" + p).encode("utf-8") + b"\r\n", peer=("192.0.2.%d" % (1 + i % 250), 4000 + i))
                    try:
                        rp = GeminiRequest.from_line("gemini://h" + p).path
                    except ValueError:
                        rp = None
                    st, meta, btxt = T.parse_wire(out)
                    r, x = _canon_response(st, meta, btxt, rp if rp is not None else "/", built)
                    res.append({"r": (["reject"] if rp is None and r == ["59"] else [rp] + r), "x": x, "closed": closed})
                return res

            ran = SV.run_serve(argv, probe, cwd=built.base if case["rel"] else None)
        finally:
            shutil.rmtree(cfgdir, ignore_errors=True)
        return {"started": ran["started"], "exit": ran["exit"], "said": " ".join((ran["output"] or "").replace(built.base, "<base>").split())[-300:] if not ran["started"] else "",
                "res": ran["value"] or [], "root_ok": root_ok, "outside": built.outside_ids(), "max": case["max"] or 0,
                "ents": built.ents, "ents_ok": built.ents == [list(e) for e in case["tree"]]}


class Served(Family):
    """the static handler where the server puts it: the real `nauyaca serve` command builds configuration, locations,
    router, middleware and protocol factory (only `loop.create_server` is stubbed); the document root is WRITTEN the
    ways an operator writes it (CLI argument, `[server] document_root`, a `[[locations]]` table; absolute or relative
    to the working directory; plainly, with `.`/`..`, through symlinks, `<link>/../root`) and every request goes down
    the wire path: request line -> protocol -> middleware -> Router.route -> handler.  The property is judged against
    the directory the written root IS for the operating system."""
    name = "served"
    quick_n = 800
    thorough_n = 20000

    def setup(self):
        Static.setup(self)

    def gen(self, rng: random.Random, n: int):
        # (the command-line --max-file-size is not handed to [[locations]] handlers - only the table's own or the
        # [server] max_file_size count there - so it is generated for the other two routes only)
        for i in range(n):
            tree, ups = T.gen_tree(rng, max_nodes=14 if i % 3 == 0 else 22, names=NAMES), []
            if i % 4 == 1:
                tree, ups = T.ancestor_links(rng, tree, k=rng.randint(1, 2))
            extra, sp = _root_spelling(rng, tree)
            with T.Built(T.normalise(tree + extra)) as b:      # (what `settle` does) + the spelling must name the root for the kernel
                tree = b.ents
                full = os.path.join(b.base, sp)
                if not (os.path.isdir(full) and os.path.realpath(full) == os.path.realpath(b.root)):
                    sp = "root"
            how = rng.choice(["arg", "server", "location", "location"])
            prefixes = ["/"]
            if how == "location" and rng.random() < 0.4:
                firsts = sorted({"/" + e[1].split("/")[1] for e in tree if e[1].startswith("root/") and _tomlable(e[1])})
                prefixes = [rng.choice(firsts + ["/a", "/sub/"]) + rng.choice(["", "/"]) for _ in range(rng.randint(1, 2))] + ["/"]
            mx = None if rng.random() < 0.7 else 300
            yield {"tree": tree, "rootsp": sp, "rel": int(rng.random() < 0.35), "how": how, "prefixes": prefixes,
                   "server_root": rng.choice(["root-evil", "out", "out/sub", "root"]),
                   "listing": int(rng.random() < 0.5), "listing_by": rng.choice(["cli", "loc"]),
                   "indices": None if how != "location" or rng.random() < 0.8 else rng.choice([["index.gmi"], ["f.gmi", "index.gmi"]]),
                   "max": mx, "max_by": rng.choice(["loc", "server"] if how == "location" else ["server", "cli"] if how == "server" else ["cli"]),
                   "ratelimit": int(how == "arg" or rng.random() < 0.3),
                   "paths": _requests(rng, tree, 8, own_p=0.6) + (_link_requests(rng, tree, [u for u in ups if u in {e[1] for e in tree}], k=3) if ups else [])}

    def impl(self, case):
        return run_served(case)

    model = Static.model
    expect = Static.expect

    def same(self, expected, obs):
        if not obs["started"] or not obs["ents_ok"] or not obs["root_ok"] or len(expected) != len(obs["res"]):
            return False
        return all(o["r"] == ["reject"] if e == ["reject"] else o["r"] == e[:1] + _wire_of(e) for e, o in zip(expected, obs["res"]))

    def _where(self, case):
        via = {"arg": "as the argument of `nauyaca serve`", "server": "as [server] document_root", "location": f"in [[locations]] (prefixes {case['prefixes']})"}[case["how"]]
        return (f"document root written {(('' if case['rel'] else '<base>/') + case['rootsp'])!r} {'(relative to the working directory <base>) ' if case['rel'] else ''}"
                f"{via}, which is the directory <base>/root")

    def oracle(self, case, obs):
        if not obs["root_ok"] or not obs["ents_ok"]:
            return None                  # the tree is not the one described (a harness matter, shows up as a disagreement)
        if not obs["started"]:
            return ("root-refused", f"{self._where(case)} (it exists): the server does not start (exit {obs['exit']}: {obs['said']!r}), so no file inside the root is served")
        return _judge(case["paths"], obs["res"], obs["ents"], obs["outside"], obs["max"] or self.def_max, when=self._where(case) + " - ", lvl0="wire")

    def key(self, case, obs):
        sp = case["rootsp"]
        shape = ("link" if any(e[0] == "l" and sp.startswith(e[1]) for e in case["tree"]) else "plain") + ("+dotdot" if ".." in sp else "")
        import posixpath

        decoy = "+decoy" if ".." in sp and posixpath.normpath(sp) != "root" and any(e[1] == posixpath.normpath(sp) for e in case["tree"]) else ""
        ks = sorted({"reject" if o["r"][0] == "reject" else ":".join(str(t) for t in o["r"][1:3]) for o in obs["res"]})
        return f"{case['how']}{'/rel' if case['rel'] else ''}|{shape}{decoy}|" + ("NOSTART" if not obs["started"] else ",".join(ks)[:50])

    def shrink(self, case, bad):
        try:
            for p in case["paths"]:
                c = dict(case, paths=[p])
                if bad(c):
                    return c
        except Exception:  # noqa: BLE001
            pass
        return case


def _wire_of(e):
    """what the protocol layer must put on the wire for a handler-level expectation"""
    return T.wire_of(e if e == ["reject"] else e[1:])


class CanonFam(Family):
    """`canonical_path` against `Fs.Canon.canonSegs` (also covers the UTF-8 `errors="replace"` decoder)"""
    name = "canon"
    quick_n = 20000
    thorough_n = 400000

    ALPH = ["/", "/", "/", ".", ".", "%", "%2", "%2e", "%2E", "%2f", "%25", "%00", "%c3", "%a9", "%e2", "%82", "%ac", "%f0", "%9f", "%98", "%80",
            "%ff", "%fe", "%ed", "%a0", "%c0", "%af", "%e0", "%f4", "%90", "%41", "a", "b", "é", "日", "\U0001f600", "\\", ";", " ", "\x00", "\x7f",
            "%g1", "%1g", "%%", "A", "~", "+", "�", "e", "2", "%E2%82%AC", "%zz",
            # text that is not in normalisation form C / KC: canonical_path must not rewrite names
            "e\u0301", "\u0301", "%CC%81", "u\u0308", "\u1100\u1161", "\u2126", "%E2%84%A6", "\u212b", "\ufb01", "\u00e9", "\u0307\u0323"]

    def gen(self, rng, n):
        for s in self.share(["", "/", "//", "/.", "/..", "/a/..", "/a/../", "/a/./b/../c", "//app/%2e%2e/x/", "/%2e%2e/%2e%2e/etc", "/a%2fb/../c", "/%252e%252e/x",
                  "/a/b/..", "/a/b/.", "/a/b/", "a", "a/b", "..", "%", "/%E2%82", "/%E2%82%C2%AC", "/%F0%80%80", "/%C3©", "/%ED%A0%80", "/%F4%90%80%80",
                  "/e\u0301", "/e%CC%81/x", "/\u2126", "/%E2%84%AB", "/\u1100\u1161/", "/\ufb01le", "/a\u0307\u0323"]):
            yield {"p": s}
        for _ in range(n):
            yield {"p": "".join(rng.choice(self.ALPH) for _ in range(rng.randint(0, 12)))}

    def impl(self, case):
        try:
            from nauyaca.utils.url import canonical_path
        except ImportError:
            return "<no canonical_path in nauyaca.utils.url>"
        return canonical_path(case["p"])

    def model(self, case):
        return "canon " + core.cps(case["p"])

    def expect(self, case, out):
        assert out.startswith("ok "), out
        return core.uncps(out.split(" ")[1])

    def oracle(self, case, obs):
        # what every user of canonical_path relies on: absolute, no empty / dot segments, idempotent on its own output
        # unless that output contains a percent sign
        if obs.startswith("<no canonical_path"):
            return None      # the function does not exist in this tree (a disagreement, not a failing input)
        segs = obs.split("/")[1:]
        if not obs.startswith("/") or any(s in (".", "..") for s in segs) or any(s == "" for s in segs[:-1]):
            return ("canonical-form", f"canonical_path({case['p']!r}) = {obs!r} is not canonical")
        return None

    def key(self, case, obs):
        return f"segs={min(obs.count('/'), 5)}:{'repl' if '�' in obs else ''}:{'slash' if obs.endswith('/') and obs != '/' else ''}"


class Realpath(Family):
    """the tree port of `posixpath._joinrealpath` and the kernel-style walk against the real kernel"""
    name = "realpath"
    quick_n = 1500
    thorough_n = 30000

    NAMES = ["a", "b", "c", "d", "x y", "ü", "root", "root-evil"]

    def gen(self, rng, n):
        N = self.NAMES
        made = 0
        while made < n:
            ents, dirs = [], [""]
            for _ in range(rng.randint(3, 12)):
                parent, name = rng.choice(dirs), rng.choice(N)
                p = (parent + "/" + name).lstrip("/")
                if any(e[1] == p for e in ents):
                    continue
                k = rng.random()
                depth = p.count("/")
                if k < 0.35:
                    ents.append(["d", p])
                    dirs.append(p)
                elif k < 0.65:
                    ents.append(["f", p, len(ents) + 1, True, 0])
                else:
                    tk = rng.random()
                    if tk < 0.3:
                        tgt = rng.choice(N)
                    elif tk < 0.5:
                        tgt = "../" * rng.randint(0, depth) + rng.choice(N)
                    elif tk < 0.7:
                        tgt = "/" + rng.choice([d for d in dirs if d] + [e[1] for e in ents] + ["a"])
                    elif tk < 0.8:
                        tgt = name
                    elif tk < 0.9:
                        tgt = "./" + rng.choice(N) + "/../" + rng.choice(N) if depth >= 1 else rng.choice(N)
                    else:
                        tgt = "nonexistent/" + rng.choice(N)
                    ents.append(["l", p, tgt])
            tree = T.settle(T.normalise(ents))
            leaf = [e[1].split("/")[-1] for e in tree] or ["a"]
            for _ in range(6):
                rand = "/".join(rng.choice(N[:3] + [".", ""] + leaf * 3 + ([".."] if rng.random() < 0.5 else [])) for _ in range(rng.randint(1, 4)))
                if tree and rng.random() < 0.6:      # start from something that exists
                    path = rng.choice(tree)[1] + rng.choice(["", "", "/", "/" + rand, "/./", "/../" + rng.choice(leaf)])
                else:
                    path = rand
                yield {"tree": tree, "path": path}
                made += 1

    def impl(self, case):
        import stat as S

        with T.Built(case["tree"]) as b:
            p = case["path"]
            rp = os.path.realpath(b.base + "/" + p)
            if not (rp == b.base or rp.startswith(b.base + "/")):
                return {"r": None, "ents_ok": True}      # climbs above the base: outside the model ("/" clamps "..")
            rel = rp[len(b.base) + 1:]
            try:
                st = os.stat(rp)
                srp = os.path.realpath(rp)[len(b.base) + 1:]
                if S.S_ISDIR(st.st_mode):
                    kind = "dir@" + srp
                else:
                    with open(rp, errors="replace") as f:
                        kind = "file%s@%s" % (T.sentinels_in(f.read())[0], srp)
            except OSError:
                kind = "none"
            return {"r": [rel, kind], "ents_ok": b.ents == [list(e) for e in case["tree"]]}

    def model(self, case):
        return "\t".join(["tree", T.enc_tree(case["tree"]), T.enc_path(case["path"])])

    def expect(self, case, out):
        import posixpath

        assert out.startswith("ok "), out
        f = out[3:].split(" ")
        mp = posixpath.normpath("/" + T.dec_path(f[0]))[1:]
        mk = f[2]
        if mk != "none":
            k, _, loc = mk.partition("@")
            mk = k + "@" + T.dec_path(loc)
        return [mp, mk, f[1] == "true"]

    def same(self, expected, obs):
        if not obs["ents_ok"]:
            return False
        if obs["r"] is None:
            return True
        mp, mk, ok = expected
        # on a symlink loop realpath() hands back a lexically normalised remainder: only that path is compared
        return obs["r"][0] == mp and (not ok or obs["r"][1] == mk)

    def key(self, case, obs):
        return "skip" if obs["r"] is None else obs["r"][1].split("@")[0][:4] + (":links" if any(e[0] == "l" for e in case["tree"]) else "")


FAMILIES = [Static(), Sequence(), Wear(), Neighbours(), Served(), CanonFam(), Realpath()]
