namespace Misc

/-! ## M-Tofu / M-Session: trust-on-first-use over arbitrary histories (C03), and the ordered effect
    trace of one connection ("nothing is sent before verification", C11).

Mirrors `GeminiClient._get_single` / `upload` (client/session.py) and `TOFUDatabase.verify / trust /
revoke / revoke_by_hostname / clear / import_toml` (security/tofu.py).  Parameters (not modelled):
SHA-256 and X.509 parsing (a presented certificate is either `cert fp`, i.e. it parses and hashes to
`fp`, or `unreadable`), the TLS handshake itself, SQLite (the store is an association list). -/
abbrev Key := Nat × Nat          -- (host id, port)
abbrev Fp := Nat
abbrev Pins := List (Key × Fp)

def Pins.get (s : Pins) (k : Key) : Option Fp := (s.find? (·.1 == k)).map (·.2)
def Pins.set (s : Pins) (k : Key) (f : Fp) : Pins := (k, f) :: s.filter (·.1 != k)
def Pins.del (s : Pins) (k : Key) : Pins := s.filter (·.1 != k)

inductive Presented where
  | cert (fp : Fp)
  | unreadable                 -- handshake completed, but the certificate cannot be read / parsed
deriving Repr, DecidableEq

inductive Outcome where
  | accepted (response : Nat)
  | changed (old new : Fp)
  | refused
deriving Repr, DecidableEq

/-- what happens on one connection and in which order -/
inductive Act where
  | connect (k : Key)                 -- TCP + TLS handshake completed (`create_connection` returned)
  | verify (k : Key) (ok : Bool)      -- `tofu_db.verify`: `ok` = matches the pin or first use
  | trust (k : Key) (f : Fp)          -- `tofu_db.trust` on first use
  | send (k : Key) (chunk : Nat)      -- one `transport.write` of `send_request`
  | await                             -- waiting for the response future
  | close                             -- `transport.close()` in the `finally`
deriving Repr, DecidableEq

def sends (k : Key) (payload : List Nat) : List Act := payload.map (Act.send k)

/-- one connection attempt with TOFU on: (pins', outcome, actions).
    `payload` = the writes of `send_request` (one for Gemini, request line + content for Titan). -/
def connect (s : Pins) (k : Key) (p : Presented) (payload : List Nat) (response : Nat) : Pins × Outcome × List Act :=
  match p with
  | .unreadable => (s, .refused, [.connect k, .close])
  | .cert fp =>
    match s.get k with
    | none => (s.set k fp, .accepted response, [.connect k, .verify k true, .trust k fp] ++ (sends k payload ++ [.await, .close]))
    | some old =>
      if old = fp then (s, .accepted response, [.connect k, .verify k true] ++ (sends k payload ++ [.await, .close]))
      else (s, .changed old fp, [.connect k, .verify k false, .close])

/-- the same connection with TOFU disabled (`trust_on_first_use=False`, the proxy's mode):
    the request is written in `connection_made`, the store is neither read nor written -/
def connectOff (s : Pins) (k : Key) (_p : Presented) (payload : List Nat) (response : Nat) : Pins × Outcome × List Act :=
  (s, .accepted response, [.connect k] ++ (sends k payload ++ [.await, .close]))

/-- the pin store fails while the pin is looked up or written (`sqlite3.OperationalError`: locked database,
    read-only medium, I/O error): verification cannot be completed, the exception leaves `_get_single` /
    `upload` before `send_request`, the `finally` closes the transport -/
def connectStoreFault (s : Pins) (k : Key) : Pins × Outcome × List Act := (s, .refused, [.connect k, .close])

theorem get_set_self (s : Pins) (k : Key) (f : Fp) : (s.set k f).get k = some f := by
  simp [Pins.set, Pins.get]

/-- filtering with a predicate that keeps every row of `k` does not change the pin of `k` -/
theorem get_filter_keep (s : Pins) (k : Key) (f : Key × Fp → Bool) (h : ∀ e : Key × Fp, e.1 = k → f e = true) :
    Pins.get (s.filter f) k = s.get k := by
  induction s with
  | nil => rfl
  | cons p ps ih =>
    simp only [Pins.get] at ih ⊢
    by_cases hk : p.1 = k
    · have hf : f p = true := h p hk
      have hb : (p.1 == k) = true := by simp [hk]
      simp only [List.filter_cons, hf, ↓reduceIte, List.find?_cons, hb]
    · have hb : (p.1 == k) = false := by simpa [beq_eq_false_iff_ne] using hk
      cases hf : f p
      · simp only [List.filter_cons, hf, Bool.false_eq_true, ↓reduceIte, List.find?_cons, hb]; exact ih
      · simp only [List.filter_cons, hf, ↓reduceIte, List.find?_cons, hb]; exact ih

theorem get_filter_ne (s : Pins) (k k' : Key) (h : k ≠ k') : Pins.get (s.filter (·.1 != k)) k' = s.get k' := by
  apply get_filter_keep
  intro e he
  have : e.1 ≠ k := by rw [he]; exact fun hh => h hh.symm
  simpa using this

theorem get_set_other (s : Pins) (k k' : Key) (f : Fp) (h : k ≠ k') : (s.set k f).get k' = s.get k' := by
  have hne : (k == k') = false := by simpa [beq_eq_false_iff_ne] using h
  simp only [Pins.set, Pins.get, List.find?_cons, hne]
  exact get_filter_ne s k k' h

theorem get_del_other (s : Pins) (k k' : Key) (h : k ≠ k') : (s.del k).get k' = s.get k' :=
  get_filter_ne s k k' h

/-- C03: a connection is accepted exactly when the presented certificate is the pin, or there is no
    pin yet -/
theorem connect_accept_iff (s : Pins) (k : Key) (p : Presented) (pl : List Nat) (r : Nat) :
    (∃ x, (connect s k p pl r).2.1 = .accepted x) ↔
      ∃ fp, p = .cert fp ∧ (s.get k = some fp ∨ s.get k = none) := by
  unfold connect
  cases p with
  | unreadable => simp
  | cert fp =>
    cases hg : s.get k with
    | none => simp
    | some old =>
      simp only
      by_cases he : old = fp
      · subst he; simp
      · simp only [he, ↓reduceIte]
        constructor
        · rintro ⟨x, hx⟩; simp at hx
        · rintro ⟨f, hf, h | h⟩
          · injection hf with hf; subst hf; simp at h; exact absurd h he
          · simp at h

/-- C03: first use pins exactly what was presented -/
theorem connect_first_use (s : Pins) (k : Key) (fp : Fp) (pl : List Nat) (r : Nat) (h : s.get k = none) :
    (connect s k (.cert fp) pl r).2.1 = .accepted r ∧ (connect s k (.cert fp) pl r).1.get k = some fp := by
  constructor
  · simp [connect, h]
  · simp only [connect, h]; exact get_set_self s k fp

/-- C03: a matching certificate is accepted and the store is left as it is -/
theorem connect_same (s : Pins) (k : Key) (fp : Fp) (pl : List Nat) (r : Nat) (h : s.get k = some fp) :
    (connect s k (.cert fp) pl r).2.1 = .accepted r ∧ (connect s k (.cert fp) pl r).1 = s := by
  simp [connect, h]

/-- C03: a changed or unreadable certificate fails, names both fingerprints, and leaves every pin alone -/
theorem connect_reject (s : Pins) (k : Key) (p : Presented) (pl : List Nat) (r : Nat)
    (h : ∀ x, (connect s k p pl r).2.1 ≠ .accepted x) :
    (connect s k p pl r).1 = s ∧
    ((connect s k p pl r).2.1 = .refused ∨ ∃ old new, (connect s k p pl r).2.1 = .changed old new ∧
        s.get k = some old ∧ p = .cert new ∧ old ≠ new) := by
  unfold connect at h ⊢
  cases p with
  | unreadable => exact ⟨rfl, Or.inl rfl⟩
  | cert fp =>
    cases hg : s.get k with
    | none => simp [hg] at h
    | some old =>
      simp only [hg] at h ⊢
      by_cases he : old = fp
      · simp [he] at h
      · simp only [he, ↓reduceIte]
        exact ⟨trivial, Or.inr ⟨old, fp, rfl, rfl, rfl, he⟩⟩

/-- C03: pinned with `a`, presented `b ≠ a` ⇒ `changed a b`, store untouched, no response -/
theorem connect_changed (s : Pins) (k : Key) (a b : Fp) (pl : List Nat) (r : Nat) (hp : s.get k = some a) (hne : a ≠ b) :
    (connect s k (.cert b) pl r).2.1 = .changed a b ∧ (connect s k (.cert b) pl r).1 = s := by
  simp [connect, hp, hne]

/-- C03: an unreadable certificate is refused, never treated as unpinned or trusted -/
theorem connect_unreadable (s : Pins) (k : Key) (pl : List Nat) (r : Nat) :
    (connect s k .unreadable pl r).2.1 = .refused ∧ (connect s k .unreadable pl r).1 = s := ⟨rfl, rfl⟩

/-- C03: pins of other host:port pairs are never influenced -/
theorem connect_frame (s : Pins) (k k' : Key) (p : Presented) (pl : List Nat) (r : Nat) (h : k ≠ k') :
    (connect s k p pl r).1.get k' = s.get k' := by
  unfold connect
  cases p with
  | unreadable => rfl
  | cert fp =>
    cases hg : s.get k with
    | none => exact get_set_other s k k' fp h
    | some old => simp only; split <;> rfl

/-! ### C11: the effect trace -/

/-- scan an action list: is every `send` preceded, on the same connection, by a successful `verify`
    of the same key?  The flag is reset by every new `connect`. -/
def guarded : Option Key → List Act → Bool
  | _, [] => true
  | _, .connect _ :: rest => guarded none rest
  | _, .verify k ok :: rest => guarded (if ok then some k else none) rest
  | v, .send k _ :: rest => (v == some k) && guarded v rest
  | v, .trust _ _ :: rest => guarded v rest
  | v, .await :: rest => guarded v rest
  | v, .close :: rest => guarded v rest

def noSend : List Act → Bool
  | [] => true
  | .send _ _ :: _ => false
  | _ :: rest => noSend rest

/-- everything the peer receives on the connections of a trace -/
def peerReceived : List Act → List Nat
  | [] => []
  | .send _ c :: rest => c :: peerReceived rest
  | _ :: rest => peerReceived rest

theorem guarded_sends (k : Key) (pl : List Nat) (rest : List Act) :
    guarded (some k) (sends k pl ++ rest) = guarded (some k) rest := by
  induction pl with
  | nil => rfl
  | cons c cs ih => simpa [sends, guarded] using ih

theorem peerReceived_sends (k : Key) (pl : List Nat) (rest : List Act) :
    peerReceived (sends k pl ++ rest) = pl ++ peerReceived rest := by
  induction pl with
  | nil => rfl
  | cons c cs ih => simpa [sends, peerReceived] using ih

theorem noSend_peer (t : List Act) (h : noSend t = true) : peerReceived t = [] := by
  induction t with
  | nil => rfl
  | cons a as ih => cases a <;> simp_all [noSend, peerReceived]

/-- C11: nothing is sent on a connection before its certificate passed verification, and nothing at
    all when verification fails — for every store, key, presented certificate and payload -/
theorem send_after_verify (s : Pins) (k : Key) (p : Presented) (pl : List Nat) (r : Nat) (v : Option Key) :
    guarded v (connect s k p pl r).2.2 = true ∧
    ((∀ x, (connect s k p pl r).2.1 ≠ .accepted x) → noSend (connect s k p pl r).2.2 = true) := by
  unfold connect
  cases p with
  | unreadable => exact ⟨rfl, fun _ => rfl⟩
  | cert fp =>
    cases hg : s.get k with
    | none =>
      refine ⟨?_, fun h => absurd rfl (h r)⟩
      simp only [List.cons_append, List.nil_append, guarded, ↓reduceIte]
      rw [guarded_sends]; rfl
    | some old =>
      simp only
      by_cases he : old = fp
      · simp only [he, ↓reduceIte]
        refine ⟨?_, fun h => absurd rfl (h r)⟩
        simp only [List.cons_append, List.nil_append, guarded, ↓reduceIte]
        rw [guarded_sends]; rfl
      · simp only [he, ↓reduceIte]; exact ⟨rfl, fun _ => rfl⟩

/-- C11: when the connection is accepted the peer receives exactly the payload, in order -/
theorem accepted_payload (s : Pins) (k : Key) (p : Presented) (pl : List Nat) (r x : Nat)
    (h : (connect s k p pl r).2.1 = .accepted x) : peerReceived (connect s k p pl r).2.2 = pl := by
  unfold connect at h ⊢
  cases p with
  | unreadable => simp at h
  | cert fp =>
    cases hg : s.get k with
    | none =>
      simp only [List.cons_append, List.nil_append, peerReceived]
      rw [peerReceived_sends]; simp [peerReceived]
    | some old =>
      simp only [hg] at h ⊢
      by_cases he : old = fp
      · simp only [he, ↓reduceIte, List.cons_append, List.nil_append, peerReceived]
        rw [peerReceived_sends]; simp [peerReceived]
      · simp [he] at h

/-- position form of `guarded`: a `send` at position `i` of a guarded trace is preceded by a successful
    `verify` of the same key at some `j < i`, with no new `connect` in between -/
theorem guarded_spec (t : List Act) (v : Option Key) (hg : guarded v t = true) (i : Nat) (k : Key) (c : Nat)
    (hi : t[i]? = some (.send k c)) :
    (v = some k ∧ ∀ m, m < i → ∀ k', t[m]? ≠ some (.connect k')) ∨
    ∃ j, j < i ∧ t[j]? = some (.verify k true) ∧ ∀ m, j < m → m < i → ∀ k', t[m]? ≠ some (.connect k') := by
  induction t generalizing v i with
  | nil => simp at hi
  | cons a as ih =>
    cases i with
    | zero =>
      simp only [List.getElem?_cons_zero, Option.some.injEq] at hi
      subst hi
      simp only [guarded, Bool.and_eq_true, beq_iff_eq] at hg
      exact Or.inl ⟨hg.1, fun m hm => by omega⟩
    | succ n =>
      simp only [List.getElem?_cons_succ] at hi
      have shift : ∀ (w : Option Key), guarded w as = true →
          ((∃ j, j < n ∧ as[j]? = some (.verify k true) ∧ ∀ m, j < m → m < n → ∀ k', as[m]? ≠ some (.connect k')) →
            ∃ j, j < n + 1 ∧ (a :: as)[j]? = some (.verify k true) ∧
              ∀ m, j < m → m < n + 1 → ∀ k', (a :: as)[m]? ≠ some (.connect k')) := by
        intro w _ ⟨j, hj, hv, hb⟩
        refine ⟨j + 1, by omega, by simpa using hv, ?_⟩
        intro m hm1 hm2 k'
        cases m with
        | zero => omega
        | succ m' => simpa using hb m' (by omega) (by omega) k'
      cases a with
      | connect k0 =>
        simp only [guarded] at hg
        rcases ih none hg n hi with ⟨h1, _⟩ | h2
        · simp at h1
        · exact Or.inr (shift none hg h2)
      | verify k0 ok =>
        simp only [guarded] at hg
        rcases ih _ hg n hi with ⟨h1, h2⟩ | h2
        · cases ok with
          | false => simp at h1
          | true =>
            simp only [↓reduceIte, Option.some.injEq] at h1
            subst h1
            refine Or.inr ⟨0, by omega, by simp, ?_⟩
            intro m hm1 hm2 k'
            cases m with
            | zero => omega
            | succ m' => simpa using h2 m' (by omega) k'
        · exact Or.inr (shift _ hg h2)
      | trust k0 f0 =>
        simp only [guarded] at hg
        rcases ih v hg n hi with ⟨h1, h2⟩ | h2
        · refine Or.inl ⟨h1, ?_⟩
          intro m hm k'
          cases m with
          | zero => simp
          | succ m' => simpa using h2 m' (by omega) k'
        · exact Or.inr (shift v hg h2)
      | send k0 c0 =>
        simp only [guarded, Bool.and_eq_true, beq_iff_eq] at hg
        rcases ih v hg.2 n hi with ⟨h1, h2⟩ | h2
        · refine Or.inl ⟨h1, ?_⟩
          intro m hm k'
          cases m with
          | zero => simp
          | succ m' => simpa using h2 m' (by omega) k'
        · exact Or.inr (shift v hg.2 h2)
      | await =>
        simp only [guarded] at hg
        rcases ih v hg n hi with ⟨h1, h2⟩ | h2
        · refine Or.inl ⟨h1, ?_⟩
          intro m hm k'
          cases m with
          | zero => simp
          | succ m' => simpa using h2 m' (by omega) k'
        · exact Or.inr (shift v hg h2)
      | close =>
        simp only [guarded] at hg
        rcases ih v hg n hi with ⟨h1, h2⟩ | h2
        · refine Or.inl ⟨h1, ?_⟩
          intro m hm k'
          cases m with
          | zero => simp
          | succ m' => simpa using h2 m' (by omega) k'
        · exact Or.inr (shift v hg h2)
end Misc
