namespace NauyacaVerif.Drv

def hexVal (c : Char) : Nat :=
  if c.isDigit then c.toNat - 48 else if 'a' ≤ c ∧ c ≤ 'f' then c.toNat - 87 else 0

def unhex : List Char → List Nat
  | a :: b :: r => (hexVal a * 16 + hexVal b) :: unhex r
  | _ => []

/-- bytes as lower-case hex, `-` for empty -/
def unhexS (s : String) : List Nat := if s == "-" then [] else unhex s.toList

def hexDigit (n : Nat) : Char := if n < 10 then Char.ofNat (48 + n) else Char.ofNat (87 + n)

def toHex (b : List Nat) : String :=
  if b.isEmpty then "-" else String.ofList (b.flatMap (fun x => [hexDigit (x / 16 % 16), hexDigit (x % 16)]))

def hexNat (t : String) : Nat := t.toList.foldl (fun n c => n * 16 + hexVal c) 0

/-- code points as comma-separated hex, `-` for empty -/
def cpsNat (s : String) : List Nat :=
  if s == "-" then [] else (s.splitOn ",").map hexNat

def cpsChars (s : String) : List Char := (cpsNat s).map Char.ofNat

def showCpsNat (s : List Nat) : String :=
  if s.isEmpty then "-" else ",".intercalate (s.map (fun c => String.ofList (Nat.toDigits 16 c)))

def showCps (s : List Char) : String := showCpsNat (s.map Char.toNat)

def parseRat (s : String) : Rat :=
  match s.splitOn "/" with
  | [a, b] => (a.toInt!.toNat : Rat) / (b.toNat! : Rat) * (if a.startsWith "-" then -1 else 1)
  | [a] => (a.toInt! : Rat)
  | _ => 0

def parseInt (st : String) : Int :=
  match st.toList with
  | '-' :: r => - ((String.ofList r).toNat!)
  | _ => st.toNat!

end NauyacaVerif.Drv
