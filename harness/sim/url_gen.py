"""Extraction for the proxy properties (C17, C18): source-shape facts of `server/proxy.py` of the CURRENT
tree, written to lean/NauyacaVerif/Gen/ProxyGen.lean (the theorems `…_tie` in Props/C17.lean, C18.lean and
`Srv.proxy_faults` / `proxy_no_follow` are stated over these values, so `lake build` re-checks them).

Called as `extract_extra()` by harness/props/c17.py and c18.py, under the lake lock.
An item that cannot be found is emitted as a comment; whatever depends on it then fails to build.
"""
from __future__ import annotations

import ast

from .. import core

CLASS_ORDER = {
    "timeout": ("TimeoutError", "asyncio.TimeoutError", "OSError", "Exception", "BaseException"),
    "connection": ("ConnectionError", "OSError", "Exception", "BaseException"),
    "other": ("Exception", "BaseException"),
}


def lean_str(s: str) -> str:
    return "[" + ", ".join(str(ord(c)) for c in s) + "]"


def _handler_names(h: ast.ExceptHandler) -> list[str]:
    if h.type is None:
        return ["BaseException"]
    if isinstance(h.type, ast.Tuple):
        return [ast.unparse(e) for e in h.type.elts]
    return [ast.unparse(h.type)]


def _status_of(h, cls=None, depth=0):
    for n in ast.walk(h):
        if isinstance(n, ast.Return) and isinstance(n.value, ast.Call) and ast.unparse(n.value.func).endswith("GeminiResponse"):
            for kw in n.value.keywords:
                if kw.arg == "status":
                    return _eval_status(kw.value)
            if n.value.args:
                return _eval_status(n.value.args[0])
        # `return self._helper(...)`: the response is built by a private method of the class (e.g. a factory for the 43 responses)
        if (isinstance(n, ast.Return) and isinstance(n.value, ast.Call) and isinstance(n.value.func, ast.Attribute) and cls is not None and depth < 2
                and ast.unparse(n.value.func.value) in ("self", "cls", cls.name)):
            helper = next((f for f in cls.body if isinstance(f, (ast.FunctionDef, ast.AsyncFunctionDef)) and f.name == n.value.func.attr), None)
            if helper is not None:
                st = _status_of(helper, cls, depth + 1)
                if st is not None:
                    return st
    for n in ast.walk(h):
        if isinstance(n, ast.Raise):
            return 40  # re-raised: the server layer answers 40 for a handler that raised
    return None


def _eval_status(node):
    if isinstance(node, ast.Constant) and isinstance(node.value, int):
        return node.value
    src = ast.unparse(node)
    if src.startswith("StatusCode."):
        from nauyaca.protocol.status import StatusCode

        obj = StatusCode
        for part in src.split(".")[1:]:
            obj = getattr(obj, part)
        return int(obj)
    return None


def extract_proxy() -> dict:
    core.setup_import_path()
    src = (core.REPO / "src" / "nauyaca" / "server" / "proxy.py").read_text()
    from ..extract import inline_constants

    t = inline_constants(ast.parse(src))
    out: dict = {k: None for k in ("proxyFollowRedirects", "proxyDecodeText", "proxyTofu", "proxyStatusTimeout", "proxyStatusConnection",
                                   "proxyStatusOther", "proxyUrlParts", "proxyPathSource", "proxyQuerySource")}
    cls = next((n for n in ast.walk(t) if isinstance(n, ast.ClassDef) and n.name == "ProxyHandler"), None)
    if cls is None:
        return out
    init = next((f for f in cls.body if isinstance(f, ast.FunctionDef) and f.name == "__init__"), None)
    run = next((f for f in cls.body if isinstance(f, (ast.AsyncFunctionDef, ast.FunctionDef)) and f.name == "_handle_async"), None)
    if init is not None:
        for n in ast.walk(init):
            if isinstance(n, ast.Call) and ast.unparse(n.func).endswith("GeminiClient"):
                kws = {kw.arg: kw.value for kw in n.keywords}
                for name, key, default in (("proxyDecodeText", "decode_text", True), ("proxyTofu", "trust_on_first_use", True)):
                    v = kws.get(key)
                    out[name] = default if v is None else (v.value if isinstance(v, ast.Constant) and isinstance(v.value, bool) else None)
    if run is not None:
        # the fetch sits in `_handle_async` or in a private coroutine of the class it was moved into; in the second case the call
        # of that coroutine must not itself sit in a `try` of `_handle_async` (one layer of handlers is what the table describes)
        from ..extract import _with_private_callees

        scope = [f for f in _with_private_callees(cls, run) if f is run or any(f is m for m in cls.body)]
        gets = [n for f in scope for n in ast.walk(f) if isinstance(n, ast.Call) and ast.unparse(n.func) == "self._client.get"]
        holder = next((f for f in scope if gets and any(n is gets[0] for n in ast.walk(f))), None)
        if holder is not None and holder is not run:
            wrapped = any(isinstance(tr, ast.Try) and any(isinstance(c, ast.Call) and getattr(c.func, "attr", "") == holder.name for b in tr.body for c in ast.walk(b))
                          for tr in ast.walk(run))
            if wrapped:
                gets = []
        if len(gets) == 1:
            kws = {kw.arg: kw.value for kw in gets[0].keywords}
            v = kws.get("follow_redirects")
            if v is None and len(gets[0].args) >= 2:
                v = gets[0].args[1]
            out["proxyFollowRedirects"] = True if v is None else (v.value if isinstance(v, ast.Constant) and isinstance(v.value, bool) else None)
            # the try statement around the fetch
            for tr in ast.walk(holder):
                if isinstance(tr, ast.Try) and any(g is gets[0] for b in tr.body for g in ast.walk(b)):
                    for cls_name, accepted in CLASS_ORDER.items():
                        status = 40  # nothing catches it: the server layer answers 40
                        for h in tr.handlers:
                            if any(nm in accepted for nm in _handler_names(h)):
                                status = _status_of(h, cls)
                                break
                        out["proxyStatus" + cls_name.capitalize()] = status
        # URL construction: the first f-string assigned to `upstream_url`, the sources of `path` and the query
        # (in `_handle_async` or in a private helper of the class it was moved into)
        for n in list(ast.walk(run)) + [x for f in cls.body if f is not run for x in ast.walk(f)]:
            if isinstance(n, ast.Assign) and any(ast.unparse(t) == "upstream_url" for t in n.targets) and out["proxyUrlParts"] is None:
                if isinstance(n.value, ast.JoinedStr):
                    parts = []
                    for v in n.value.values:
                        parts.append(ast.unparse(v.value) if isinstance(v, ast.FormattedValue) else "lit:" + str(v.value))
                    out["proxyUrlParts"] = parts
                else:
                    out["proxyUrlParts"] = ["expr:" + ast.unparse(n.value)]
            if isinstance(n, ast.Assign) and len(n.targets) == 1 and ast.unparse(n.targets[0]) == "path" and out["proxyPathSource"] is None:
                out["proxyPathSource"] = ast.unparse(n.value)
            if isinstance(n, ast.AugAssign) and ast.unparse(n.target) == "upstream_url" and out["proxyQuerySource"] is None:
                out["proxyQuerySource"] = ast.unparse(n.value)
    return out


def render(items: dict) -> str:
    lines = ["-- GENERATED by harness/sim/url_gen.py from src/nauyaca/server/proxy.py of the current tree on every C17/C18 run — do not edit",
             "namespace NauyacaVerif.Gen"]
    for k in ("proxyFollowRedirects", "proxyDecodeText", "proxyTofu"):
        v = items.get(k)
        lines.append(core.lean_item(k, "Bool", ("true" if v else "false") if isinstance(v, bool) else None))
    for k in ("proxyStatusTimeout", "proxyStatusConnection", "proxyStatusOther"):
        v = items.get(k)
        lines.append(core.lean_item(k, "Nat", str(v) if isinstance(v, int) else None))
    v = items.get("proxyUrlParts")
    lines.append(core.lean_item("proxyUrlParts", "List (List Nat)", None if v is None else "[" + ", ".join(lean_str(s) for s in v) + "]"))
    for k in ("proxyPathSource", "proxyQuerySource"):
        v = items.get(k)
        lines.append(core.lean_item(k, "List Nat", None if v is None else lean_str(v)))
    lines.append("end NauyacaVerif.Gen")
    return "\n".join(lines) + "\n"


def write_proxy_gen() -> dict:
    items = extract_proxy()
    text = render(items)
    f = core.LEAN / "NauyacaVerif" / "Gen" / "ProxyGen.lean"
    if not f.exists() or f.read_text() != text:
        f.write_text(text)
    return items


if __name__ == "__main__":
    print(render(extract_proxy()))
