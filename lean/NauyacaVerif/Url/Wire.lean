import NauyacaVerif.Url.NormAll
import NauyacaVerif.Url.WireModel
namespace Url

theorem cutCRLF_line (s extra : Str) (h : '\r' ∉ s) : cutCRLF (s ++ crlf ++ extra) = some (s, extra) := by
  induction s with
  | nil => simp [cutCRLF, crlf]
  | cons c cs ih =>
    have hc : c ≠ '\r' := fun e => h (by simp [e])
    have hcs : '\r' ∉ cs := fun e => h (by simp [e])
    simp only [List.cons_append, cutCRLF]
    rw [if_neg (by simp [hc])]
    have := ih hcs
    simp only [List.append_assoc] at this ⊢
    rw [this]

theorem unsplit_mem (nl p q : Str) (x : Char) (hx : x ∈ unsplit gemini nl p q []) :
    x ∈ gemini ∨ x = ':' ∨ x = '/' ∨ x ∈ nl ∨ x ∈ p ∨ x = '?' ∨ x ∈ q := by
  unfold unsplit at hx
  have hg : gemini.isEmpty = false := rfl
  simp only [hg, List.isEmpty_nil, Bool.not_true, Bool.false_eq_true, ↓reduceIte, Bool.not_false] at hx
  split at hx <;> split at hx <;> (try split at hx) <;>
    simp only [List.mem_append, List.mem_cons, List.not_mem_nil, or_false] at hx <;> grind

/-- the normalised string of any accepted URL contains no CR, provided the host name has none
    (true for every ASCII authority, and for every `lowerU` that does not invent one) -/
theorem normalized_no_cr (env : Env) (u : Str) (P : Parsed) (sp : Split)
    (hsp : urlsplit env u = .ok sp) (h : parseUrl env u = .ok P) (hhost : '\r' ∉ P.host) : '\r' ∉ P.normalized := by
  have hsplit : parseSplit env sp = .ok P := by
    unfold parseUrl at h
    split at h
    · simp at h
    · rw [hsp] at h; exact h
  obtain ⟨_, _, _, _, _, _, _, hq, hnorm⟩ := parseSplit_inv env sp P hsplit
  have ht := parse_tail_plain env u P h
  rw [hnorm]
  intro hm
  have hrb : '\r' ∉ rebracket sp.netloc P.host := by
    intro hc
    unfold rebracket at hc
    split at hc
    · simp only [List.mem_cons, List.mem_append, List.not_mem_nil, or_false] at hc
      rcases hc with hc | hc | hc
      · exact absurd hc (by decide)
      · exact hhost hc
      · exact absurd hc (by decide)
    · exact hhost hc
  have hnl : '\r' ∉ authorityOf (rebracket sp.netloc P.host) P.port := by
    intro hc
    unfold authorityOf at hc
    split at hc
    · simp only [List.mem_append, List.mem_singleton] at hc
      rcases hc with (hc | hc) | hc
      · exact hrb hc
      · exact absurd hc (by decide)
      · have := (natToStr_digits P.port _ hc).2.2.2.2.2.2.2
        simp [isUnsafe] at this
    · exact hrb hc
  have hp : '\r' ∉ P.path := fun hc => by
    have := (ht.pathNo _ hc).2.2; simp [isUnsafe] at this
  have hqq : '\r' ∉ sp.query := fun hc => by
    have := (ht.queryNo _ (hq ▸ hc)).2; simp [isUnsafe] at this
  rcases unsplit_mem _ _ _ _ hm with h1 | h1 | h1 | h1 | h1 | h1 | h1
  · exact absurd h1 (by decide)
  · exact absurd h1 (by decide)
  · exact absurd h1 (by decide)
  · exact hnl h1
  · exact hp h1
  · exact absurd h1 (by decide)
  · exact hqq h1

/-- **C19 `wire_roundtrip`**: whenever the client sends a request for the caller's URL, the server —
    whatever else follows on the connection — parses the request line to exactly the caller's components -/
theorem wire_roundtrip (env : Env) (hl : AsciiLower env) (hip : IpStable env) (maxReq : Nat) (u w extra : Str)
    (P : Parsed) (sp : Split)
    (hsp : urlsplit env u = .ok sp) (hascii : ∀ c ∈ sp.netloc, c.toNat < 128)
    (hP : parseUrl env u = .ok P)
    (hw : clientWire env maxReq u = .ok w) :
    w = P.normalized ++ crlf ∧ serverParse env maxReq (w ++ extra) = .ok P := by
  have hv : validated env maxReq u = .ok P := by
    unfold clientWire at hw
    unfold validated at hw ⊢
    split at hw
    · simp at hw
    · rename_i Q hQ
      split at hQ
      · simp at hQ
      · rename_i hlen
        rw [if_neg hlen, hP]
  have hfix := norm_idem_ascii env hl hip u P sp hsp hascii hP
  have hw2 : validated env maxReq P.normalized = .ok P ∧ w = P.normalized ++ crlf := by
    unfold clientWire at hw
    rw [hv] at hw
    simp only at hw
    split at hw
    · simp at hw
    · rename_i Q hQ
      injection hw with hw
      refine ⟨?_, hw.symm⟩
      unfold validated at hQ ⊢
      split at hQ
      · simp at hQ
      · rename_i hlen
        rw [if_neg hlen, hfix]
  refine ⟨hw2.2, ?_⟩
  have hcr := normalized_no_cr env u P sp hsp hP (fun hm => by have := host_safe_ascii env hl u P sp hsp hascii hP _ hm; simp [isUnsafe] at this)
  unfold serverParse
  rw [hw2.2, cutCRLF_line _ _ hcr]
  exact hw2.1

end Url
