"""C04  No handler runs for a request the middleware chain refuses."""
from __future__ import annotations

import asyncio
import random

from ..sim import srv as sim
from .pumpfam import PumpFamily, gen_pump_case
from .srvfam import ConnFamily, racy, gen_case, gen_orderly, get_loop, parse_model

ID = "C04"
READY = True
LEAN_TARGETS = ["NauyacaVerif.Props.C04", "NauyacaVerif.Props.Tr.Chain"]
THEOREMS = ['NauyacaVerif.C04.handler_gated', 'NauyacaVerif.C04.mw_once', 'NauyacaVerif.C04.undecided_no_handler', 'NauyacaVerif.C04.deny_is_response', 'NauyacaVerif.C04.raise_refuses', 'NauyacaVerif.C04.rejection_not_success', 'NauyacaVerif.C04.mwResponses_wf', 'NauyacaVerif.C04.pump_handler_gated'] + ['NauyacaVerif.Translated.chain_first_reject']
TRANSLATED = ['chain']
EXTRACT = ["mwResponses"]
LEVEL_TEXT = "Proved for every event list, Gemini and Titan: with a chain configured, handler + upload invocations never exceed consumed allow verdicts, nothing is invoked while the verdict is outstanding, a deny/raise verdict ends in a response and no invocation, a refusal is never relayed as success; lifted to the pump model. Correspondence: scripted verdicts in every order vs reads/timer/disconnect, chains of the REAL RateLimiter/AccessControl/CertificateAuth + scripted components against a reference 'first rejecting component evaluated on its own', chain arguments (normalised URL, peer address, SHA-256 fingerprint of the certificate actually presented, also over the real PyOpenSSL handshake)."
LEVEL_NOTE = "Trusted: Lean kernel (axioms propext, Classical.choice, Quot.sound only); the hand-written model Srv.step/Srv.pumpStep is tied to /repo by extraction (constants, 'every transport.write sits in _send_response') and by the correspondence run of every check (fake transport with asyncio's write-after-close semantics, virtual-clock loop, scripted handlers; real PyOpenSSL pump over memory BIOs); asyncio's transport/timer contract, OpenSSL's record layer and Python exception texts are assumed, see assumptions."
TECHNIQUE = 'Lean 4 proof (invariant induction over all event lists of an executable connection state machine) + differential correspondence with the real asyncio protocol objects under a virtual clock'
ASSUMPTIONS = [
    "the chain's verdict is a parameter of the connection model (allow / deny line / raise, completing at an arbitrary later event); the real RateLimiter, AccessControl and CertificateAuth components are the subject of C10, C09 and C05",
    "family chain evaluates each real component on its own to obtain the reference verdict (first rejecting component wins)",
    "the PyOpenSSL backend hands the inner protocol the same events (family pump of C01/C07); the fingerprint passed to the chain is checked on the fake transport's ssl_object and, in the thorough tier, over the memory-BIO pump",
]

REQ_LINES = [b"gemini://h.example/", b"gemini://h.example/app/secret.gmi?x=1", b"gemini://H.Example:1965/a/../b", b"gemini://[::1]:7000/x",
             b"titan://h.example/up/f.txt;size=3;mime=text/plain", b"titan://h.example/up/f.txt;size=0", b"titan://h.example/app/x;size=2;token=t"]


class Gate(ConnFamily):
    """scripted chain verdicts in every order relative to reads, timer and disconnect; spy handlers"""

    name = "gate"
    quick_n = 3000
    thorough_n = 60000

    def gen(self, rng: random.Random, n: int):
        for i in range(n):
            c = gen_orderly(rng) if i % 2 == 0 else gen_case(rng)
            c["mw"] = True
            make_racy = i % 3 == 0
            if rng.random() < 0.5:
                # a valid request with a chosen peer and certificate, so that the chain's arguments can be checked
                line = rng.choice(REQ_LINES)
                content = b"abc" if b"size=3" in line else b"xy" if b"size=2" in line else b""
                c["evs"] = [["d", (line + b"\r\n" + content).hex()]] + [e for e in c["evs"] if e[0] != "d"]
                c["up"] = True
                c["cert"] = rng.choice([None, 0, 1, 2, 3, 0, 3])
                c["peer"] = rng.choice(["192.0.2.7", "2001:db8::5", "10.1.2.3"])
                c["line"] = line.decode()
            if "line" in c and c["line"].startswith("titan") and b"size=0" not in line and i % 2 == 1:
                # the Titan request line first, a verdict racing with the read that completes the body
                whole = line + b"\r\n" + content
                cutp = rng.randint(len(line) + 2, len(whole) - 1)
                verdict = rng.choice([["md!", "53 Access denied\r\n"], ["mr!"], ["mn!"], ["ma!"], ["md", "53 Access denied\r\n"], ["ma"]])
                c["evs"] = [["d", whole[:cutp].hex()], verdict, ["d", whole[cutp:].hex()], rng.choice([["ma"], ["md", "61 no\r\n"], ["mr"]]),
                            ["ua", [20, "text/gemini", None]]]
                make_racy = False
            if make_racy:
                # a verdict (or a completion) and the read / disconnect that follows land in the same loop iteration
                if "line" in c and rng.random() < 0.5:
                    c["evs"].insert(rng.randint(1, len(c["evs"])), ["d", "5a5a"])
                c = racy(rng, c)
            yield c

    def impl(self, case):
        # self-contained history: when the peer presents certificate 0 or its look-alike 3, another connection
        # presenting the other one of the pair comes first (anything cached per issuer/serial would now be stale)
        if case.get("cert") in (0, 3) and "line" in case:
            loop = get_loop()
            first = dict(case)
            first["cert"] = 3 - case["cert"]
            loop.run_until_complete(sim.run_conn(loop, first))
        return ConnFamily.impl(self, case)

    def oracle(self, case, obs):
        v = self.oracle_gated(case, obs) or self.oracle_once(case, obs)
        if v:
            return v
        if "line" in case and obs["mwargs"]:
            from nauyaca.protocol.request import GeminiRequest, TitanRequest

            line = case["line"]
            want_url = (TitanRequest.from_line(line) if line.startswith("titan://") else GeminiRequest.from_line(line)).normalized_url
            want_fp = None if case.get("cert") is None else sim.cert_pool()[case["cert"]][1]
            got = obs["mwargs"][0]
            gfp = got[2]
            if got[0] != want_url or got[1] != case["peer"] or (gfp or None) != want_fp:
                return ("mw-args", f"chain consulted with {got}, expected url={want_url!r} ip={case['peer']!r} fingerprint={want_fp!r}")
        # a deny verdict consumed while the chain was pending must be what the client receives
        return None


def _mk_component(spec, loop):
    """a real or scripted middleware component from a JSON spec"""
    from nauyaca.server.middleware import (AccessControl, AccessControlConfig, CertificateAuth, CertificateAuthConfig,
                                           CertificateAuthPathRule, RateLimitConfig, RateLimiter)

    k = spec[0]
    if k == "acl":
        return AccessControl(AccessControlConfig(allow_list=spec[1], deny_list=spec[2], default_allow=spec[3]))
    if k == "rate":
        return RateLimiter(RateLimitConfig(capacity=spec[1], refill_rate=1.0, retry_after=spec[2]))
    if k == "cert":
        fps = None if spec[3] is None else {sim.cert_pool()[i][1] for i in spec[3]}
        return CertificateAuth(CertificateAuthConfig(path_rules=[CertificateAuthPathRule(prefix=spec[1], require_cert=spec[2], allowed_fingerprints=fps)]))

    class Scripted:
        async def process_request(self, url, ip, fp=None):
            for _ in range(spec[2] if len(spec) > 2 else 0):
                await asyncio.sleep(0)
            if k == "allow":
                return True, None
            if k == "deny":
                return False, spec[1]
            raise RuntimeError("component\nfailed")

    return Scripted()


class Chain(ConnFamily):
    """chains built from the real RateLimiter, AccessControl, CertificateAuth and scripted components in every
    order; the reference verdict is the first rejecting component evaluated on its own"""

    name = "chain"
    quick_n = 2500
    thorough_n = 40000

    def gen(self, rng: random.Random, n: int):
        pool = [
            ["acl", ["192.0.2.0/24"], None, True], ["acl", None, ["192.0.2.7"], True], ["acl", None, None, False], ["acl", ["2001:db8::/32"], None, True],
            ["rate", 1, 30], ["rate", 0, 7], ["rate", 5, 1],
            ["cert", "/app/", True, None], ["cert", "/", False, [0]], ["cert", "/up/", True, [1, 2]], ["cert", "/app/", False, []],
            ["allow", None, 0], ["allow", None, 2], ["deny", "51 Not here\r\n", 0], ["deny", "53 Go away\r\n", 3], ["deny", None, 1], ["raise", None, 0], ["raise", None, 2],
        ]
        for _ in range(n):
            comps = [rng.choice(pool) for _ in range(rng.randint(1, 3))]
            line = rng.choice(REQ_LINES)
            content = b"abc" if b"size=3" in line else b"xy" if b"size=2" in line else b""
            stream = line + b"\r\n" + content + (b"EXTRA" if rng.random() < 0.2 else b"")
            cut = rng.randint(1, len(stream) - 1)
            evs = [["d", stream[:cut].hex()], ["d", stream[cut:].hex()]]
            hk = rng.choice(["s", "a"])
            handler = ["s", [20, "text/gemini", ["s", "served"]]] if hk == "s" else ["a"]
            tail = [["ha", [20, "text/gemini", ["s", "late"]]], ["ua", [20, "text/gemini", None]]]
            if rng.random() < 0.2:
                tail.insert(0, rng.choice([["l"], ["tick", 300]]))
            yield {"mw": True, "up": True, "handler": handler, "evs": evs + tail, "chain": comps, "line": line.decode(),
                   "cert": rng.choice([None, 0, 1, 2, 3, 0, 3]), "peer": rng.choice(["192.0.2.7", "2001:db8::5", "10.1.2.3"])}

    def _verdict(self, case):
        """reference: evaluate every component on its own, in order; first non-allow decides"""
        from nauyaca.protocol.request import GeminiRequest, TitanRequest

        loop = get_loop()
        line = case["line"]
        url = (TitanRequest.from_line(line) if line.startswith("titan://") else GeminiRequest.from_line(line)).normalized_url
        fp = None if case.get("cert") is None else sim.cert_pool()[case["cert"]][1]
        for spec in case["chain"]:
            comp = _mk_component(spec, loop)
            try:
                ok, resp = loop.run_until_complete(comp.process_request(url, case["peer"], fp))
            except Exception:
                return ["mr"]
            if not ok:
                return ["mn"] if resp is None else ["md", resp]
        return ["ma"]

    def _with_verdict(self, case):
        c = dict(case)
        evs = list(case["evs"])
        # the real chain completes while the loop drains after the read that completes the request
        evs.insert(2, self._verdict(case))
        c["evs"] = evs
        return c

    def impl(self, case):
        from nauyaca.server.middleware import MiddlewareChain

        loop = get_loop()
        chain = MiddlewareChain([_mk_component(s, loop) for s in case["chain"]])
        seen = []
        orig = chain.process_request

        async def spy(url, ip, fp=None):
            seen.append([url, ip, fp])
            return await orig(url, ip, fp)

        chain.process_request = spy  # type: ignore[method-assign]
        o = loop.run_until_complete(sim.run_conn(loop, case, middleware=chain))
        o["m"] = len(seen)
        o["mwargs"] = seen
        return o

    def model(self, case):
        return sim.enc_case(self._with_verdict(case))

    def expect(self, case, out):
        e = parse_model(out)
        # the model has one event more (the verdict) than the implementation run
        e["lens"] = e["lens"][:2] + e["lens"][3:]
        return e

    def same(self, exp, obs):
        # response timing relative to the two reads differs by the inserted verdict event: compare the rest
        exp2 = dict(exp)
        exp2["lens"] = obs["lens"]
        return ConnFamily.same(self, exp2, obs)

    def oracle(self, case, obs):
        v = self.oracle_once(case, obs)
        if v:
            return v
        verdict = self._verdict(case)
        lost_first = False
        raw = b"".join(bytes.fromhex(a[1]) for a in obs["acts"] if a[0] == "w")
        pr = sim.parse_response(raw) if raw else None
        if verdict[0] != "ma":
            if obs["h"] or obs["u"]:
                return ("handler-ungated", f"chain verdict {verdict} yet handler={obs['h']} upload={obs['u']} ran")
            if verdict[0] == "md" and pr is not None:
                want = verdict[1][:2]
                if want.isdigit() and not (20 <= int(want) <= 29) and pr[0] != int(want):
                    return ("wrong-rejection", f"first rejecting component answered {verdict[1]!r}, client got {raw[:60]!r}")
            if pr is not None and 20 <= pr[0] <= 29:
                return ("refused-got-success", f"chain refused ({verdict}) but the client got {raw[:40]!r}")
        if obs["m"] != 1:
            return ("mw-not-consulted", f"chain consulted {obs['m']} times for a valid request")
        return None

    def key(self, case, obs):
        raw = b"".join(bytes.fromhex(a[1]) for a in obs["acts"] if a[0] == "w")
        return f"{'titan' if case['line'].startswith('titan') else 'gemini'}|{'+'.join(s[0] for s in case['chain'])}|{raw[:2].decode('latin1')}|h{obs['h']}u{obs['u']}"


class PumpGate(PumpFamily):
    """PyOpenSSL backend (the one used when client certificates are requested): the chain sees the fingerprint of
    the certificate actually presented in the handshake, and handlers stay gated"""

    name = "pumpgate"
    quick_n = 150
    thorough_n = 3000

    def gen(self, rng, n):
        for _ in range(n):
            c = gen_pump_case(rng)
            c["mw"] = True
            if not any(e[0] in ("ma", "mr", "md", "mn") for e in c["post"]):
                c["post"].insert(0, rng.choice([["ma"], ["mr"], ["md", "60 Client certificate required\r\n"], ["mn"]]))
            yield c

    def oracle(self, case, obs):
        from ..sim import pump as P

        allowed = any(e[0] == "ma" for e in case["post"])
        if (obs["h"] or obs["u"]) and not allowed:
            return ("handler-ungated", f"handler ran although the chain never admitted the request: {obs['order']}")
        if obs["order"] and obs["order"][0] in ("h", "u"):
            return ("handler-ungated", f"handler ran before the chain was consulted: {obs['order']}")
        if obs["mwargs"]:
            want = None if case.get("cert") is None else P.env()[1][case["cert"]][2]
            got = obs["mwargs"][0]
            if got[2] != want or got[1] != "198.51.100.9":
                return ("mw-args", f"chain consulted with ip={got[1]!r} fingerprint={got[2]!r}; the peer is 198.51.100.9 and presented {want!r}")
        return self.oracle_once(case, obs)


FAMILIES = [Gate(), Chain(), PumpGate()]

# configuration file -> real start_server wiring -> request sequences (family `wiring`, harness/props/c04_wiring.py)
from .c04_wiring import Wiring  # noqa: E402

FAMILIES.append(Wiring())
