import NauyacaVerif.Url.Basic
namespace Url

theorem findIdx_append_none {p : Char → Bool} {a b : Str} (h : findIdx p a = none) :
    findIdx p (a ++ b) = (findIdx p b).map (· + a.length) := by
  induction a with
  | nil => simp
  | cons c cs ih =>
    simp only [findIdx] at h
    split at h
    · simp at h
    · rename_i hc
      simp at h
      simp only [List.cons_append, findIdx, hc]
      rw [ih h]
      cases findIdx p b <;> simp; omega

theorem findIdx_none_iff {p : Char → Bool} {a : Str} : findIdx p a = none ↔ a.all (fun c => !p c) = true := by
  induction a with
  | nil => simp [findIdx]
  | cons c cs ih =>
    simp only [findIdx]
    split
    · rename_i h; simp [h]
    · rename_i h; simp [h, ih]

theorem findIdx_cons_hit {p : Char → Bool} {c : Char} {b : Str} (h : p c = true) : findIdx p (c :: b) = some 0 := by
  simp [findIdx, h]

/-- the clean-component predicate -/
structure Clean (nl p q : Str) : Prop where
  nlNoDelim : nl.all (fun c => !isDelim c) = true
  nlNoBracket : nl.all (fun c => c ≠ '[' ∧ c ≠ ']') = true
  nlAscii : nl.all (fun c => c.toNat < 128) = true
  pathSlash : p = [] ∨ p.head? = some '/'
  pathNo : p.all (fun c => c ≠ '?' ∧ c ≠ '#') = true
  queryNo : q.all (fun c => c ≠ '#') = true
  safe : (nl ++ p ++ q).all (fun c => !isUnsafe c) = true

def gemPrefix : Str := ['g', 'e', 'm', 'i', 'n', 'i', ':', '/', '/']

def assemble (nl p q : Str) : Str :=
  gemPrefix ++ nl ++ p ++ (if q.isEmpty then [] else '?' :: q)

end Url
