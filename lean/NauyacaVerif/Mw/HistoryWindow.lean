import NauyacaVerif.Mw.HistoryProof
import NauyacaVerif.Mw.WindowIn
namespace Mw

/-! # C10 over whole limiter histories: the window bound, non-interference, clean-up refinement -/

/-- arrival times of address `a` in a history -/
def timesOf (a : Ip) : List LEv → List Rat
  | [] => []
  | .req ip t :: es => if ip = a then t :: timesOf a es else timesOf a es
  | .cleanup _ :: es => timesOf a es

/-- (arrival time, admitted?) for every request of address `a` along a limiter history
    (other addresses' requests and clean-up passes act on the store but are not listed) -/
def obsFor (c : LCfg) (a : Ip) : Store → List LEv → List (Rat × Bool)
  | _, [] => []
  | s, .req ip t :: es =>
    (if ip = a then [(t, (request c s ip t).2)] else []) ++ obsFor c a (request c s ip t).1 es
  | s, .cleanup t :: es => obsFor c a (cleanup c s t) es

/-- `obsFor` pairs the k-th arrival time of `a` with the k-th decision taken for `a` -/
theorem obsFor_zip (c : LCfg) (a : Ip) (s : Store) (es : List LEv) :
    obsFor c a s es = (timesOf a es).zip (decisionsFor c a s es) := by
  induction es generalizing s with
  | nil => rfl
  | cons e es ih =>
    cases e with
    | cleanup t => simp only [obsFor, timesOf, decisionsFor]; exact ih _
    | req ip t =>
      simp only [obsFor, timesOf, decisionsFor]
      by_cases h : ip = a
      · subst h
        simp only [↓reduceIte, List.singleton_append, List.zip_cons_cons]
        rw [ih]
      · simp only [h, ↓reduceIte, List.nil_append]
        exact ih _

theorem decisionsFor_length (c : LCfg) (a : Ip) (s : Store) (es : List LEv) :
    (decisionsFor c a s es).length = (timesOf a es).length := by
  induction es generalizing s with
  | nil => rfl
  | cons e es ih =>
    cases e with
    | cleanup t => simp only [timesOf, decisionsFor]; exact ih _
    | req ip t =>
      simp only [timesOf, decisionsFor]
      by_cases h : ip = a
      · simp [h, ih]
      · simp [h, ih]

/-- the private bucket fed with `a`'s own arrival times -/
theorem privateRun_bucket (c : LCfg) (a : Ip) (b : Bucket) (es : List LEv) :
    (timesOf a es).zip (privateRun c a b es) = bucketObs c b (timesOf a es) := by
  induction es generalizing b with
  | nil => rfl
  | cons e es ih =>
    cases e with
    | cleanup t => simp only [timesOf, privateRun]; exact ih _
    | req ip t =>
      simp only [timesOf, privateRun]
      by_cases h : ip = a
      · simp only [h, ↓reduceIte, List.zip_cons_cons, bucketObs]
        rw [ih]
      · simp only [h, ↓reduceIte]
        exact ih _

theorem mono_weaken {x x' : Rat} (h : x ≤ x') (es : List LEv) (hm : Mono x' es) : Mono x es := by
  cases es with
  | nil => trivial
  | cons e es => exact ⟨le_trans h hm.1, hm.2⟩

theorem sorted_weaken {x x' : Rat} (h : x ≤ x') (ts : List Rat) (hs : Sorted x' ts) : Sorted x ts := by
  cases ts with
  | nil => trivial
  | cons t ts => exact ⟨le_trans h hs.1, hs.2⟩

theorem sorted_timesOf (a : Ip) (now : Rat) (es : List LEv) (hm : Mono now es) : Sorted now (timesOf a es) := by
  induction es generalizing now with
  | nil => trivial
  | cons e es ih =>
    obtain ⟨h1, h2⟩ := hm
    cases e with
    | cleanup t =>
      simp only [timesOf]
      simp only [evTime] at h1 h2
      exact sorted_weaken h1 _ (ih t h2)
    | req ip t =>
      simp only [timesOf]
      simp only [evTime] at h1 h2
      by_cases h : ip = a
      · simp only [h, ↓reduceIte]
        exact ⟨h1, ih t h2⟩
      · simp only [h, ↓reduceIte]
        exact sorted_weaken h1 _ (ih t h2)

/-- refinement with times: what the limiter shows address `a` is what one private bucket would -/
theorem obs_refines (c : LCfg) (hr : 0 ≤ c.rate) (a : Ip) (s : Store) (b : Bucket) (now : Rat)
    (es : List LEv) (hn : (Keys s).Nodup) (hm : Mono now es) (hsim : Sim c s a b now) :
    obsFor c a s es = bucketObs c b (timesOf a es) := by
  rw [obsFor_zip, limiter_refines_private c hr a s b now es hn hm hsim, privateRun_bucket]

/-- C10 window bound for the full limiter (other addresses' traffic and clean-up passes included):
    the requests of `a` admitted at times within `[x, y]` number at most `cap + rate · (y − x)` -/
theorem limiter_window (c : LCfg) (hr : 0 ≤ c.rate) (a : Ip) (s : Store) (b : Bucket) (now : Rat)
    (es : List LEv) (hn : (Keys s).Nodup) (hm : Mono now es) (hsim : Sim c s a b now) (hi : b.Inv c)
    (x y : Rat) (hxy : x ≤ y) :
    (((obsFor c a s es).countP (admitIn x y) : Nat) : Rat) ≤ c.cap + (y - x) * c.rate := by
  rw [obs_refines c hr a s b now es hn hm hsim]
  exact window_in c hr b _ x y hxy (sorted_weaken hsim.1 _ (sorted_timesOf a now es hm)) hi

/-! ### sub-histories that keep all of `a`'s requests -/

theorem mono_filter (p : LEv → Bool) (now : Rat) (es : List LEv) (hm : Mono now es) : Mono now (es.filter p) := by
  induction es generalizing now with
  | nil => trivial
  | cons e es ih =>
    obtain ⟨h1, h2⟩ := hm
    simp only [List.filter_cons]
    split
    · exact ⟨h1, ih _ h2⟩
    · exact mono_weaken h1 _ (ih _ h2)

theorem privateRun_filter (c : LCfg) (a : Ip) (p : LEv → Bool) (hp : ∀ t, p (.req a t) = true)
    (b : Bucket) (es : List LEv) : privateRun c a b (es.filter p) = privateRun c a b es := by
  induction es generalizing b with
  | nil => rfl
  | cons e es ih =>
    simp only [List.filter_cons]
    by_cases hk : p e = true
    · simp only [hk, ↓reduceIte]
      cases e with
      | cleanup t => simp only [privateRun]; exact ih _
      | req ip t =>
        simp only [privateRun]
        by_cases h : ip = a
        · simp only [h, ↓reduceIte]; rw [ih]
        · simp only [h, ↓reduceIte]; exact ih _
    · simp only [hk, Bool.false_eq_true, ↓reduceIte]
      cases e with
      | cleanup t => simp only [privateRun]; exact ih _
      | req ip t =>
        have h : ip ≠ a := fun h => hk (h ▸ hp t)
        simp only [privateRun, h, ↓reduceIte]
        exact ih _

/-- dropping any events other than `a`'s own requests (other addresses' traffic, clean-up passes)
    from a history of a fresh limiter leaves every decision for `a` unchanged -/
theorem decisions_filter (c : LCfg) (hr : 0 ≤ c.rate) (a : Ip) (t0 : Rat) (es : List LEv) (hm : Mono t0 es)
    (p : LEv → Bool) (hp : ∀ t, p (.req a t) = true) :
    decisionsFor c a [] (es.filter p) = decisionsFor c a [] es := by
  have hs := sim_init c hr a t0
  rw [limiter_refines_private c hr a [] _ t0 es (by simp [Keys]) hm hs,
      limiter_refines_private c hr a [] _ t0 (es.filter p) (by simp [Keys]) (mono_filter p t0 es hm) hs]
  exact privateRun_filter c a p hp _ es

/-- a refusal happens exactly when the address's allowance (its bucket after the lazy refill, a full
    bucket if it has none) is below one token -/
theorem request_refused_iff (c : LCfg) (s : Store) (ip : Ip) (t : Rat) :
    (request c s ip t).2 = false ↔ eff c s ip t < 1 := by
  rw [request_decision]
  simp

/-! ### the executable run `runL` (what the driver prints) and the per-address view used by the theorems -/

/-- addresses of the requests of a history, in order -/
def reqIps : List LEv → List Ip
  | [] => []
  | .req ip _ :: es => ip :: reqIps es
  | .cleanup _ :: es => reqIps es

def pick (a : Ip) (p : Ip × Bool) : Option Bool := if p.1 = a then some p.2 else none

theorem runL_req (c : LCfg) (s : Store) (ip : Ip) (t : Rat) (es : List LEv) :
    runL c s (.req ip t :: es) = (request c s ip t).2 :: runL c (request c s ip t).1 es := by
  simp [runL, stepL]

theorem runL_cleanup (c : LCfg) (s : Store) (t : Rat) (es : List LEv) :
    runL c s (.cleanup t :: es) = runL c (cleanup c s t) es := by
  simp [runL, stepL]

/-- the decisions for `a` are the entries of the whole run that belong to `a`'s requests -/
theorem runL_decisionsFor (c : LCfg) (a : Ip) (s : Store) (es : List LEv) :
    decisionsFor c a s es = ((reqIps es).zip (runL c s es)).filterMap (pick a) := by
  induction es generalizing s with
  | nil => rfl
  | cons e es ih =>
    cases e with
    | cleanup t => rw [runL_cleanup]; simp only [decisionsFor, reqIps]; exact ih _
    | req ip t =>
      rw [runL_req]
      simp only [decisionsFor, reqIps, List.zip_cons_cons, List.filterMap_cons, pick]
      by_cases h : ip = a
      · subst h
        simp only [↓reduceIte, List.singleton_append]
        rw [ih]
      · simp only [h, ↓reduceIte, List.nil_append]
        exact ih _

end Mw
