import NauyacaVerif.Gen.Fn.ParseUrl
import NauyacaVerif.Url.Basic

/-! Translated function = hand-written model.  `Gen/Fn/ParseUrl.lean` is produced on every run by `harness/translate.py` from the Python
AST of the CURRENT source tree; the theorems here prove the generated definition equal to the hand-written model the property theorems
are about.  An edit that changes what the function computes changes the generated definition and breaks the theorem; an edit that
leaves the translator's subset removes the definition and the theorem no longer elaborates.  One file per function, so that a change to
one function touches only the properties that rest on it. -/
namespace NauyacaVerif.Translated
open NauyacaVerif.Gen

/-! ### `parse_url` (utils/url.py)

The translated function takes what `urlparse(url)` yields as parameters (its attributes; `urlparse` itself and the
`.port` property may raise and are `Except` parameters, evaluated where the source first touches them).  The theorem
says: fed with the model's `urlsplit` / `hostname` / `userinfo` / `portOf`, the translated source computes exactly the
model's `Url.parseUrl` — same checks, same order, same error for each, same normalised string.  Dropping or
re-ordering a check in `parse_url`, or changing how `normalized` is assembled, changes the generated definition and
breaks this proof.  Assumed of the standard library: `urlparse` yields no `params` for the gemini scheme (it splits
them only for the schemes in `uses_params`), `str.lower()` of a non-empty string is non-empty. -/
theorem hostname_nonempty (env : Url.Env) (hl : ∀ s : Url.Str, s ≠ [] → env.lowerU s ≠ []) (nl h : Url.Str)
    (hh : Url.hostname env nl = some h) : h ≠ [] := by
  unfold Url.hostname at hh
  simp only at hh
  split at hh
  · cases hh
  · rename_i hne
    split at hh
    · cases hh; simp
    · cases hh
      apply hl
      intro h0; rw [h0] at hne; simp at hne

theorem truthy_opt (o : Option Url.Str) :
    (match o with | some s => !s.isEmpty | none => false) = decide ((o.getD []).length > 0) := by
  cases o with
  | none => simp
  | some s => cases s <;> simp

theorem ite_nil_self (q : Url.Str) : (if q = [] then [] else q) = q := by split <;> simp_all

theorem parseUrl_eq (env : Url.Env) (hl : ∀ s : Url.Str, s ≠ [] → env.lowerU s ≠ []) (url : Url.Str) :
    Url.parseUrl env url =
      match Url.urlsplit env url with
      | .error e => Fn.parseUrl url [] none none none [] (.error e) (.ok none) [] [] []
      | .ok sp => Fn.parseUrl url sp.scheme (Url.hostname env sp.netloc) (Url.userinfo sp.netloc).1 (Url.userinfo sp.netloc).2
                    sp.fragment (.ok ()) (Url.portOf sp.netloc) sp.path sp.netloc sp.query := by
  unfold Url.parseUrl Fn.parseUrl
  cases hs : Url.urlsplit env url with
  | error e => cases url <;> simp
  | ok sp =>
    simp only [Url.parseSplit]
    cases hh : Url.hostname env sp.netloc with
    | none => cases url <;> simp <;> (repeat' split) <;> simp_all [Url.gemini]
    | some host =>
      have hne := hostname_nonempty env hl _ _ hh
      have hne' : host.isEmpty = false := by cases host <;> simp_all
      have hd : Gen.defaultPort = 1965 := by decide
      rcases hu1 : (Url.userinfo sp.netloc).1 with _ | (_ | ⟨c, cs⟩) <;> rcases hu2 : (Url.userinfo sp.netloc).2 with _ | (_ | ⟨d, ds⟩) <;>
        cases hp : Url.portOf sp.netloc <;> cases url <;> simp [hne', hd, Url.gemini, Url.rebracket, Url.unparse6, ite_nil_self]

end NauyacaVerif.Translated
