import Srv
import Srv.Pump
open Srv

def hexVal (c : Char) : Nat :=
  if c.isDigit then c.toNat - 48 else if 'a' ≤ c ∧ c ≤ 'f' then c.toNat - 87 else 0
def unhex : List Char → Bytes
  | a :: b :: r => (hexVal a * 16 + hexVal b) :: unhex r
  | _ => []
def unhexS (s : String) : Bytes := if s == "-" then [] else unhex s.toList
def hexDigit (n : Nat) : Char := if n < 10 then Char.ofNat (48 + n) else Char.ofNat (87 + n)
def toHex (b : Bytes) : String :=
  if b.isEmpty then "-" else String.mk (b.flatMap (fun x => [hexDigit (x / 16 % 16), hexDigit (x % 16)]))
def cps (s : String) : PyStr :=
  if s == "-" then [] else (s.splitOn ",").map (fun t => t.toList.foldl (fun n c => n * 16 + hexVal c) 0)

/-- resp ::= status/meta-cps/body   body ::= n | s:cps | b:hex -/
def parseResp (s : String) : Option Resp :=
  match s.splitOn "/" with
  | [st, m, b] =>
    let status : Int := match st.toList with
      | '-' :: r => - ((String.mk r).toNat!)
      | _ => st.toNat!
    let body := if b == "n" then Body.none
      else if b.startsWith "s:" then Body.str (cps (b.drop 2).toString)
      else Body.bytes (unhexS (b.drop 2).toString)
    some ⟨status, cps m, body⟩
  | _ => none

def parseEv (s : String) : Option Ev :=
  if s == "t" then some .timeout
  else if s == "l" then some .lost
  else if s == "ma" then some .mwAllow
  else if s == "mr" then some .mwRaise
  else if s == "mn" then some (.mwDeny none)
  else if s.startsWith "md:" then some (.mwDeny (some ((cps (s.drop 3).toString).map Char.ofNat)))
  else if s == "hr" then some .hRaise
  else if s == "ur" then some .uRaise
  else if s.startsWith "d:" then some (.data (unhexS (s.drop 2).toString))
  else if s.startsWith "ha:" then (parseResp (s.drop 3).toString).map .hDone
  else if s.startsWith "ua:" then (parseResp (s.drop 3).toString).map .uDone
  else none

def showOut : Out → String
  | .exact b => "w:" ++ toHex b
  | .statusOnly n => s!"~{n}"
  | .close => "close"

def parseItem (s : String) : Option Item :=
  if s == "h" then some .hs else if s == "H" then some .hsFinal else if s == "c" then some .closeNotify
  else if s == "b" then some .bad else if s.startsWith "a:" then some (.app (unhexS (s.drop 2).toString)) else none

def parsePEv (s : String) : Option PEv :=
  if s == "T" then some .hsTimeout else if s == "L" then some .tcpLost
  else if s.startsWith "i:" then (parseEv (s.drop 2).toString).map .innerEv
  else if s.startsWith "r:" then
    let body := (s.drop 2).toString
    if body == "" then some (.read []) else ((body.splitOn ",").mapM parseItem).map .read
  else none

partial def loop (h : IO.FS.Stream) : IO Unit := do
  let line ← h.getLine
  if line.isEmpty then return ()
  match line.trimAscii.toString.splitOn " " with
  | "conn" :: mw :: up :: hs :: evs =>
    let handler? : Option HScript :=
      if hs == "r" then some .syncRaise else if hs == "a" then some .async
      else if hs.startsWith "s:" then (parseResp (hs.drop 2).toString).map .sync else none
    let evs? := evs.mapM parseEv
    match handler?, evs? with
    | some handler, some evs =>
      let cfg : Cfg := { mw := mw == "1", upload := up == "1", handler, env := asciiEnv }
      let s := run cfg evs
      IO.println s!"ok {" ".intercalate (s.out.map showOut)} | h={s.hcalls} u={s.ucalls} m={s.mwcalls} content={toHex (if s.ucalls > 0 then s.content else [])} timer={s.timer}"
    | _, _ => IO.println "bad-op"
  | "pump" :: up :: hs :: evs =>
    let handler? : Option HScript :=
      if hs == "r" then some .syncRaise else if hs == "a" then some .async
      else if hs.startsWith "s:" then (parseResp (hs.drop 2).toString).map .sync else none
    match handler?, evs.mapM parsePEv with
    | some handler, some evs =>
      let cfg : Cfg := { mw := false, upload := up == "1", handler, env := asciiEnv }
      let p := pumpRun cfg evs
      let (hc, uc) := match p.inner with | some i => (i.hcalls, i.ucalls) | none => (0, 0)
      IO.println s!"ok plain={toHex (plainOut p)} tcpclosed={p.tcpClosed} inner={p.inner.isSome} h={hc} u={uc}"
    | _, _ => IO.println "bad-op"
  | _ => IO.println "bad-op"
  loop h
def main : IO Unit := do loop (← IO.getStdin)
