import NauyacaVerif.Mw.Cert
import NauyacaVerif.Fs.ServedLoc
import NauyacaVerif.Gen.Params

/-! # C05  Certificate rules are applied to the resource that is actually served

Models: `Mw.Cert.process` mirrors `CertificateAuth.process_request` on the canonical request
path, `Mw.Cert.policy` is the reference policy of the property statement (first rule whose prefix
is a string prefix of the resource's canonical location; admit iff a required certificate is
present and is in the allow-list when one is given), `Mw.Cert.rulesOf` mirrors
`ServerConfig.get_certificate_auth_config`, `Fs.handle` the static handler and
`Fs.Canon.canonSegs` the function `canonical_path` both of them start from. -/

namespace NauyacaVerif.C05
open Mw.Cert Fs Fs.Canon

/-- **core** (every rule prefix ends in `/`): whatever is delivered for a request the middleware
    let through is admitted by the first rule covering its own canonical location — for every
    rule list, canonical path, served location and certificate -/
theorem c05_core (rules : List Rule) (hd : ∀ r ∈ rules, DirPrefix r.pre) (path loc : Str) (fp : Option Fp)
    (hs : Served path loc) (hp : process rules path fp = .allow) : policy rules loc fp = .allow :=
  Mw.Cert.c05_core rules hd path loc fp hs hp

/-- … and otherwise the client gets 60 or 61 -/
theorem c05_refuses (rules : List Rule) (hd : ∀ r ∈ rules, DirPrefix r.pre) (path loc : Str) (fp : Option Fp)
    (hs : Served path loc) (hpol : policy rules loc fp ≠ .allow) :
    process rules path fp = .d60 ∨ process rules path fp = .d61 :=
  Mw.Cert.c05_refuses rules hd path loc fp hs hpol

/-- handler and middleware read the same canonical path: the middleware matches prefixes against
    `render (canonSegs raw)`, the handler looks up the components of that very string below the
    root, and these are the canonical segments — proper names, whatever the spelling was -/
theorem same_canonical_path (raw : Cps) :
    canonicalPath raw = render (Canon.canonSegs raw) ∧
    pathComps (canonicalPath raw) = (Canon.canonSegs raw).1 ∧
    (∀ s ∈ (Canon.canonSegs raw).1, Clean s) ∧
    ((Canon.canonSegs raw).2 = true → (Canon.canonSegs raw).1 ≠ []) :=
  ⟨rfl, pathComps_canonical raw, canonSegs_clean raw, canonSegs_trailing raw⟩

/-- **end to end over the static handler** (symlink-free capsule, rule prefixes ending in `/`):
    for every spelling `raw` of the request path and every certificate, if the middleware passes
    the request and the handler answers with a file, that file sits at a location which the first
    covering rule admits -/
theorem c05_static (rules : List Rule) (hd : ∀ r ∈ rules, DirPrefix r.pre)
    (os : OS) (cfg : SCfg) (idx : List Cps) (hidx : cfg.indices = idx.map toName) (hi : ∀ i ∈ idx, 47 ∉ i)
    (hsym : ∀ q, os.resolve q = some q) (raw : Cps) (fp : Option Fp) (p : Path) (id : Nat)
    (hmw : process rules (canonicalPath raw) fp = .allow)
    (hserve : handle os cfg ((Canon.canonSegs raw).1.map toName) (Canon.canonSegs raw).2 = .file p id) :
    ∃ names, p = cfg.root ++ names.map toName ∧ policy rules (locStr names) fp = .allow := by
  obtain ⟨names, hp, hs⟩ := served_location os cfg idx hidx hi hsym (Canon.canonSegs raw).1 (Canon.canonSegs raw).2
    (canonSegs_clean raw) (canonSegs_trailing raw) p id hserve
  exact ⟨names, hp, Mw.Cert.c05_core rules hd _ _ fp hs hmw⟩

/-- the same for a directory listing: the listed directory is admitted -/
theorem c05_static_listing (rules : List Rule) (hd : ∀ r ∈ rules, DirPrefix r.pre)
    (os : OS) (cfg : SCfg) (hsym : ∀ q, os.resolve q = some q) (raw : Cps) (fp : Option Fp) (p : Path) (ns : List Name)
    (hmw : process rules (canonicalPath raw) fp = .allow)
    (hserve : handle os cfg ((Canon.canonSegs raw).1.map toName) (Canon.canonSegs raw).2 = .listing p ns) :
    p = cfg.root ++ (Canon.canonSegs raw).1.map toName ∧
    policy rules (if (Canon.canonSegs raw).1 = [] then [47] else locStr (Canon.canonSegs raw).1 ++ [47]) fp = .allow := by
  obtain ⟨hp, hs⟩ := served_listing os cfg hsym (Canon.canonSegs raw).1 (Canon.canonSegs raw).2
    (canonSegs_clean raw) (canonSegs_trailing raw) p ns hserve
  exact ⟨hp, Mw.Cert.c05_core rules hd _ _ fp hs hmw⟩

/-- full strength: the same for arbitrary rule prefixes -/
def c05_statement : Prop :=
  ∀ (rules : List Rule) (path loc : Str) (fp : Option Fp),
    Served path loc → process rules path fp = .allow → policy rules loc fp = .allow

/-- … which does NOT hold for the code as it is (known finding `prefix-inside-name`): the rule
    `/app/index` (certificate required) does not cover the request `/app/`, which is served by
    `/app/index.gmi` -/
theorem c05_statement_fails : ¬ c05_statement := by
  intro h
  have hs : Served [47, 97, 112, 112, 47] ([47, 97, 112, 112, 47] ++ [105, 110, 100, 101, 120, 46, 103, 109, 105]) :=
    Served.dirSlash _ (by decide) (by decide)
  have := h [⟨[47, 97, 112, 112, 47, 105, 110, 100, 101, 120], true, none⟩] _ _ none hs (by decide)
  revert this
  decide

/-- decision table of one rule: 60 exactly when a certificate is needed (required, or a list is
    given) and none was presented; 61 exactly when one was presented that is not in the list -/
theorem decision_table (r : Rule) (fp : Option Fp) :
    (applyRule r fp = .allow ↔
      (r.requireCert = true → fp.isSome = true) ∧ (∀ l, r.allowed = some l → ∃ f, fp = some f ∧ f ∈ l)) ∧
    (applyRule r fp = .d60 ↔ fp = none ∧ (r.requireCert = true ∨ r.allowed.isSome = true)) ∧
    (applyRule r fp = .d61 ↔ ∃ f l, fp = some f ∧ r.allowed = some l ∧ f ∉ l) :=
  ⟨applyRule_allow_iff r fp, applyRule_d60_iff r fp, applyRule_d61_iff r fp⟩

/-- the refusal lines are the ones in the source, and they carry the statuses 60 and 61 -/
theorem lines_tie :
    line60 ∈ Gen.mwResponses ∧ line61 ∈ Gen.mwResponses ∧
    line60.take 3 = [54, 48, 32] ∧ line61.take 3 = [54, 49, 32] ∧
    (Decision.line .allow = none) := by
  refine ⟨by decide, by decide, by decide, by decide, rfl⟩

/-- first match wins -/
theorem policy_first_match (r : Rule) (rs : List Rule) (loc : Str) (fp : Option Fp) :
    policy (r :: rs) loc fp = if r.pre <+: loc then applyRule r fp else policy rs loc fp := by
  unfold policy
  simp only [firstCover]
  by_cases h : r.pre <+: loc
  · simp [isPrefixOf_iff.mpr h, h]
  · have : r.pre.isPrefixOf loc = false := by
      cases hh : r.pre.isPrefixOf loc with
      | false => rfl
      | true => exact absurd (isPrefixOf_iff.mp hh) h
    simp [this, h]

/-- **TOML**: what is written is what is enforced — one rule per `[[certificate_auth.paths]]`
    table, in order, with the written prefix, `require_cert` (default false) and allow-list; a
    present but empty `allowed_fingerprints` stays an empty list (and admits nobody), only a
    missing key means "no list" -/
theorem toml_rules_faithful (ps : List PathCfg) :
    (∀ path fp, enforced (some ps) path fp = process (ps.map ruleOf) path fp) ∧
    (ps ≠ [] → rulesOf (some ps) = some (ps.map ruleOf)) ∧
    (∀ c ∈ ps, (ruleOf c).pre = c.pre ∧ (ruleOf c).allowed = c.allowed ∧
      ((ruleOf c).requireCert = true ↔ c.requireCert = some true)) ∧
    (∀ c, c.allowed = some [] → ∀ fp, applyRule (ruleOf c) fp ≠ .allow) := by
  refine ⟨?_, ?_, ?_, ?_⟩
  · intro path fp
    cases ps with
    | nil => simp [enforced, rulesOf, process, policy, firstCover, stricter]
    | cons c cs => simp [enforced, rulesOf]
  · intro hne
    cases ps with
    | nil => exact absurd rfl hne
    | cons c cs => simp [rulesOf]
  · intro c _
    refine ⟨rfl, rfl, ?_⟩
    cases h : c.requireCert with
    | none => simp [ruleOf, h]
    | some b => cases b <;> simp [ruleOf, h]
  · intro c hc fp
    exact empty_list_admits_nobody (ruleOf c) (by simpa [ruleOf] using hc) fp

/-- an absent configuration, or one without path tables, installs no middleware: everything passes -/
theorem toml_absent (path : Str) (fp : Option Fp) : enforced none path fp = .allow ∧ enforced (some []) path fp = .allow := by
  simp [enforced, rulesOf]

/-! ## non-vacuity -/
def app : Str := [47, 97, 112, 112, 47]                           -- "/app/"
def appPub : Str := [47, 97, 112, 112, 47, 112, 117, 98, 47]       -- "/app/pub/"
def secret : Str := [115, 46, 103, 109, 105]                       -- "s.gmi"
def demoRules : List Rule := [⟨appPub, false, none⟩, ⟨app, true, some [7]⟩]

example : ∀ r ∈ demoRules, DirPrefix r.pre := by
  intro r hr
  simp only [demoRules, List.mem_cons, List.mem_nil_iff, or_false] at hr
  rcases hr with rfl | rfl
  · exact ⟨[47, 97, 112, 112, 47, 112, 117, 98], rfl⟩
  · exact ⟨[47, 97, 112, 112], rfl⟩
-- the public area inside the protected one is public, the rest needs certificate 7
example : process demoRules (appPub ++ secret) none = .allow := by decide
example : process demoRules (app ++ secret) none = .d60 := by decide
example : process demoRules (app ++ secret) (some 8) = .d61 := by decide
example : process demoRules (app ++ secret) (some 7) = .allow := by decide
-- "/app" without the slash is judged like "/app/"
example : process demoRules [47, 97, 112, 112] none = .d60 := by decide
-- "/app/pub/../s.gmi" and "//app/./s.gmi" are judged on their canonical form
example : process demoRules (canonicalPath [47, 97, 112, 112, 47, 112, 117, 98, 47, 46, 46, 47, 115, 46, 103, 109, 105]) none = .d60 := by decide
example : process demoRules (canonicalPath [47, 47, 97, 112, 112, 47, 46, 47, 115, 46, 103, 109, 105]) none = .d60 := by decide
-- an empty allow-list in the configuration admits nobody, a missing one everybody
example : enforced (some [⟨app, none, some []⟩]) (app ++ secret) (some 7) = .d61 := by decide
example : enforced (some [⟨app, none, some []⟩]) (app ++ secret) none = .d60 := by decide
example : enforced (some [⟨app, none, none⟩]) (app ++ secret) none = .allow := by decide
end NauyacaVerif.C05
